#!/venv/bin/python
"""Confirm a seeded change and run the checks against it.

usage: tools/seedtest.py <seed dir> [--props C01,C02] [--keep <property id>]

<seed dir> holds patch.diff and demo.py.  Steps (all in a scratch worktree of
/repo's HEAD under /tmp, removed afterwards; /repo itself is not touched):
  1. apply patch.diff; 2. run the 116-test baseline; 3. demo must fail;
  4. run ./check <id> --repo <worktree> for the requested properties;
  5. revert; demo must pass.
With --keep the confirmed seed is copied to /verif/seeded/<name>/ with meta.json.
"""

import argparse
import json
import os
import shutil
import subprocess
import sys
import tempfile

ROOT = os.path.dirname(os.path.dirname(os.path.abspath(__file__)))
PY = "/venv/bin/python"


def sh(cmd, cwd=None, env=None, timeout=1200):
    e = dict(os.environ)
    if env:
        e.update(env)
    r = subprocess.run(cmd, shell=True, cwd=cwd, env=e, capture_output=True,
                       text=True, timeout=timeout)
    return r.returncode, r.stdout + r.stderr


def claimed():
    with open(os.path.join(ROOT, "MANIFEST.json")) as f:
        return [c["property_id"] for c in json.load(f)["checks"]]


def main():
    ap = argparse.ArgumentParser()
    ap.add_argument("seed")
    ap.add_argument("--props", default=None)
    ap.add_argument("--keep", default=None, help="property id this seed breaks")
    ap.add_argument("--name", default=None)
    ap.add_argument("--needs", default="")
    ap.add_argument("--skip-tests", action="store_true")
    args = ap.parse_args()

    seed = os.path.abspath(args.seed)
    patch = os.path.join(seed, "patch.diff")
    demo = os.path.join(seed, "demo.py")
    props = args.props.split(",") if args.props else claimed()

    wt = tempfile.mkdtemp(prefix="seedwt_", dir="/tmp")
    os.rmdir(wt)
    rc, out = sh(f"git -C /repo worktree add -q --detach {wt} HEAD")
    if rc:
        print(out)
        return 2
    res = {"seed": seed, "props": {}}
    try:
        rc, out = sh(f"git -C {wt} apply {patch}")
        if rc:
            rc, out = sh(f"git -C {wt} apply -3 {patch}")
        res["applies"] = rc == 0
        if rc:
            print("PATCH DOES NOT APPLY:", out)
            return 2
        # regenerate against the current HEAD (the seed may predate later fixes)
        regen = sh(f"git -C {wt} diff HEAD")[1]
        if not args.skip_tests:
            rc, out = sh(f"{PY} -m pytest -q -p no:cacheprovider --timeout=900 2>&1 | tail -1",
                         cwd=wt)
            res["tests"] = out.strip()
            res["tests_pass"] = "116 passed" in out and "failed" not in out
        rc_with, out_with = sh(f"{PY} {demo}", cwd="/tmp", env={"PYTHONPATH": wt})
        res["demo_with_change"] = rc_with
        for p in props:
            rc, out = sh(f"./check {p} --repo {wt} --no-evidence", cwd=ROOT)
            lines = [l for l in out.splitlines()
                     if ("rule=" in l and not l.startswith("KNOWN-FINDING"))
                     or l.startswith("ANALYSIS-ERROR")]
            res["props"][p] = {"exit": rc, "findings": lines[:6]}
        sh(f"git -C {wt} reset -q --hard HEAD")
        rc_without, _ = sh(f"{PY} {demo}", cwd="/tmp", env={"PYTHONPATH": wt})
        res["demo_without_change"] = rc_without
    finally:
        sh(f"git -C /repo worktree remove --force {wt}")
        shutil.rmtree(wt, ignore_errors=True)

    confirmed = res.get("tests_pass", args.skip_tests) and res["demo_with_change"] != 0 \
        and res["demo_without_change"] == 0
    res["confirmed"] = bool(confirmed)
    fired = [p for p, r in res["props"].items() if r["exit"] == 1]
    errs = [p for p, r in res["props"].items() if r["exit"] == 2]
    res["caught_by"] = fired
    res["analysis_error"] = errs
    print(json.dumps(res, indent=1))

    if args.keep and confirmed:
        name = args.name or (args.keep + "_" + os.path.basename(seed.rstrip("/")))
        dst = os.path.join(ROOT, "seeded", name)
        os.makedirs(dst, exist_ok=True)
        with open(os.path.join(dst, "patch.diff"), "w") as f:
            f.write(regen)
        shutil.copy(demo, os.path.join(dst, "demo.py"))
        notes = os.path.join(seed, "notes.md")
        if os.path.exists(notes):
            shutil.copy(notes, os.path.join(dst, "notes.md"))
        head = sh("git -C /repo rev-parse --short HEAD")[1].strip()
        meta = {
            "property": args.keep,
            "breaks": "see notes.md",
            "needs_to_manifest": args.needs or "see notes.md",
            "source": "independent sub-agent given only the property text and a scratch worktree",
            "confirmed_against_repo_head": head,
            "what_i_ran": [
                "git apply patch.diff in a scratch worktree of /repo HEAD",
                "baseline suite: " + res.get("tests", "skipped"),
                f"demo.py with change: exit {res['demo_with_change']}",
                f"demo.py without change: exit {res['demo_without_change']}",
                "./check <id> --repo <worktree> for: " + ",".join(props),
            ],
            "caught_by": {p: res["props"][p]["findings"][:3] for p in fired},
            "analysis_error_in": errs,
        }
        with open(os.path.join(dst, "meta.json"), "w") as f:
            json.dump(meta, f, indent=1)
        print("kept as", dst)
    return 0


if __name__ == "__main__":
    sys.exit(main())
