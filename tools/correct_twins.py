#!/venv/bin/python
"""tools/correct_twins.py [dir ...]: run every claimed property's rules against
*corrected* versions of seeded commits (same commit, defect removed; written by
independent sub-agents as <dir>/fixed.diff, or kept as seeded/<name>/fixed.diff).
A correct commit must never be reported: expected is silence, or exit 2 where
a clause does not read the re-organised code.  Prints one line per diff and
writes /verif/seeded/CORRECT_TWINS.json."""
import glob
import importlib
import json
import os
import sys
from concurrent.futures import ProcessPoolExecutor

ROOT = os.path.dirname(os.path.dirname(os.path.abspath(__file__)))
sys.path.insert(0, ROOT)
from verif.engine import report, srcmodel          # noqa: E402
from verif.selftest import patch                   # noqa: E402

PROPS = sorted(os.path.basename(p)[:-3].upper()
               for p in glob.glob(os.path.join(ROOT, "verif", "rules", "c[0-9][0-9].py")))


def _eval(args):
    prop, name, overlay = args
    try:
        mod = importlib.import_module(f"verif.rules.{prop.lower()}")
        P = srcmodel.Program(overlay=overlay)
        run = report.Run(prop, tier="selftest", program=P)
        mod.check(run, P)
        run.check_minimums()
        known = report.load_known()
        vio = [o for o in run.violations() if report.known_match(prop, o, known) is None]
        return prop, name, [f"{o.rule} {o.function}: {o.construct[:110]}" for o in vio], None
    except srcmodel.AnalysisError as e:
        return prop, name, [], str(e)[:160]
    except Exception as e:
        return prop, name, [], f"{type(e).__name__}: {e}"[:160]


def main():
    def rd(path):
        with open(os.path.join(srcmodel.REPO_ROOT, path), encoding="utf-8") as f:
            return f.read()

    dirs = [a for a in sys.argv[1:] if not a.startswith("--")] or sorted(
        d for d in glob.glob(os.path.join(ROOT, "seeded", "C*"))
        if os.path.exists(os.path.join(d, "fixed.diff")))
    tasks, stale = [], []
    for d in dirs:
        fp = os.path.join(d, "fixed.diff")
        if not os.path.exists(fp):
            continue
        name = os.path.basename(d.rstrip("/"))
        if name.startswith("m") and len(name) == 2:
            name = os.path.basename(os.path.dirname(d.rstrip("/"))) + "_" + name
        ov = patch.overlay_for(open(fp).read(), rd)
        if ov is None:
            stale.append(name)
            continue
        for prop in PROPS:
            tasks.append((prop, name, ov))
    with ProcessPoolExecutor(max_workers=16) as ex:
        results = list(ex.map(_eval, tasks, chunksize=4))
    alarms, errors, names = {}, {}, []
    for prop, name, vio, err in results:
        if name not in names:
            names.append(name)
        if vio:
            alarms.setdefault(name, {})[prop] = vio
        if err:
            errors.setdefault(name, {})[prop] = err
    for n in names:
        a, e = alarms.get(n, {}), errors.get(n, {})
        print(f"{n}: " + ("FALSE ALARM " + ",".join(sorted(a)) if a else "silent")
              + (f"; not understood by {','.join(sorted(e))}" if e else ""))
        for p, vs in sorted(a.items()):
            for v in vs[:3]:
                print(f"      {p}: {v}")
    if stale:
        print("stale (do not apply to the current tree):", ", ".join(stale))
    out = {"twins": len(names), "stale": stale, "false_alarms": alarms, "not_understood": errors}
    with open(os.path.join(ROOT, "seeded", "CORRECT_TWINS.json"), "w") as f:
        json.dump(out, f, indent=1, sort_keys=True)
    print(f"{len(names)} corrected commits: {len(alarms)} reported (false alarms), "
          f"{sum(1 for n in names if n in errors and n not in alarms)} not understood somewhere, "
          f"{sum(1 for n in names if n not in errors and n not in alarms)} silent everywhere")


if __name__ == "__main__":
    main()
