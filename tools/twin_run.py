#!/venv/bin/python
"""tools/twin_run.py <prop> [twin ...]: run a property's rules on a twin of the current tree."""
import sys, os
ROOT = os.path.dirname(os.path.dirname(os.path.abspath(__file__)))
sys.path.insert(0, ROOT)
from verif.engine import srcmodel, report
from verif.selftest import twins
import importlib
if sys.argv[1] == "--dump":
    # tools/twin_run.py --dump <twin> <relpath>: print the twin of one file
    print(twins.TWINS[sys.argv[2]](open(os.path.join(srcmodel.REPO_ROOT, sys.argv[3])).read(), 0))
    sys.exit(0)
prop = sys.argv[1].upper()
names = sys.argv[2:] or list(twins.TWINS)
P0 = srcmodel.Program()
mod = importlib.import_module(f"verif.rules.{prop.lower()}")
for t in names:
    ov = {m.relpath: twins.TWINS[t](m.source, 0) for m in P0.repo_modules()}
    try:
        P = srcmodel.Program(overlay=ov)
        run = report.Run(prop, program=P)
        mod.check(run, P)
        run.check_minimums()
        known = report.load_known()
        vio = [o for o in run.violations() if report.known_match(prop, o, known) is None]
        print(f"{prop} twin {t}: {'SILENT' if not vio else 'FALSE ALARM'} ({len(run.obs)} obligations)")
        for o in vio:
            print("   ", o.rule, o.function, "|", o.construct[:int(os.environ.get("W", "140"))])
    except srcmodel.AnalysisError as e:
        print(f"{prop} twin {t}: ANALYSIS-ERROR {e}")
