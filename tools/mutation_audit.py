#!/venv/bin/python
"""tools/mutation_audit.py [--files f1,f2] [--props C01,C02] [--tests] [--out file.json] [--limit N]

Operator-mutation audit of the rule set (development aid, never part of a
registered check).  For every function of the files some claimed property is
anchored in, small behaviour-changing edits are generated one at a time:
comparison / boolean / arithmetic operator swaps, dropped `not`, constants
off by one, swapped positional arguments, sibling attribute / method swaps
(then/else_, lbound/ubound, popleft/pop, ...), dropped sorted()/reversed(),
break/continue, swapped similar local names, deleted simple statements.  Each
variant is analysed in memory by every property anchored in that file.  With
--tests the variants no rule reports are also run through the existing test
suite in a scratch copy; what survives both is printed for review by hand.
"""
import ast
import copy
import importlib
import json
import os
import re
import sys
from concurrent.futures import ProcessPoolExecutor

ROOT = os.path.dirname(os.path.dirname(os.path.abspath(__file__)))
sys.path.insert(0, ROOT)
from verif.engine import report, srcmodel          # noqa: E402

CMP = {ast.Lt: [ast.LtE], ast.LtE: [ast.Lt], ast.Gt: [ast.GtE], ast.GtE: [ast.Gt],
       ast.Eq: [ast.NotEq], ast.NotEq: [ast.Eq], ast.Is: [ast.IsNot], ast.IsNot: [ast.Is],
       ast.In: [ast.NotIn], ast.NotIn: [ast.In]}
BIN = {ast.Add: ast.Sub, ast.Sub: ast.Add, ast.BitOr: ast.BitAnd, ast.BitAnd: ast.BitOr,
       ast.Mult: ast.Add, ast.FloorDiv: ast.Div}
SIBLINGS = [("then", "else_"), ("lbound", "ubound"), ("left", "right"), ("real", "imag"),
            ("base", "exponent"), ("keys", "values"), ("popleft", "pop"), ("append", "appendleft"),
            ("extend", "extendleft"), ("add", "discard"), ("startswith", "endswith"),
            ("get_read_variables", "get_written_variables"), ("parameters", "kw_parameters"),
            ("numerator", "denominator"), ("assignee", "expression"), ("global_table", "per_phase_table"),
            ("union", "intersection"), ("update", "difference_update"), ("lstrip", "rstrip"),
            ("name_global", "name_local"), ("emit_if_begin", "emit_else_begin"),
            ("children", "child"), ("aggregate", "index"), ("min", "max"), ("any", "all"),
            ("issubset", "issuperset"), ("if_true", "if_false"), ("lower", "upper")]
SIB = {}
for a_, b_ in SIBLINGS:
    SIB[a_] = b_
    SIB[b_] = a_
UNWRAP = {"sorted", "reversed", "frozenset", "tuple", "list", "natsorted"}
TOKENS = [("then", "else"), ("left", "right"), ("lower", "upper"), ("lbound", "ubound"), ("start", "stop"),
          ("start", "end"), ("a", "b"), ("x", "y"), ("old", "new"), ("src", "dst"), ("current", "next"),
          ("cur", "next"), ("first", "last"), ("read", "written"), ("reads", "writes"), ("pre", "post"),
          ("min", "max"), ("in", "out"), ("key", "value"), ("key", "val"), ("row", "col"),
          ("rows", "cols"), ("real", "imag"), ("name", "id"), ("stmt", "statement"), ("lhs", "rhs"),
          ("true", "false"), ("global", "local"), ("args", "kwargs"), ("i", "j"), ("phase", "stmt"),
          ("1", "2"), ("expr", "other")]
SKIP_FUNC = re.compile(r"(__str__|__repr__|_stringify|Stringifier|get_dot_dependency_graph|show_dependency_graph|"
                       r"run_fortran|run_script_from_commandline|__getinitargs__)")
SIMPLE = (ast.Expr, ast.Assign, ast.AugAssign, ast.AnnAssign, ast.Delete, ast.Raise, ast.Continue, ast.Break)


def props_for_files():
    out = {}
    with open(os.path.join(ROOT, "properties.jsonl")) as fh:
        for line in fh:
            d = json.loads(line)
            if not os.path.exists(os.path.join(ROOT, "verif", "rules", d["id"].lower() + ".py")):
                continue
            for f in d["anchors"]["files"]:
                out.setdefault(f, []).append(d["id"])
    return out


def enclosing_map(tree):
    """node id -> qualified name of the innermost enclosing function."""
    m = {}

    def visit(node, qual, fn):
        for c in ast.iter_child_nodes(node):
            if isinstance(c, (ast.FunctionDef, ast.AsyncFunctionDef)):
                q = qual + [c.name]
                m[id(c)] = ".".join(q)
                visit(c, q, ".".join(q))
            elif isinstance(c, ast.ClassDef):
                visit(c, qual + [c.name], fn)
            else:
                if fn is not None:
                    m[id(c)] = fn
                visit(c, qual, fn)
    visit(tree, [], None)
    return m


def similar_names(fn):
    """pairs (A, B) of local names / parameters of fn that differ by one token pair."""
    names = set()
    for n in ast.walk(fn):
        if isinstance(n, ast.Name):
            names.add(n.id)
        elif isinstance(n, ast.arg):
            names.add(n.arg)
    pairs = {}
    for a in names:
        parts = re.split(r"(_|\d+)", a)
        for i, p in enumerate(parts):
            for t1, t2 in TOKENS:
                for x, y in ((t1, t2), (t2, t1)):
                    if p == x:
                        b = "".join(parts[:i] + [y] + parts[i + 1:])
                        if b in names and b != a:
                            pairs.setdefault(a, set()).add(b)
    return pairs


def gen_sites(tree):
    """Yields (walk index, operator, detail) for every mutation site."""
    enc = enclosing_map(tree)
    nodes = list(ast.walk(tree))
    fn_nodes = {}
    for n in nodes:
        if isinstance(n, (ast.FunctionDef, ast.AsyncFunctionDef)):
            fn_nodes[enc.get(id(n))] = n
    sim_cache = {}
    for i, n in enumerate(nodes):
        fn = enc.get(id(n))
        if fn is None or SKIP_FUNC.search(fn):
            continue
        if isinstance(n, ast.Compare) and len(n.ops) == 1:
            for new in CMP.get(type(n.ops[0]), []):
                yield i, "cmp", new.__name__
        if isinstance(n, ast.BoolOp):
            yield i, "bool", "Or" if isinstance(n.op, ast.And) else "And"
            if len(n.values) >= 2:
                yield i, "booldrop", "first"
                yield i, "booldrop", "last"
        if isinstance(n, ast.UnaryOp) and isinstance(n.op, ast.Not):
            yield i, "not", "drop"
        if isinstance(n, (ast.If, ast.While, ast.IfExp)) and not (
                isinstance(n.test, ast.UnaryOp) and isinstance(n.test.op, ast.Not)) \
                and not isinstance(n.test, ast.Constant):
            yield i, "negate", "test"
        if isinstance(n, ast.BinOp) and type(n.op) in BIN and not (
                isinstance(n.left, ast.Constant) and isinstance(n.left.value, str)) \
                and not isinstance(n.op, ast.Mod):
            yield i, "bin", BIN[type(n.op)].__name__
        if isinstance(n, ast.Constant) and not isinstance(n.value, (str, bytes)) and n.value is not None \
                and n.value is not Ellipsis:
            if isinstance(n.value, bool):
                yield i, "const", repr(not n.value)
            elif isinstance(n.value, int):
                yield i, "const", repr(n.value + 1)
                if n.value > 0:
                    yield i, "const", repr(n.value - 1)
        if isinstance(n, ast.Call):
            pos = [a for a in n.args if not isinstance(a, ast.Starred)]
            if len(pos) == len(n.args) and len(pos) >= 2:
                yield i, "argswap", "0,1"
                if len(pos) >= 3:
                    yield i, "argswap", f"{len(pos) - 2},{len(pos) - 1}"
            d = n.func.id if isinstance(n.func, ast.Name) else None
            if d in UNWRAP and len(n.args) == 1 and not n.keywords:
                yield i, "unwrap", d
            if d in SIB:
                yield i, "callname", SIB[d]
            if n.keywords and any(k.arg == "key" for k in n.keywords):
                yield i, "dropkey", "key"
        if isinstance(n, ast.Attribute) and n.attr in SIB:
            yield i, "attr", SIB[n.attr]
        if isinstance(n, ast.Break):
            yield i, "loopctl", "continue"
        if isinstance(n, ast.Continue):
            yield i, "loopctl", "break"
        if isinstance(n, SIMPLE) and not (isinstance(n, ast.Expr) and isinstance(n.value, ast.Constant)):
            yield i, "delete", "pass"
        if isinstance(n, ast.Name) and isinstance(n.ctx, ast.Load):
            f_node = fn_nodes.get(fn)
            if f_node is not None:
                if fn not in sim_cache:
                    sim_cache[fn] = similar_names(f_node)
                for b in sorted(sim_cache[fn].get(n.id, ())):
                    yield i, "name", b
        if isinstance(n, ast.Subscript) and isinstance(n.slice, ast.Slice):
            if n.slice.lower is not None and n.slice.upper is None:
                yield i, "slice", "droplower"
            if n.slice.upper is not None and n.slice.lower is None:
                yield i, "slice", "dropupper"
        if isinstance(n, ast.Return) and n.value is not None and isinstance(n.value, ast.Name):
            pass


def apply(tree, idx, op, detail):
    t = copy.deepcopy(tree)
    nodes = list(ast.walk(t))
    n = nodes[idx]
    before = ast.unparse(n).split("\n")[0][:100]

    def replace(old, new):
        for p in nodes:
            for fld, val in ast.iter_fields(p):
                if val is old:
                    setattr(p, fld, new)
                    return True
                if isinstance(val, list):
                    for k, x in enumerate(val):
                        if x is old:
                            val[k] = new
                            return True
        return False

    if op == "cmp":
        n.ops = [getattr(ast, detail)()]
    elif op == "bool":
        n.op = getattr(ast, detail)()
    elif op == "booldrop":
        n.values = n.values[1:] if detail == "first" else n.values[:-1]
        if len(n.values) == 1:
            replace(n, n.values[0])
    elif op == "not":
        replace(n, n.operand)
    elif op == "negate":
        n.test = ast.UnaryOp(op=ast.Not(), operand=n.test)
    elif op == "bin":
        n.op = getattr(ast, detail)()
    elif op == "const":
        n.value = eval(detail)
    elif op == "argswap":
        a, b = (int(x) for x in detail.split(","))
        n.args[a], n.args[b] = n.args[b], n.args[a]
    elif op == "unwrap":
        replace(n, n.args[0])
    elif op == "callname":
        n.func.id = detail
    elif op == "dropkey":
        n.keywords = [k for k in n.keywords if k.arg != "key"]
    elif op == "attr":
        n.attr = detail
    elif op == "loopctl":
        replace(n, ast.Continue() if detail == "continue" else ast.Break())
    elif op == "delete":
        replace(n, ast.Pass())
    elif op == "name":
        n.id = detail
    elif op == "slice":
        if detail == "droplower":
            n.slice.lower = None
        else:
            n.slice.upper = None
    ast.fix_missing_locations(t)
    try:
        src = ast.unparse(t) + "\n"
        compile(src, "m", "exec")
    except Exception:
        return None, before
    return src, before


def _eval(args):
    props, label, overlay = args
    fired, errs = [], []
    for prop in props:
        try:
            mod = importlib.import_module(f"verif.rules.{prop.lower()}")
            P = srcmodel.Program(overlay=overlay)
            run = report.Run(prop, tier="selftest", program=P)
            mod.check(run, P)
            run.check_minimums()
            known = report.load_known()
            vio = [o for o in run.violations() if report.known_match(prop, o, known) is None]
            if vio:
                fired.append((prop, sorted({o.rule for o in vio})[:3]))
        except srcmodel.AnalysisError as e:
            errs.append((prop, str(e)[:80]))
        except Exception as e:
            errs.append((prop, f"{type(e).__name__}: {e}"[:80]))
    return label, fired, errs


def _tests(args):
    label, overlay = args
    import shutil
    import subprocess
    import tempfile
    d = tempfile.mkdtemp(prefix="maudit_", dir="/tmp")
    try:
        subprocess.run(["rsync", "-a", "--exclude", ".git", srcmodel.REPO_ROOT + "/", d + "/"], check=True)
        for rel, text in overlay.items():
            with open(os.path.join(d, rel), "w") as f:
                f.write(text)
        try:
            r = subprocess.run(["/venv/bin/python", "-m", "pytest", "-x", "-q", "-p", "no:cacheprovider",
                                "--timeout=120"], cwd=d, capture_output=True, text=True, timeout=900,
                               env={**os.environ, "PYTHONDONTWRITEBYTECODE": "1"})
            ok = r.returncode == 0
        except subprocess.TimeoutExpired:
            ok = False
        return label, ok
    finally:
        shutil.rmtree(d, ignore_errors=True)


def main():
    argv = sys.argv[1:]

    def opt(name, default=None):
        if name in argv:
            return argv[argv.index(name) + 1]
        return default

    pf = props_for_files()
    files = opt("--files")
    files = files.split(",") if files else sorted(pf)
    only_props = opt("--props")
    only_props = set(only_props.split(",")) if only_props else None
    only_ops = opt("--ops")
    only_ops = set(only_ops.split(",")) if only_ops else None
    only_fn = opt("--func")
    limit = int(opt("--limit", "0"))
    only_labels = opt("--labels")
    if only_labels:
        with open(only_labels) as fh:
            only_labels = set(json.load(fh))
    out_path = opt("--out", "/tmp/w/mutation_audit.json")
    tasks, meta = [], {}
    for rel in files:
        props = [p for p in pf.get(rel, []) if only_props is None or p in only_props]
        if not props:
            continue
        with open(os.path.join(srcmodel.REPO_ROOT, rel)) as f:
            src = f.read()
        tree = ast.parse(src)
        enc = enclosing_map(tree)
        nodes = list(ast.walk(tree))
        for idx, op, detail in gen_sites(tree):
            if only_ops and op not in only_ops:
                continue
            fn = enc.get(id(nodes[idx]))
            if only_fn and only_fn not in (fn or ""):
                continue
            new, before = apply(tree, idx, op, detail)
            if new is None:
                continue
            line = getattr(nodes[idx], "lineno", 0)
            label = f"{rel}:{line} {fn} [{op}:{detail}] {before}"
            if label in meta:
                continue
            if only_labels is not None and label not in only_labels:
                continue
            meta[label] = {"file": rel, "line": line, "function": fn, "op": op, "detail": detail,
                           "before": before, "props": props}
            tasks.append((props, label, {rel: new}))
    if limit:
        tasks = tasks[:limit]
    print(f"{len(tasks)} variants over {len(files)} files", flush=True)
    with ProcessPoolExecutor(max_workers=16) as ex:
        results = list(ex.map(_eval, tasks, chunksize=8))
    ov = {t[1]: t[2] for t in tasks}
    fired = [r for r in results if r[1]]
    err_only = [r for r in results if not r[1] and r[2]]
    silent = [r for r in results if not r[1] and not r[2]]
    print(f"reported {len(fired)}, exit-2 only {len(err_only)}, unnoticed {len(silent)}", flush=True)
    for r in results:
        meta[r[0]]["fired"] = r[1]
        meta[r[0]]["errors"] = r[2]
    if "--tests" in argv:
        cand = [r[0] for r in silent + err_only]
        with ProcessPoolExecutor(max_workers=12) as ex:
            res = list(ex.map(_tests, [(lab, ov[lab]) for lab in cand], chunksize=2))
        for lab, ok in res:
            meta[lab]["tests_pass"] = ok
        surv = [lab for lab, ok in res if ok]
        print(f"of {len(cand)} variants no rule reports, the suite rejects {len(cand) - len(surv)}; "
              f"{len(surv)} survive both", flush=True)
    with open(out_path, "w") as f:
        json.dump(meta, f, indent=0)
    print("written", out_path)


if __name__ == "__main__":
    main()
