#!/venv/bin/python
"""Regenerate the 'fixed' section of known_findings.json from /repo's git log.
The property mapping is keyed by a distinctive substring of the commit subject."""
import json, os, subprocess
ROOT = os.path.dirname(os.path.dirname(os.path.abspath(__file__)))
MAP = [
 ("Assign read set misses", ["C08", "C02", "C07"]),
 ("KeyError after an array loop with zero", ["C01"]),
 ("dot_product built-in", ["C01"]),
 ("never-assigned variable to None", ["C01"]),
 ("raises IndexError on a block", ["C06"]),
 ("reverses the children of a nested block", ["C06"]),
 ("assigns no kind to a power", ["C09", "C03"]),
 ("unify() is not commutative", ["C14"]),
 ("keeps the first kind", ["C14"]),
 ("dependency on a statement of another phase", ["C10"]),
 ("order of Fortran release calls", ["C15"]),
 ("names its temporaries in hash order", ["C15", "C07"]),
 ("inserts phases in hash order", ["C15", "C16"]),
 ("ignores should_disambiguate_name", ["C16"]),
 ("leaves the condition of a statement unmapped", ["C16", "C07"]),
 ("does not map loop identifiers", ["C16"]),
 ("inequality operator as", ["C03"]),
 ("constant hoisting fails with KeyError", ["C18"]),
 ("leaks user-type temporaries", ["C12"]),
 ("lose their guard in generated code", ["C03", "C07"]),
 ("before the flag is assigned", ["C07"]),
 ("raises TypeError on a call nested", ["C07"]),
 ("differ only in letter case", ["C13"]),
 ("attribute names that are not identifiers", ["C13"]),
 ("identifiers that may start with a digit", ["C13"]),
 ("discards <ret_*> variables", ["C01", "C11"]),
 ("solver parameters and solve variables unmapped", ["C16"]),
 ("AttributeError on a Nop", ["C04"]),
 ("late-defined operands", ["C14"]),
 ("inside a loop that still reads it", ["C12"]),
 ("negative constant base of a power", ["C01"]),
 ("isnan built-in returns an array", ["C09"]),
 ("power whose base is a power", ["C01", "C03"]),
 ("splits a quoted string", ["C20"]),
 ("guard is the constant False", ["C05"]),
 ("guard that is also a solve variable", ["C08", "C02"]),
 ("dependency that was already planned", ["C04"]),
 ("loop bounds of a guarded array assignment", ["C05", "C01"]),
 ("variable that equals a loop variable", ["C07"]),
 ("guard read a temporary that is only set", ["C07"]),
 ("single-precision complex constant", ["C09"]),
 ("while a kind is still provisional", ["C14"]),
 ("non-finite numpy constant", ["C01"]),
 ("independent statements depends on the hash seed", ["C15"]),
 ("explicit array bounds in a user type", ["C03"]),
 ("parentheses around quotient factors", ["C03"]),
 ("insertion order of the phase map", ["C15"]),
 ("default successor or an initial phase", ["C10"]),
 ("parentheses of nested sums and products", ["C01", "C03"]),
 ("add the terms of a sum differently", ["C01"]),
 ("2-norm of the entries for values of any rank", ["C03"]),
 ("comparison whose operand is a comparison", ["C01", "C03"]),
]
def main():
    log = subprocess.run(["git", "-C", "/repo", "log", "--reverse", "--format=%h %s"],
                         capture_output=True, text=True).stdout.splitlines()
    fixed = []
    unmapped = []
    for line in log:
        h, _, subj = line.partition(" ")
        if not subj.startswith("fix:"):
            continue
        what = subj[len("fix: "):]
        props = None
        for key, ps in MAP:
            if key in subj:
                props = ps
        if props is None:
            unmapped.append(line)
            continue
        for p in props:
            fixed.append({"property": p, "commit": h, "what": what,
                          "line": f"fixed: property={p} {h} {what}"})
    path = os.path.join(ROOT, "known_findings.json")
    kf = json.load(open(path))
    kf["fixed"] = fixed
    json.dump(kf, open(path, "w"), indent=1)
    print(len(fixed), "fixed entries;", "UNMAPPED:" if unmapped else "", *unmapped)


if __name__ == "__main__":
    main()
