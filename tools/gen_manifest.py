#!/venv/bin/python
"""Regenerate MANIFEST.json from the rule modules present under verif/rules.

A property is claimed iff verif/rules/cNN.py exists; everything else goes to
not_applicable with the reason recorded here.
"""

import importlib
import json
import os
import sys

ROOT = os.path.dirname(os.path.dirname(os.path.abspath(__file__)))
sys.path.insert(0, ROOT)

NOT_APPLICABLE = {
    "C19": ("print/parse round trip is a value property of pymbolic's printer/"
            "parser pair; the repository contributes ~50 lines (a lexer-table "
            "entry, a terminal rule, a backtick-stripping substitution) that "
            "offer only exact-fragment facts, which would be a brittle proxy "
            "and not a necessary-condition clause (DESIGN.md section 6)"),
}

NOT_BUILT = ("no static rule built for this property in this round; see "
             "DESIGN.md section 4 for the clauses that are structurally decidable")

TECHNIQUE = {
    "C01": "static sibling-agreement analysis (ast): handler tables, driver-loop protocol summaries incl. the Python template strings, built-in binding and argument-forwarding tables, precedence constants and forced-parentheses overrides; shared clauses of C02/C04/C05/C08/C20; repository lints",
    "C02": "static set-algebra summary of the dependency builder plus CFG ordering/pairing rules",
    "C03": "static emission-structure analysis: def-use flow of guards into wrappers, operator meaning table, precedence / forced-parentheses agreement with pymbolic, template allocation idiom, emit-order dominance on a statement CFG; case tables of the lowering by abstract interpretation over terms (shared with C05/C07)",
    "C04": "static CFG dominance / pairing / exactly-once rules over the execution controller, skip-set and executed-filter rules for recursive and explicit-stack traversals",
    "C05": "case table of the per-statement lowering by abstract interpretation over uninterpreted terms; CFG dominance rules on the topological sort, handler exhaustiveness of the walker, unordered-iteration taint; simplifier clauses shared with C06",
    "C06": "path-sensitive forward dataflow over sets of worlds (finite powerset domain) for the conditional / loop / block handlers of all four passes; guarded-operation, ownership and work-list rules on the CFG of the merge pass (splice orientation, pop guards, one consuming end, no early exit)",
    "C07": "static def-use flow analysis of the rewriting passes: freshness and id/statement pairing, guard/dependency propagation, append-order vs. recursion, mapper arity protocol, component carry-over; case table of the statement wrapper by abstract interpretation over terms",
    "C08": "static provenance analysis comparing interpreter accesses with declared read/write sets over the real C3 MRO",
    "C09": "static total-return analysis of the kind mapper, must-pass-through of the one-result test along return chains, table agreement across the built-in registries",
    "C10": "static loop-scope, call-order and pairing analysis of the verifier passes against the consumers' lookup tables; call-graph reachability of raise statements from the passes",
    "C11": "static post-dominance (incl. exceptional exits) and except-clause audit on the call paths from user-function call sites",
    "C12": "static must-pass-through / emit-order analysis of the Fortran generator's release and allocation discipline; dispatcher-name exhaustiveness of the type visitors; template audit for non-short-circuit association tests",
    "C13": "static constant evaluation of identifier alphabets and prefixes, memo/dispatch shape, case and length normalisation on the name path; who-may-remove rule on the name generators",
    "C14": "finite-domain abstract interpretation of unify() (exhaustive over the abstract kind universe) plus CFG pairing rules on the table update",
    "C15": "static set-typedness inference x order-sensitive sink taint analysis over the call graph of both generators",
    "C16": "case table of fuse_two_phases by abstract interpretation over uninterpreted terms; static def-use flow and field-coverage analysis of fusion and map_expressions",
    "C17": "static guarded-operation / dominance rules over the unifier extension and match front end",
    "C18": "static push/pop balance analysis of the constant classifier against pymbolic's handler table, plus pairing rules",
    "C20": "static path enumeration over the wrapper loop with boolean-flag sensitivity (token conservation, pad discipline); tokeniser loop abstractly interpreted into a finite automaton and searched in product with the literal automaton",
}

DESIGN_REF = {pid: f"DESIGN.md section 4, {pid}" for pid in TECHNIQUE}


def main():
    props = []
    with open(os.path.join(ROOT, "properties.jsonl")) as f:
        for line in f:
            if line.strip():
                props.append(json.loads(line))
    checks = []
    na = []
    for p in props:
        pid = p["id"]
        path = os.path.join(ROOT, "verif", "rules", pid.lower() + ".py")
        if pid in NOT_APPLICABLE:
            na.append({"property_id": pid, "reason": NOT_APPLICABLE[pid]})
            continue
        if not os.path.exists(path):
            na.append({"property_id": pid, "reason": NOT_BUILT})
            continue
        mod = importlib.import_module(f"verif.rules.{pid.lower()}")
        checks.append({
            "property_id": pid,
            "quick_cmd": f"./check {pid} --tier quick",
            "thorough_cmd": f"./check {pid} --tier thorough",
            "evidence_file": f"/verif/evidence/{pid}.json",
            "replay_cmd_template": f"./check {pid} --replay {{path}}",
            "engine": "dagrt-static",
            "level_claimed": {
                "category": "other",
                "text": ("Static analysis of /repo's current source (no execution). "
                         + mod.EXPLANATION),
                "design_ref": DESIGN_REF.get(pid, "DESIGN.md section 4"),
            },
            "level_note": ("Clause-level claim only: decides the structural clauses "
                           "named in the text, for every input/schedule/history, "
                           "because they quantify over paths of the implementation; "
                           "does not decide computed values. Trusted base: CPython ast, "
                           "installed pymbolic/pytools sources (re-read each run), "
                           "documented semantics of a few built-in container operations. "
                           "Assumes: " + "; ".join(mod.ASSUMPTIONS)),
            "technique": TECHNIQUE.get(pid, "static analysis (ast)"),
        })
    manifest = {
        "version": 1,
        "setup_cmd": "true",
        "hooks": {
            "guard": "DAGRT_VERIF",
            "enable": "none needed: the checks are static and read /repo's working tree; no instrumentation exists",
            "baseline_off_cmd": "cd /repo && /venv/bin/python -m pytest -ra -q -p no:cacheprovider --timeout=900 --continue-on-collection-errors",
            "source_commits": [],
            "add_only": True,
        },
        "engines": [{
            "name": "dagrt-static",
            "path": "/verif/verif",
            "serves_properties": [c["property_id"] for c in checks],
            "kind_free_text": ("repository-specific static analyser on the stdlib ast "
                               "module: program model with C3 MRO and local-import "
                               "resolution, statement CFG with exceptional edges, "
                               "provenance/def-use analysis, finite-domain abstract "
                               "interpreter, in-memory mutant/twin self-validation"),
        }],
        "checks": checks,
        "notes": ("All checks are static (family: static analysis). Exit 2 + "
                  "'ANALYSIS-ERROR' means the analyser could not interpret the tree "
                  "(vanished anchor / unknown idiom), never a violation. Genuine "
                  "defects found while building were repaired in /repo as unguarded "
                  "'fix:' commits and are listed as fixed in known_findings.json."),
        "not_applicable": na,
    }
    with open(os.path.join(ROOT, "MANIFEST.json"), "w") as f:
        json.dump(manifest, f, indent=1)
    print(f"claimed={len(checks)} not_applicable={len(na)}")


if __name__ == "__main__":
    main()
