#!/bin/sh
# tools/seedbatch.sh <seed root dir (e.g. /tmp/seed/C09r2)> <property> : test each m* against the property's check
root=$1; prop=$2; shift 2
for d in $root/m*; do
  /venv/bin/python /verif/tools/seedtest.py $d --props $prop "$@" 2>&1 | /venv/bin/python -c "
import json,sys
try:
    r=json.load(sys.stdin)
except Exception as e:
    print('$d', 'ERROR reading result'); sys.exit(0)
print(r['seed'], 'confirmed' if r['confirmed'] else 'NOTCONF', r.get('tests'), r['demo_with_change'], r['demo_without_change'], 'caught_by', r['caught_by'], 'err', r['analysis_error'])
for p in r['props'].values():
    for l in p['findings'][:2]: print('     ', l[:230])
"
done
