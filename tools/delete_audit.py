#!/venv/bin/python
"""tools/delete_audit.py <prop> [--all]: statement-deletion audit of a property's rules.

For every function the property's rules analysed, every simple statement
(expression statement, assignment, augmented assignment, delete, raise,
continue, break) is replaced by `pass`, one at a time, in memory, and the rules
are run on the variant.  Prints the deletions the rules did NOT notice, for
review by hand: many are irrelevant to the property (and many would fail the
test suite), but a deletion that breaks the property silently is a blind spot.
"""
import ast
import importlib
import os
import sys
from concurrent.futures import ProcessPoolExecutor

ROOT = os.path.dirname(os.path.dirname(os.path.abspath(__file__)))
sys.path.insert(0, ROOT)
from verif.engine import report, srcmodel          # noqa: E402

SIMPLE = (ast.Expr, ast.Assign, ast.AugAssign, ast.AnnAssign, ast.Delete, ast.Raise,
          ast.Continue, ast.Break)


def _eval(args):
    prop, label, overlay = args
    try:
        mod = importlib.import_module(f"verif.rules.{prop.lower()}")
        P = srcmodel.Program(overlay=overlay)
        run = report.Run(prop, tier="selftest", program=P)
        mod.check(run, P)
        run.check_minimums()
        known = report.load_known()
        vio = [o for o in run.violations() if report.known_match(prop, o, known) is None]
        return label, ("violation" if vio else "silent"), sorted({o.rule for o in vio})
    except srcmodel.AnalysisError as e:
        return label, "analysis-error", [str(e)[:100]]
    except Exception as e:
        return label, "analysis-error", [f"{type(e).__name__}: {e}"[:100]]


def _survives_tests(args):
    """Does the existing suite still pass with this variant?  (development
    aid only - never part of a registered check)"""
    idx, label, overlay = args
    import shutil
    import subprocess
    import tempfile
    d = tempfile.mkdtemp(prefix="audit_", dir="/tmp")
    try:
        subprocess.run(["rsync", "-a", "--exclude", ".git", srcmodel.REPO_ROOT + "/", d + "/"], check=True)
        for rel, text in overlay.items():
            with open(os.path.join(d, rel), "w") as f:
                f.write(text)
        r = subprocess.run(["/venv/bin/python", "-m", "pytest", "-x", "-q", "-p", "no:cacheprovider",
                            "--timeout=300"], cwd=d, capture_output=True, text=True,
                           env={**os.environ, "PYTHONDONTWRITEBYTECODE": "1"})
        tail = r.stdout.strip().splitlines()[-1] if r.stdout.strip() else ""
        return label, r.returncode == 0, tail
    finally:
        shutil.rmtree(d, ignore_errors=True)


def main():
    prop = sys.argv[1].upper()
    mod = importlib.import_module(f"verif.rules.{prop.lower()}")
    P = srcmodel.Program()
    run = report.Run(prop, tier="selftest", program=P)
    mod.check(run, P)
    funcs = {}
    for o in run.obs:
        if o.file and o.function and not o.file.startswith("site-packages"):
            funcs.setdefault(o.file, set()).add(o.function.split(" ")[0])
    tasks = []
    for rel, names in sorted(funcs.items()):
        m = [mm for mm in P.repo_modules() if mm.relpath == rel]
        if not m:
            continue
        src = m[0].source
        tree = ast.parse(src)
        # map qualified names to nodes

        def visit(node, qual):
            for c in ast.iter_child_nodes(node):
                if isinstance(c, (ast.FunctionDef, ast.AsyncFunctionDef, ast.ClassDef)):
                    q = qual + [c.name]
                    yield ".".join(q), c
                    yield from visit(c, q)
                else:
                    yield from visit(c, qual)

        targets = [(q, n) for q, n in visit(tree, []) if q in names
                   and isinstance(n, (ast.FunctionDef, ast.AsyncFunctionDef))]
        for q, fn in targets:
            stmts = [s for s in ast.walk(fn) if isinstance(s, SIMPLE)
                     and not (isinstance(s, ast.Expr) and isinstance(s.value, ast.Constant))]
            for s in stmts:
                text = ast.unparse(s).split("\n")[0][:90]
                # replace in a fresh copy
                t2 = ast.parse(src)
                for x in ast.walk(t2):
                    for fld in ("body", "orelse", "finalbody"):
                        blk = getattr(x, fld, None)
                        if isinstance(blk, list):
                            for i, y in enumerate(blk):
                                if isinstance(y, type(s)) and getattr(y, "lineno", -1) == s.lineno \
                                        and getattr(y, "col_offset", -1) == s.col_offset:
                                    blk[i] = ast.copy_location(ast.Pass(), y)
                ast.fix_missing_locations(t2)
                tasks.append((prop, f"{rel}:{s.lineno} {q}: {text}", {rel: ast.unparse(t2) + "\n"}))
    with ProcessPoolExecutor(max_workers=16) as ex:
        results = list(ex.map(_eval, tasks, chunksize=4))
    n = len(results)
    fired = [r for r in results if r[1] == "violation"]
    err = [r for r in results if r[1] == "analysis-error"]
    silent = [r for r in results if r[1] == "silent"]
    print(f"[{prop}] {n} single-statement deletions in {sum(len(v) for v in funcs.values())} "
          f"analysed functions: reported {len(fired)}, exit-2 {len(err)}, unnoticed {len(silent)}")
    if "--all" in sys.argv:
        for r in fired:
            print("  FIRED ", r[0], r[2])
        for r in err:
            print("  EXIT2 ", r[0], r[2])
    if "--tests" in sys.argv and silent:
        ov = {t[1]: t[2] for t in tasks}
        with ProcessPoolExecutor(max_workers=8) as ex:
            res = list(ex.map(_survives_tests, [(i, r[0], ov[r[0]]) for i, r in enumerate(silent)]))
        surv = [r for r in res if r[1]]
        print(f"[{prop}] of the {len(silent)} unnoticed deletions the test suite rejects "
              f"{len(silent) - len(surv)}; {len(surv)} survive both:")
        for r in surv:
            print("  SURVIVES", r[0])
        return
    for r in silent:
        print("  SILENT", r[0])


if __name__ == "__main__":
    main()
