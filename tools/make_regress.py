#!/venv/bin/python
"""Dump every 'fix:' commit of /repo as a diff under verif/selftest/regress/.
The thorough tier applies them in REVERSE, in memory, as mutants: reverting a
repair must make the corresponding rule fire."""
import json, os, re, subprocess, sys
ROOT = os.path.dirname(os.path.dirname(os.path.abspath(__file__)))
sys.path.insert(0, os.path.join(ROOT, "tools"))
from fixed_list import MAP   # noqa
out = os.path.join(ROOT, "verif", "selftest", "regress")
os.makedirs(out, exist_ok=True)
for f in os.listdir(out):
    os.remove(os.path.join(out, f))
log = subprocess.run(["git", "-C", "/repo", "log", "--reverse", "--format=%h %s"],
                     capture_output=True, text=True).stdout.splitlines()
SCRATCH = "/tmp/regress_wt"


def rebased(commit):
    """The repair as a diff against today's HEAD: revert the commit in a scratch
    worktree (3-way, so later edits of neighbouring lines do not matter) and
    take the reverse of that change.  None if the revert conflicts."""
    subprocess.run(["git", "-C", SCRATCH, "reset", "-q", "--hard", "HEAD"], check=True)
    r = subprocess.run(["git", "-C", SCRATCH, "revert", "-n", commit], capture_output=True, text=True)
    if r.returncode != 0:
        subprocess.run(["git", "-C", SCRATCH, "revert", "--abort"], capture_output=True)
        subprocess.run(["git", "-C", SCRATCH, "reset", "-q", "--hard", "HEAD"])
        return None
    tree = subprocess.run(["git", "-C", SCRATCH, "write-tree"], capture_output=True,
                          text=True).stdout.strip()
    d = subprocess.run(["git", "-C", SCRATCH, "diff", tree, "HEAD", "--", "dagrt"],
                       capture_output=True, text=True).stdout
    subprocess.run(["git", "-C", SCRATCH, "reset", "-q", "--hard", "HEAD"])
    return d or None


subprocess.run(["git", "-C", "/repo", "worktree", "remove", "--force", SCRATCH], capture_output=True)
subprocess.run(["git", "-C", "/repo", "worktree", "add", "-q", "--detach", SCRATCH, "HEAD"], check=True)
index = []
rebased_flag = {}
n = 0
for line in log:
    h, _, subj = line.partition(" ")
    if not subj.startswith("fix:"):
        continue
    props = None
    for key, ps in MAP:
        if key in subj:
            props = ps
    if props is None:
        continue
    n += 1
    slug = re.sub(r"[^a-z0-9]+", "-", subj[5:].lower())[:50].strip("-")
    fn = f"{n:02d}_{slug}.diff"
    rb = rebased(h)
    manual = os.path.join(ROOT, "verif", "selftest", "regress_manual", h + ".diff")
    if rb is None and os.path.exists(manual):
        rb = open(manual).read()       # rebased by hand onto later repairs
    rebased_flag[h] = rb is not None
    diff = rb or subprocess.run(
        ["git", "-C", "/repo", "show", "--format=", h, "--", "dagrt"],
        capture_output=True, text=True).stdout
    with open(os.path.join(out, fn), "w") as f:
        f.write(diff)
    index.append({"file": fn, "commit": h, "subject": subj, "properties": props})
    if rebased_flag.get(h) is False:
        print("  not rebased (revert conflicts), kept the original diff:", h, subj[:60])
subprocess.run(["git", "-C", "/repo", "worktree", "remove", "--force", SCRATCH], capture_output=True)
json.dump(index, open(os.path.join(out, "INDEX.json"), "w"), indent=1)
print(len(index), "regress diffs")
