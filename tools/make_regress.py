#!/venv/bin/python
"""Dump every 'fix:' commit of /repo as a diff under verif/selftest/regress/.
The thorough tier applies them in REVERSE, in memory, as mutants: reverting a
repair must make the corresponding rule fire."""
import json, os, re, subprocess, sys
ROOT = os.path.dirname(os.path.dirname(os.path.abspath(__file__)))
sys.path.insert(0, os.path.join(ROOT, "tools"))
from fixed_list import MAP   # noqa
out = os.path.join(ROOT, "verif", "selftest", "regress")
os.makedirs(out, exist_ok=True)
for f in os.listdir(out):
    os.remove(os.path.join(out, f))
log = subprocess.run(["git", "-C", "/repo", "log", "--reverse", "--format=%h %s"],
                     capture_output=True, text=True).stdout.splitlines()
index = []
n = 0
for line in log:
    h, _, subj = line.partition(" ")
    if not subj.startswith("fix:"):
        continue
    props = None
    for key, ps in MAP:
        if key in subj:
            props = ps
    if props is None:
        continue
    n += 1
    slug = re.sub(r"[^a-z0-9]+", "-", subj[5:].lower())[:50].strip("-")
    fn = f"{n:02d}_{slug}.diff"
    diff = subprocess.run(["git", "-C", "/repo", "show", "--format=", h, "--", "dagrt"],
                          capture_output=True, text=True).stdout
    with open(os.path.join(out, fn), "w") as f:
        f.write(diff)
    index.append({"file": fn, "commit": h, "subject": subj, "properties": props})
json.dump(index, open(os.path.join(out, "INDEX.json"), "w"), indent=1)
print(len(index), "regress diffs")
