#!/venv/bin/python
"""tools/seed_matrix.py [--md]: run every claimed property's rules against every
kept seeded change (in memory, loader overlay) and print which rules report
which change.  Writes /verif/seeded/MATRIX.json; with --md prints the markdown
table used in DESIGN.md section 9.6."""
import glob
import importlib
import json
import os
import sys
from concurrent.futures import ProcessPoolExecutor

ROOT = os.path.dirname(os.path.dirname(os.path.abspath(__file__)))
sys.path.insert(0, ROOT)
from verif.engine import report, srcmodel          # noqa: E402
from verif.selftest import patch                   # noqa: E402

PROPS = sorted(os.path.basename(p)[:-3].upper()
               for p in glob.glob(os.path.join(ROOT, "verif", "rules", "c[0-9][0-9].py")))


def _eval(args):
    prop, name, overlay = args
    try:
        mod = importlib.import_module(f"verif.rules.{prop.lower()}")
        P = srcmodel.Program(overlay=overlay)
        run = report.Run(prop, tier="selftest", program=P)
        mod.check(run, P)
        run.check_minimums()
        known = report.load_known()
        vio = [o for o in run.violations() if report.known_match(prop, o, known) is None]
        return prop, name, sorted({o.rule for o in vio}), None
    except srcmodel.AnalysisError as e:
        return prop, name, [], str(e)[:160]
    except Exception as e:
        return prop, name, [], f"{type(e).__name__}: {e}"[:160]


def main():
    def rd(path):
        with open(os.path.join(srcmodel.REPO_ROOT, path), encoding="utf-8") as f:
            return f.read()

    seeds = sorted(d for d in glob.glob(os.path.join(ROOT, "seeded", "C*")) if os.path.isdir(d))
    tasks = []
    files = {}
    stale = []
    for d in seeds:
        name = os.path.basename(d)
        with open(os.path.join(d, "patch.diff")) as f:
            diff = f.read()
        ov = patch.overlay_for(diff, rd)
        if ov is None:
            stale.append(name)
            continue
        files[name] = sorted(p.replace("dagrt/", "", 1) for p in ov)
        for prop in PROPS:
            tasks.append((prop, name, ov))
    with ProcessPoolExecutor(max_workers=16) as ex:
        results = list(ex.map(_eval, tasks, chunksize=4))
    matrix = {}
    errors = {}
    for prop, name, rules, err in results:
        matrix.setdefault(name, {})
        if rules:
            matrix[name][prop] = rules
        if err:
            errors.setdefault(name, {})[prop] = err
    out = {"seeds": len(files), "stale": stale, "matrix": matrix, "files": files,
           "analysis_errors": errors}
    with open(os.path.join(ROOT, "seeded", "MATRIX.json"), "w") as f:
        json.dump(out, f, indent=1, sort_keys=True)
    own_hit = sum(1 for n, m in matrix.items() if n.split("_")[0].split("r")[0] in m)
    any_hit = sum(1 for n, m in matrix.items() if m)
    if "--md" in sys.argv:
        print("| seed | property | file(s) | reported by rule(s) |")
        print("|---|---|---|---|")
        for n in sorted(matrix):
            own = n.split("_")[0].split("r")[0]
            rules = sorted({r for rs in matrix[n].values() for r in rs})
            cell = ", ".join(rules) if rules else "**not caught**"
            if errors.get(n):
                cell += " (exit 2 in " + ", ".join(sorted(errors[n])) + ")"
            print(f"| {n} | {own} | {', '.join(files[n])} | {cell} |")
    print(f"{len(files)} seeds; reported by own property: {own_hit}; by any property: {any_hit}; "
          f"stale patches: {stale}", file=sys.stderr)
    for n, e in sorted(errors.items()):
        print("analysis-error", n, e, file=sys.stderr)


if __name__ == "__main__":
    main()
