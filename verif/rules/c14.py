"""C14 - kind inference is order-independent; kind unification is a partial join."""

from __future__ import annotations

import ast
import re
import itertools

from ..engine import absint
from ..engine.cfg import CFG, own_fragments, walk_fragment
from ..engine.match import dotted, norm, func_body_stmts
from ..engine.srcmodel import AnalysisError

EXPLANATION = (
    "Decides completely, by finite-domain abstract interpretation of "
    "dagrt.data.unify over the abstract kind universe read from data.py "
    "(None, Boolean, Integer, Scalar real/complex, Array real/complex, two "
    "UserType identifiers): idempotence where defined, commutativity "
    "(defined one way <=> defined the other way, equal results) on all pairs "
    "and associativity on all triples (exhaustive). Decides structurally for "
    "the table update and the work-list: a failed unification is never "
    "swallowed while keeping the old entry; every store into a kind table is "
    "paired with setting the change latch, which is only ever cleared by "
    "reset_change_flag; every successful work-list branch records progress; "
    "the fixed-point loop resets the latch before a sweep and leaves only "
    "when it is unset. Does not decide monotonicity of user-registered "
    "get_result_kinds.")

ASSUMPTIONS = [
    "unify() stays inside the interpretable subset (if/isinstance/is None/attribute (in)equality/assert/raise/return of a parameter or constructor call); otherwise exit 2",
    "kind classes are exactly the SymbolKind subclasses of dagrt/data.py",
]

DATA = "dagrt.data"


def kind_domain(P):
    m = P.module(DATA)
    base = P.cls(f"{DATA}.SymbolKind")
    classes = {}
    for c in P.subclasses(base, modules={DATA}):
        init = c.methods.get("__init__")
        fields = []
        if init is not None:
            fields = [a for a in init.params if a != "self"]
        classes[c.name] = fields
    if len(classes) < 5:
        raise AnalysisError(f"expected >= 5 kind classes, found {sorted(classes)}")
    dom = absint.Domain(classes)
    dom.all_names = set(classes) | {"SymbolKind"}
    dom.ancestors = {n: {"SymbolKind"} for n in classes}
    return dom


def fmt(v):
    if v == absint.NONE:
        return "None"
    if len(v) == 1:
        return f"{v[0]}()"
    return f"{v[0]}({v[1]!r})"


def _check_main(run, P):
    run.rule("C14.table.idem", "unify(a, a) == a wherever it is defined", minimum=9)
    run.rule("C14.table.comm",
             "unify(a, b) defined <=> unify(b, a) defined, with equal results", minimum=36)
    run.rule("C14.table.assoc",
             "unify(unify(a,b),c) defined <=> unify(a,unify(b,c)) defined, equal results",
             minimum=729)
    run.rule("C14.swallow",
             "a failure of unify() inside SymbolKindTable.set is re-raised or a "
             "result is stored; it never completes normally keeping the old entry",
             minimum=1)
    run.rule("C14.latch",
             "in SymbolKindTable, every store into a kind table is paired with "
             "setting _changed = True, and _changed is cleared only in "
             "__init__/reset_change_flag", minimum=3)
    run.rule("C14.progress",
             "every work-list branch that defers on UnableToInferKind records "
             "progress on its success path", minimum=2)
    run.rule("C14.fixpoint",
             "the fixed-point loop resets the change latch before each sweep and "
             "leaves the loop only under 'not result.is_changed()'; each sweep works "
             "on a freshly built list; inference fails only in a sweep that changed "
             "nothing", minimum=4)

    run.rule("C14.operands",
             "in KindInferenceMapper every operand of a sum/product contributes: the "
             "loop that folds child kinds with unify() has no break/return, and an "
             "operand whose kind was obtained always reaches unify()", minimum=2)
    run.rule("C14.provisional",
             "KindInferenceMapper raises a hard error about an operand's kind only "
             "under self.check (on the final pass), never on the provisional kinds "
             "of a work-list sweep", minimum=4)
    run.rule("C14.pairing",
             "phase names and phase statement lists handed to SymbolKindFinder are "
             "derived from the same sequence in the same order, and are paired by "
             "zip() inside", minimum=3)
    run.rule("C14.eq", "kinds are compared by class and by every constructor "
             "argument (the table update skips the join for an entry that compares "
             "equal)", minimum=4)
    run.rule("C14.defer", "a built-in that cannot say its result kinds for the "
             "(possibly provisional) argument kinds defers the statement, whatever "
             "it raised", minimum=1)
    run.rule("C14.sweeps", "every sweep sees every statement: the phases are copied "
             "into lists before the first sweep", minimum=1)
    run.rule("C14.builtins", "result kinds of the built-ins are kind constructors whose "
             "realness is a conjunction over argument kinds (monotone): shared with "
             "C09.arity / C09.real", minimum=10)
    from . import c09 as _c09
    for r_ in ("C09.arity", "C09.tables", "C09.real"):
        run.rule_docs.setdefault(r_, "")
        run.minimum.setdefault(r_, 0)
    n0_ = len(run.obs)
    run.do(_c09._arity_tables, run, P)
    run.do(_c09._real, run, P)
    for o_ in run.obs[n0_:]:
        if o_.rule in ("C09.arity", "C09.tables", "C09.real"):
            o_.rule = "C14.builtins"
    for r_ in ("C09.arity", "C09.tables", "C09.real"):
        run.rule_docs.pop(r_, None)
        run.minimum.pop(r_, None)
    run.do(_eq, run, P)
    run.do(_defer, run, P)
    run.do(_sweeps, run, P)
    run.do(_mapper, run, P)
    run.do(_kind_attrs, run, P)
    run.do(_sweep_raises, run, P)
    run.do(_pairing, run, P)

    f = P.func(f"{DATA}.unify")
    dom = kind_domain(P)
    vals = dom.values()
    interp = absint.Interp(f.node, dom)
    if len(interp.params) != 2:
        raise AnalysisError("unify: expected two parameters")

    table = {}
    for a, b in itertools.product(vals, vals):
        try:
            table[a, b] = ("ok", interp.call(a, b))
        except absint.Fail as e:
            table[a, b] = ("fail", e.kind, e.node.lineno)
    run.extra["unify_table"] = {
        f"{fmt(a)} | {fmt(b)}": (fmt(r[1]) if r[0] == "ok" else f"raises {r[1]}")
        for (a, b), r in table.items()}
    run.extra["exhaustive"] = True

    def res(a, b):
        r = table[a, b]
        return r[1] if r[0] == "ok" else None   # None = undefined

    def defined(a, b):
        return table[a, b][0] == "ok"

    for a in vals:
        r = table[a, a]
        ok = (r[0] != "ok") or r[1] == a
        run.ob("C14.table.idem", f, f.node, ok,
               construct=f"unify({fmt(a)}, {fmt(a)}) = "
                         f"{fmt(r[1]) if r[0] == 'ok' else 'undefined'}",
               why="combining a kind with itself must give that kind")
    for i, a in enumerate(vals):
        for b in vals[i + 1:]:
            r1, r2 = table[a, b], table[b, a]
            ok = (r1[0] == r2[0]) and (r1[0] != "ok" or r1[1] == r2[1])
            line = (r1[2] if r1[0] == "fail" else (r2[2] if r2[0] == "fail" else f.lineno))
            run.ob("C14.table.comm", f, None, ok,
                   construct=f"unify({fmt(a)}, {fmt(b)}) = "
                             f"{fmt(r1[1]) if r1[0]=='ok' else 'raises '+r1[1]}; swapped = "
                             f"{fmt(r2[1]) if r2[0]=='ok' else 'raises '+r2[1]}",
                   why="the kind recorded for a variable must not depend on which "
                       "of its assignments is seen first")
            run.obs[-1].line = line

    def u(a, b):
        # lifted: undefined is absorbing
        if a is None or b is None:
            return None
        return res(a, b)

    for a, b, c in itertools.product(vals, repeat=3):
        l = u(u(a, b), c)
        r = u(a, u(b, c))
        ok = l == r
        run.ob("C14.table.assoc", f, f.node, ok,
               construct=f"({fmt(a)} | {fmt(b)}) | {fmt(c)} = "
                         f"{fmt(l) if l else 'undefined'}; "
                         f"{fmt(a)} | ({fmt(b)} | {fmt(c)}) = {fmt(r) if r else 'undefined'}",
               why="grouping of successive assignments must not matter")

    run.do(_table_update, run, P)
    run.do(_worklist, run, P)


def _is_unify_call(n):
    return isinstance(n, ast.Call) and dotted(n.func) in ("unify", "data.unify")


def _table_update(run, P):
    T = P.cls(f"{DATA}.SymbolKindTable")
    fset = T.methods.get("set")
    if fset is None:
        raise AnalysisError("SymbolKindTable.set not found")
    g = CFG(fset.node)

    # C14.swallow
    tries = [n for n in ast.walk(fset.node) if isinstance(n, ast.Try)
             and any(_is_unify_call(x) for s in n.body for x in ast.walk(s))]
    unify_calls = [n for n in ast.walk(fset.node) if _is_unify_call(n)]
    if not unify_calls:
        raise AnalysisError("SymbolKindTable.set does not call unify()")
    for t in tries:
        for h in t.handlers:
            hn = g.node_of(h)
            if hn is None:
                raise AnalysisError("handler node not in CFG")
            # store nodes: tbl[name] = ...
            stores = [n for n in g.nodes if n.kind == "stmt" and _is_table_store(n.ast)]
            reach = g.reachable([hn], avoid=stores, follow_exc=False)
            ok = g.exit not in reach
            run.ob("C14.swallow", fset, h, ok,
                   construct=f"except {norm(h.type) if h.type else ''}: ... "
                             f"{'completes normally' if not ok else 're-raises/stores'}",
                   why="swallowing a failed unification keeps whichever kind was "
                       "seen first, so the table depends on presentation order")
    if not tries:
        # unify() not wrapped: failure propagates
        run.ob("C14.swallow", fset, unify_calls[0], True,
               construct="unify() call not wrapped in try",
               why="failure propagates to the caller")

    # C14.latch
    latch_sets = [x for x in ast.walk(fset.node) if isinstance(x, ast.Assign)
                  and any(isinstance(t_, ast.Attribute) and dotted(t_.value) == "self"
                          and isinstance(x.value, ast.Constant) and x.value.value is True
                          for t_ in x.targets)]
    if not latch_sets:
        # changes are recorded in some other way (a set of changed names, a snapshot):
        # the clauses below speak about a boolean latch
        raise AnalysisError("SymbolKindTable.set sets no boolean change latch; how changes are "
                            "recorded is not recognised")
    cls_funcs = list(T.methods.values())
    seen = set()
    for fn in cls_funcs:
        if fn in seen:
            continue
        seen.add(fn)
        gg = CFG(fn.node)
        flag_sets = []
        for n in gg.nodes:
            if n.kind != "stmt":
                continue
            s = n.ast
            if isinstance(s, (ast.Assign, ast.AugAssign, ast.AnnAssign)):
                tgts = s.targets if isinstance(s, ast.Assign) else [s.target]
                for t in tgts:
                    if dotted(t) == "self._changed":
                        val = s.value
                        is_true = isinstance(val, ast.Constant) and val.value is True
                        is_false = isinstance(val, ast.Constant) and val.value is False
                        if is_true:
                            flag_sets.append(n)
                        if fn.name in ("__init__", "reset_change_flag"):
                            ok = is_false or is_true
                        else:
                            ok = is_true
                        run.ob("C14.latch", fn, s, ok,
                               why="the change latch may only be set to True outside "
                                   "__init__/reset_change_flag; assigning a computed "
                                   "value can clear a change recorded earlier in the sweep")
        if fn.name in ("__init__",):
            continue
        stores = [n for n in gg.nodes if n.kind == "stmt" and _is_table_store(n.ast)]
        for st in stores:
            pre = not gg.always_preceded([st], flag_sets)
            post = not gg.always_followed([st], flag_sets)
            ok = pre or post
            run.ob("C14.latch", fn, st.ast, ok,
                   why="a kind stored without setting the change latch is not "
                       "propagated: the fixed-point iteration may stop with kinds "
                       "computed from the table as it was before")


def _is_table_store(s):
    """tbl[name] = kind  (a subscript store into a local table variable)."""
    if isinstance(s, ast.Assign):
        for t in s.targets:
            if isinstance(t, ast.Subscript) and isinstance(t.value, ast.Name) \
                    and not isinstance(t.slice, ast.Slice):
                return True
    return False


def _worklist(run, P):
    from .util import find, first, has
    F = P.func(f"{DATA}.SymbolKindFinder.__call__")
    tabs = [s_ for s_ in ast.walk(F.node) if isinstance(s_, ast.Assign) and len(s_.targets) == 1
            and isinstance(s_.targets[0], ast.Name) and isinstance(s_.value, ast.Call)
            and dotted(s_.value.func) == "SymbolKindTable"]
    if len(tabs) != 1:
        raise AnalysisError("SymbolKindFinder.__call__: result table not found")
    res = tabs[0].targets[0].id
    # the progress flag: a local assigned both True and False
    flags = {}
    for x in ast.walk(F.node):
        if isinstance(x, ast.Assign) and len(x.targets) == 1 and isinstance(x.targets[0], ast.Name) \
                and isinstance(x.value, ast.Constant) and isinstance(x.value.value, bool):
            flags.setdefault(x.targets[0].id, set()).add(x.value.value)
    prog = [n for n, v in flags.items() if v == {True, False}]
    if len(prog) != 1:
        raise AnalysisError("SymbolKindFinder.__call__: progress flag not identified")
    prog = prog[0]
    for t in ast.walk(F.node):
        if not isinstance(t, ast.Try):
            continue
        defers = False
        for h in t.handlers:
            if h.type is not None and "UnableToInferKind" in ast.unparse(h.type):
                for x in ast.walk(h):
                    if isinstance(x, ast.Call) and isinstance(x.func, ast.Attribute) \
                            and x.func.attr == "append":
                        defers = True
        if not defers:
            continue
        ok = any(has(f"{prog} = True", s_) for s_ in t.orelse)
        sets = any(isinstance(x, ast.Call) and dotted(x.func) == f"{res}.set"
                   for s_ in t.orelse for x in ast.walk(s_))
        run.ob("C14.progress", F, t, ok and sets,
               construct=f"try: {norm(t.body[0], 80)} ... else: "
                         f"{'; '.join(norm(s_, 60) for s_ in t.orelse)}",
               why="a sweep in which only this branch succeeds is taken for 'no "
                   "progress' and inference aborts for some statement orders only")

    loops = [n for n in F.node.body if isinstance(n, ast.While)]
    outer = None
    for w in loops:
        if isinstance(w.test, ast.Constant) and w.test.value is True:
            outer = w
    if outer is None:
        raise AnalysisError("SymbolKindFinder.__call__: outer 'while True' loop not found")
    g = CFG(F.node)
    resets = g.find(lambda n, fr: any(
        isinstance(x, ast.Call) and dotted(x.func) == f"{res}.reset_change_flag"
        for f_ in fr for x in walk_fragment(f_)) and n.kind == "stmt")
    inner_sets = []
    for n in g.nodes:
        if n.kind == "stmt" and n.ast is not None and _inside(outer, n.ast):
            if any(isinstance(x, ast.Call) and dotted(x.func) == f"{res}.set"
                   for x in walk_fragment(n.ast)):
                inner_sets.append(n)
    if not inner_sets:
        raise AnalysisError("no <result>.set() in the fixed-point loop")
    head = g.node_of(outer)
    reach = g.reachable([head], avoid=resets, follow_exc=False)
    bad = [n for n in inner_sets if n in reach]
    run.ob("C14.fixpoint", F, outer, not bad and bool(resets),
           construct="result.reset_change_flag() before every result.set() of a sweep",
           why="a latch left over from the previous sweep (or from forced kinds) "
               "makes the loop condition meaningless")
    # the sweep processes a freshly built work list: the list popped in the
    # inner loop is (re)built inside the outer loop
    pops = [x for x in ast.walk(outer) if isinstance(x, ast.Call)
            and isinstance(x.func, ast.Attribute) and x.func.attr == "pop"
            and isinstance(x.func.value, ast.Name)]
    fresh_ok = False
    if pops:
        q = pops[0].func.value.id
        builds = [s_ for s_ in outer.body if isinstance(s_, ast.Assign)
                  and any(isinstance(t, ast.Name) and t.id == q for t in s_.targets)
                  and isinstance(s_.value, (ast.List, ast.ListComp)) or (
                      isinstance(s_, ast.Assign)
                      and any(isinstance(t, ast.Name) and t.id == q for t in s_.targets)
                      and isinstance(s_.value, ast.Call) and dotted(s_.value.func) == "list")]
        fresh_ok = bool(builds)
    run.ob("C14.fixpoint", F, outer, fresh_ok,
           construct="the work list consumed by pop() is rebuilt (a new list) at the "
                     "start of every sweep",
           why="an aliased list emptied by the first sweep makes every later sweep "
               "process nothing: a kind computed from a partial sum is never corrected")
    # ... and holds every statement: what fills it filters nothing out
    if pops:
        q = pops[0].func.value.id
        fills = [x for x in ast.walk(outer) if isinstance(x, ast.Call)
                 and isinstance(x.func, ast.Attribute) and x.func.attr in ("extend", "append")
                 and dotted(x.func.value) == q] + [
                 s_.value for s_ in outer.body if isinstance(s_, ast.Assign)
                 and any(isinstance(t, ast.Name) and t.id == q for t in s_.targets)]
        filt = [c for x in fills for c in ast.walk(x)
                if isinstance(c, (ast.GeneratorExp, ast.ListComp)) and any(g_.ifs for g_ in c.generators)]
        guarded_fill = [x for x in fills if isinstance(x, ast.Call) and any(
            isinstance(i_, ast.If) and any(y is x for b in i_.body + i_.orelse for y in ast.walk(b))
            for i_ in ast.walk(outer)
            if not any(isinstance(y, ast.Call) and isinstance(y.func, ast.Attribute)
                       and y.func.attr == "pop" for y in ast.walk(i_)))]
        if filt or guarded_fill:
            # left out for good (a membership test in a container that only grows) is
            # decided; a predicate that can let a statement in again is not
            tests_ = [i_ for c in filt for g_ in c.generators for i_ in g_.ifs]
            definite = bool(tests_) and not guarded_fill
            for t_ in tests_:
                cmp_ = t_.operand if isinstance(t_, ast.UnaryOp) else t_
                if not (isinstance(cmp_, ast.Compare) and len(cmp_.ops) == 1
                        and isinstance(cmp_.ops[0], (ast.In, ast.NotIn))
                        and isinstance(cmp_.comparators[0], ast.Name)):
                    definite = False
                    continue
                box = cmp_.comparators[0].id
                shrinks = any(isinstance(x, ast.Call) and isinstance(x.func, ast.Attribute)
                              and x.func.attr in ("discard", "remove", "pop", "clear", "difference_update")
                              and dotted(x.func.value) == box for x in ast.walk(F.node)) or any(
                    isinstance(x, ast.Delete) and any(dotted(getattr(t2, "value", t2)) == box
                                                      for t2 in x.targets) for x in ast.walk(F.node))
                if shrinks:
                    definite = False
            if not definite:
                raise AnalysisError("SymbolKindFinder.__call__: the work list of a sweep is filtered "
                                    "by a predicate this clause does not read; not decided")
        run.ob("C14.fixpoint", F, filt[0] if filt else outer, not filt and not guarded_fill,
               construct="every statement of every phase enters the work list of every sweep"
                         + (f" (filtered: {norm(filt[0], 60)})" if filt else ""),
               why="a statement that is left out of later sweeps keeps the kind it computed "
                   "from provisional operand kinds: the table then depends on the order in "
                   "which the statements were first seen")
    fails = [n for n in g.nodes if n.kind == "stmt" and isinstance(n.ast, ast.Raise)
             and n.ast.exc is not None and "RuntimeError" in ast.unparse(n.ast.exc)
             and _inside(outer, n.ast)]
    def positive_changed(t):
        conj = t.values if isinstance(t, ast.BoolOp) and isinstance(t.op, ast.And) else [t]
        return any(isinstance(c, ast.Call) and dotted(c.func) == f"{res}.is_changed" for c in conj)

    gates = [n for n in g.nodes if n.kind == "test" and isinstance(n.label, ast.If)
             and positive_changed(n.ast) and _always_leaves(n.label.body)]
    ok = bool(fails) and bool(gates) and not g.always_preceded(fails, gates)
    run.ob("C14.fixpoint", F, fails[0].ast if fails else outer, ok,
           construct="'failed to infer kinds' is raised only after "
                     "'if <no progress> and result.is_changed(): <leave the sweep>'",
           why="left-over statements that made no progress may go through once the "
               "kinds that changed in this sweep have been propagated by the next one; "
               "failing at once makes success depend on the statement order")
    breaks = [s_ for s_ in func_body_stmts(outer) if isinstance(s_, ast.Break)
              and _innermost_loop(outer, s_) is outer]
    ok = bool(breaks)
    for b_ in breaks:
        parent = _parent_if(outer, b_)
        if parent is None or norm(parent.test) != f"not {res}.is_changed()":
            ok = False
    run.ob("C14.fixpoint", F, breaks[0] if breaks else outer, ok,
           construct="break only under 'if not result.is_changed()'",
           why="leaving the loop while the table still changes returns kinds "
               "computed from stale entries")


def _inside(outer, node):
    return any(x is node for x in ast.walk(outer))


def _innermost_loop(root, target):
    best = None

    def visit(n, cur):
        nonlocal best
        if n is target:
            best = cur
            return
        for c in ast.iter_child_nodes(n):
            visit(c, n if isinstance(n, (ast.For, ast.While)) else cur)

    visit(root, None)
    return best


def _parent_if(root, target):
    parent = None

    def visit(n, cur):
        nonlocal parent
        if n is target:
            parent = cur
            return
        for c in ast.iter_child_nodes(n):
            visit(c, n if isinstance(n, ast.If) else cur)

    visit(root, None)
    return parent


def _mapper(run, P):
    from ..engine.match import terminal
    K = P.cls(f"{DATA}.KindInferenceMapper")
    for name, m in sorted(K.methods.items()):
        if not name.startswith("map_"):
            continue
        g = CFG(m.node)
        # --- folds over operands
        for lp in [n for n in ast.walk(m.node) if isinstance(n, ast.For)]:
            unis = [x for x in ast.walk(lp) if isinstance(x, ast.Call) and dotted(x.func) == "unify"]
            if not unis or not isinstance(lp.target, ast.Name):
                continue
            v = lp.target.id
            leaves = [s_ for s_ in func_body_stmts(lp)
                      if isinstance(s_, ast.Return)
                      or (isinstance(s_, ast.Break) and _innermost_loop(m.node, s_) is lp)]
            recs = [n for n in g.nodes if n.ast is not None and _inside(lp, n.ast if n.kind != "test" else n.label)
                    and n.kind in ("stmt",) and any(
                        isinstance(x, ast.Call) and dotted(x.func) == "self.rec"
                        and x.args and dotted(x.args[0]) == v for x in walk_fragment(n.ast))]
            uni_nodes = [n for n in g.nodes if n.kind == "stmt" and n.ast is not None and any(
                any(x is u_ for u_ in unis) for x in walk_fragment(n.ast))]
            head = g.node_of(lp)
            skipped = []
            for r in recs:
                if r in uni_nodes:
                    continue
                if head in g.reachable([r], avoid=uni_nodes, follow_exc=False):
                    skipped.append(r)
            if skipped:
                # unify() skipped for a kind that equals the one accumulated so far is no
                # bypass (the join of a kind with itself is that kind)
                from .util import path_conditions as _pc
                eq_guarded = all(any(re.fullmatch(r"\w+ (!=|==) \w+", t_) and (
                    (pol and "!=" in t_) or (not pol and "==" in t_))
                    for t_, pol in _pc(m.node, u_.ast)) for u_ in uni_nodes)
                if eq_guarded:
                    skipped = []
            ok = not leaves and bool(recs) and not skipped
            what = []
            if leaves:
                what.append("leaves the loop early by " + "/".join(
                    sorted({type(x).__name__.lower() for x in leaves})))
            if skipped:
                what.append("an obtained operand kind can bypass unify()")
            run.ob("C14.operands", m, lp, ok,
                   construct=f"{name}: for {v} in {norm(lp.iter)}: every obtained kind is "
                             f"folded with unify(), no early exit"
                             + (f" ({'; '.join(what)})" if what else ""),
                   why="unify is a join: the result is order-independent only if every "
                       "operand known at the time takes part; stopping early makes the "
                       "kind depend on which operands happened to be known")
        # --- hard errors on operand kinds
        kinds = set()
        for x in ast.walk(m.node):
            if isinstance(x, ast.Assign) and len(x.targets) == 1 and isinstance(x.targets[0], ast.Name) \
                    and isinstance(x.value, ast.Call) and dotted(x.value.func) == "self.rec":
                kinds.add(x.targets[0].id)
        from .util import path_conditions
        for rz in [n for n in ast.walk(m.node) if isinstance(n, ast.Raise) and n.exc is not None]:
            exc = ast.unparse(rz.exc)
            if "UnableToInferKind" in exc:
                continue
            if isinstance(rz.exc, ast.Name):
                # a kept exception object: a deferral if it was only ever caught as one
                caught = {h.name for h in ast.walk(m.node) if isinstance(h, ast.ExceptHandler)
                          and h.name and h.type is not None
                          and "UnableToInferKind" in ast.unparse(h.type)}
                vals = [s_.value for s_ in ast.walk(m.node) if isinstance(s_, ast.Assign)
                        and any(isinstance(t_, ast.Name) and t_.id == rz.exc.id for t_ in s_.targets)]
                if vals and all((isinstance(v_, ast.Name) and v_.id in caught)
                                or (isinstance(v_, ast.Constant) and v_.value is None) for v_ in vals):
                    continue
            pc = path_conditions(m.node, rz)
            about_kind = [t for t, v in pc if any(
                (isinstance(x, ast.Name) and x.id in kinds)
                or (isinstance(x, ast.Call) and dotted(x.func) == "self.rec")
                for x in ast.walk(ast.parse(t, mode="eval")))]
            if not about_kind:
                continue
            gated = ("self.check", True) in pc or any(
                v and "self.check" in [norm(c_) for c_ in (
                    ast.parse(t, mode="eval").body.values
                    if isinstance(ast.parse(t, mode="eval").body, ast.BoolOp)
                    and isinstance(ast.parse(t, mode="eval").body.op, ast.And) else [])]
                for t, v in pc)
            run.ob("C14.provisional", m, rz, gated,
                   construct=f"{name}: raise {exc.split('(')[0]} on '{about_kind[0][:70]}' only under self.check",
                   why="during a sweep an operand may still have a provisional kind "
                       "(a sum seen before its array operand is known): rejecting it "
                       "then makes inference fail for some statement orders only")


def _always_leaves(block):
    if not block:
        return False
    last = block[-1]
    if isinstance(last, (ast.Raise, ast.Return, ast.Continue, ast.Break)):
        return True
    if isinstance(last, ast.If):
        return _always_leaves(last.body) and _always_leaves(last.orelse)
    return False


def _kind_attrs(run, P):
    """`K.is_real_valued` on a kind obtained from self.rec(...) only after a test
    that the kind has the attribute."""
    K = P.cls(f"{DATA}.KindInferenceMapper")
    n = 0
    for name, m in sorted(K.methods.items()):
        if not name.startswith("map_"):
            continue
        kinds = {x.targets[0].id for x in ast.walk(m.node)
                 if isinstance(x, ast.Assign) and len(x.targets) == 1
                 and isinstance(x.targets[0], ast.Name) and isinstance(x.value, ast.Call)
                 and dotted(x.value.func) == "self.rec"}
        if not kinds:
            continue
        from .util import path_conditions
        for k in sorted(kinds):
            uses = [s_ for s_ in ast.walk(m.node) if isinstance(s_, (ast.Return, ast.Assign, ast.Expr, ast.AugAssign))
                    and any(isinstance(x, ast.Attribute) and x.attr == "is_real_valued"
                            and isinstance(x.value, ast.Name) and x.value.id == k for x in ast.walk(s_))]
            if not uses:
                continue
            ok = True
            for u_ in uses:
                pc = path_conditions(m.node, u_)
                sure = False
                for t, v in pc:
                    e_ = ast.parse(t, mode="eval").body
                    if v and isinstance(e_, ast.Call) and dotted(e_.func) == "isinstance" \
                            and dotted(e_.args[0]) == k:
                        types = e_.args[1].elts if isinstance(e_.args[1], ast.Tuple) else [e_.args[1]]
                        if {dotted(t_) for t_ in types} <= {"Array", "Scalar"}:
                            sure = True
                ok = ok and sure
            n += 1
            run.ob("C14.provisional", m, uses[0], ok,
                   construct=f"{name}: <kind>.is_real_valued is read only where "
                             f"isinstance(<kind>, Array/Scalar) is known to hold",
                   why="during a sweep the operand may hold a provisional kind without "
                       "that attribute (the Integer of a partial sum): AttributeError "
                       "aborts inference for some statement orders only, where deferring "
                       "(UnableToInferKind) lets the next sweep see the corrected kind")
    if n == 0:
        raise AnalysisError("KindInferenceMapper: no <kind>.is_real_valued access found")


def _sweep_raises(run, P):
    """Inside the sweeps of the kind finder no error is raised on a path that tests a
    kind: kinds are provisional until the sweeps are over."""
    from .util import path_conditions
    f = P.func(f"{DATA}.SymbolKindFinder.__call__")
    loops = [n for n in f.node.body if isinstance(n, ast.While)]
    if not loops:
        raise AnalysisError("SymbolKindFinder.__call__: the sweep loop not found")
    sweep = loops[0]
    # names that hold a kind: results of the mapper or of a table lookup
    kindy = set()
    for x in ast.walk(sweep):
        if isinstance(x, ast.Assign) and isinstance(x.value, ast.Call):
            d = dotted(x.value.func) or ""
            if d.split(".")[0] in ("kim",) or d.endswith(".get") and "result" in d \
                    or d.endswith("get_result_kinds"):
                for t in x.targets:
                    for z in ast.walk(t):
                        if isinstance(z, ast.Name):
                            kindy.add(z.id)
    n = 0
    for r in ast.walk(sweep):
        if not isinstance(r, ast.Raise) or r.exc is None:
            continue
        n += 1
        conds = path_conditions(f.node, r)
        on_kind = sorted(t for t, _pol in conds if any(
            re.search(rf"\b{re.escape(k)}\b", t) for k in kindy))
        run.ob("C14.provisional", f, r, not on_kind,
               construct=f"sweep: {norm(r)[:50]} is raised on no path that tests a kind"
                         + (f" (tests {on_kind[0][:50]})" if on_kind else ""),
               why="during a sweep a variable may still carry the kind of a partial sum; an "
                   "error raised on it aborts inference for some statement orders and not "
                   "for others")
    if n < 2:
        raise AnalysisError("SymbolKindFinder.__call__: raise statements of the sweep not found")


def _inside_body(ifnode, node):
    return any(x is node for s_ in ifnode.body for x in ast.walk(s_))


_ORDER_CALLS = ("sorted", "reversed", "set", "frozenset")


def _seq_signature(fn, expr):
    """(root sequence, order-changing calls) of an expression that lists things
    derived one-for-one from a sequence."""
    ops = []
    e = _resolve(fn, expr)
    for _ in range(8):
        e = _resolve(fn, e)
        if isinstance(e, ast.ListComp) and len(e.generators) == 1 and not e.generators[0].ifs:
            e = e.generators[0].iter
        elif isinstance(e, ast.Call) and isinstance(e.func, ast.Name) and e.func.id in ("list", "tuple") \
                and len(e.args) == 1:
            e = e.args[0]
        elif isinstance(e, ast.Call) and isinstance(e.func, ast.Name) and e.func.id == "map" \
                and len(e.args) == 2:
            e = e.args[1]           # map(f, xs): one result per element of xs, in its order
        elif isinstance(e, ast.GeneratorExp) and len(e.generators) == 1 and not e.generators[0].ifs:
            e = e.generators[0].iter
        elif isinstance(e, ast.Call) and isinstance(e.func, ast.Name) and e.func.id in _ORDER_CALLS \
                and e.args:
            ops.append(e.func.id + ("(key)" if e.keywords else ""))
            e = e.args[0]
        elif isinstance(e, ast.Call) and isinstance(e.func, ast.Attribute) \
                and e.func.attr in ("keys", "values", "items") and not e.args:
            e = e.func.value
        else:
            break
    return norm(e), tuple(ops)


def _resolve(fn, expr):
    if isinstance(expr, ast.Name):
        defs = [s_.value for s_ in ast.walk(fn) if isinstance(s_, ast.Assign)
                and len(s_.targets) == 1 and isinstance(s_.targets[0], ast.Name)
                and s_.targets[0].id == expr.id]
        if len(defs) == 1:
            return defs[0]
    return expr


def _pairing(run, P):
    sites = []
    for f in P.all_funcs():
        if f.module.trusted:
            continue
        finders = set()
        for x in ast.walk(f.node):
            if isinstance(x, ast.Assign) and len(x.targets) == 1 and isinstance(x.targets[0], ast.Name) \
                    and isinstance(x.value, ast.Call) and (dotted(x.value.func) or "").endswith("SymbolKindFinder"):
                finders.add(x.targets[0].id)
        for x in ast.walk(f.node):
            if not isinstance(x, ast.Call):
                continue
            direct = isinstance(x.func, ast.Call) and (dotted(x.func.func) or "").endswith("SymbolKindFinder")
            via = isinstance(x.func, ast.Name) and x.func.id in finders
            if (direct or via) and len(x.args) >= 2:
                sites.append((f, x))
    if len(sites) < 2:
        raise AnalysisError(f"SymbolKindFinder call sites: expected >= 2, found {len(sites)}")
    for f, c in sites:
        a = _seq_signature(f.node, c.args[0])
        b = _seq_signature(f.node, c.args[1])
        # the second list may be built by looking the names up: [.. for n in names]
        ok = a == b
        run.ob("C14.pairing", f, c, ok,
               construct=f"names from {a[0]}{' via ' + '/'.join(a[1]) if a[1] else ''}; "
                         f"statement lists from {b[0]}{' via ' + '/'.join(b[1]) if b[1] else ''}",
               why="names and bodies are paired by position: ordering one list and not "
                   "the other files every phase-local symbol under the wrong phase "
                   "unless the phases happen to be inserted in that order")
    F = P.func(f"{DATA}.SymbolKindFinder.__call__")
    n_, p_ = F.params[1], F.params[2]
    loops = [x for x in ast.walk(F.node) if isinstance(x, ast.For)
             and {n_, p_} <= {y.id for y in ast.walk(x.iter) if isinstance(y, ast.Name)}]
    ok = bool(loops) and all(norm(x.iter) == f"zip({n_}, {p_})" for x in loops)
    run.ob("C14.pairing", F, loops[0] if loops else F.node, ok,
           construct=f"{len(loops)} loops over the phases, each 'zip({n_}, {p_})'",
           why="the two parameters are parallel lists")


def _eq(run, P):
    base = P.cls(f"{DATA}.SymbolKind")
    eq = base.methods.get("__eq__")
    hs = base.methods.get("__hash__")
    ok = eq is not None and hs is not None \
        and f"type(self) is type({eq.arg(0)})" in ast.unparse(eq.node) \
        and f"self.__getinitargs__() == {eq.arg(0)}.__getinitargs__()" in ast.unparse(eq.node) \
        and "self.__getinitargs__()" in ast.unparse(hs.node) and "type(self)" in ast.unparse(hs.node)
    run.ob("C14.eq", base, eq.node if eq else base.node, ok,
           construct="SymbolKind.__eq__/__hash__: same class and equal __getinitargs__()",
           why="equality is what the table update and the change latch rely on")
    for c in sorted(P.subclasses(base, modules={DATA}), key=lambda c: c.name):
        init = c.methods.get("__init__")
        params = [a for a in init.params if a != "self"] if init is not None else []
        gia = c.methods.get("__getinitargs__")
        if not params:
            ok = gia is None or all(isinstance(r.value, ast.Tuple) and not r.value.elts
                                    for r in ast.walk(gia.node) if isinstance(r, ast.Return))
            got = "()"
        else:
            rets = [r for r in ast.walk(gia.node) if isinstance(r, ast.Return)] if gia else []
            got = norm(rets[0].value) if rets else "inherited ()"
            ok = len(rets) == 1 and isinstance(rets[0].value, ast.Tuple) \
                and [dotted(e) for e in rets[0].value.elts] == [f"self.{p}" for p in params]
        run.ob("C14.eq", c, gia.node if gia is not None else c.node, ok,
               construct=f"{c.name}({', '.join(params)}).__getinitargs__() = {got}",
               why="with an argument missing, Array(real) == Array(complex): the table "
                   "keeps whichever kind arrived first and the result depends on the "
                   "statement order")


def _defer(run, P):
    f = P.func(f"{DATA}.KindInferenceMapper.map_generic_call")
    tries = [t for t in ast.walk(f.node) if isinstance(t, ast.Try) and any(
        isinstance(x, ast.Call) and isinstance(x.func, ast.Attribute)
        and x.func.attr == "get_result_kinds" for s_ in t.body for x in ast.walk(s_))]
    ok = False
    desc = "no try around get_result_kinds"
    if tries:
        hs = tries[0].handlers
        wide = [h for h in hs if h.type is None or dotted(h.type) in ("Exception", "BaseException")]
        desc = ", ".join(norm(h.type) if h.type is not None else "bare" for h in hs)
        ok = bool(wide) and all(
            isinstance(h.body[-1], ast.Raise) and "UnableToInferKind" in ast.unparse(h.body[-1])
            for h in wide)
    run.ob("C14.defer", f, tries[0] if tries else f.node, ok,
           construct=f"get_result_kinds(...) under 'except {desc}' -> raise UnableToInferKind",
           why="argument kinds are provisional during a sweep (an array that is the "
               "target of 'v + i' is an Integer for a while): whatever a built-in raises "
               "on them - AttributeError on .is_real_valued, say - has to defer the "
               "statement, or inference aborts for some statement orders only")


def _sweeps(run, P):
    F = P.func(f"{DATA}.SymbolKindFinder.__call__")
    p_ = F.params[2]
    g = CFG(F.node)
    # phases = [list(phase) for phase in phases]  or the explicit loop
    copies = []
    for n in g.nodes:
        if n.kind != "stmt" or n.ast is None:
            continue
        a = n.ast
        if isinstance(a, ast.Assign) and dotted(a.targets[0]) == p_:
            v = a.value
            if isinstance(v, ast.ListComp) and isinstance(v.elt, ast.Call) \
                    and dotted(v.elt.func) in ("list", "tuple") and norm(v.generators[0].iter) == p_:
                copies.append(n)
            elif isinstance(v, ast.ListComp) and isinstance(v.elt, ast.IfExp) \
                    and norm(v.generators[0].iter) == p_ and isinstance(v.generators[0].target, ast.Name):
                # x if isinstance(x, (list, tuple)) else list(x): what can be walked again is kept
                x_ = v.generators[0].target.id
                ie = v.elt
                t_ = ie.test
                keeps = isinstance(t_, ast.Call) and dotted(t_.func) == "isinstance" \
                    and dotted(t_.args[0]) == x_ and dotted(ie.body) == x_ \
                    and all(dotted(c_) in ("list", "tuple") for c_ in (
                        t_.args[1].elts if isinstance(t_.args[1], ast.Tuple) else [t_.args[1]]))
                makes = isinstance(ie.orelse, ast.Call) and dotted(ie.orelse.func) in ("list", "tuple") \
                    and ie.orelse.args and dotted(ie.orelse.args[0]) == x_
                if keeps and makes:
                    copies.append(n)
            elif isinstance(v, ast.Name):
                # filled by a loop 'for ph in phases: <v>.append(list(ph))'
                fills = [x for x in ast.walk(F.node) if isinstance(x, ast.For)
                         and norm(x.iter) == p_ and any(
                             isinstance(y, ast.Call) and dotted(y.func) == f"{v.id}.append"
                             and y.args and isinstance(y.args[0], ast.Call)
                             and dotted(y.args[0].func) in ("list", "tuple")
                             for y in ast.walk(x))]
                if fills:
                    copies.append(n)
    outer = [n for n in g.nodes if n.kind == "test" and isinstance(n.label, ast.While)
             and isinstance(n.ast, ast.Constant) and n.ast.value is True]
    ok = bool(copies) and bool(outer) and not g.always_preceded(outer, copies)
    if not copies and any(isinstance(r_, ast.Raise) and r_.exc is not None and "TypeError" in ast.unparse(r_.exc)
                          and not any(isinstance(w_, ast.While) and any(y is r_ for y in ast.walk(w_))
                                      for w_ in ast.walk(F.node))
                          for r_ in ast.walk(F.node)):
        # no copy, but what cannot be walked twice is refused up front (and the callers pass
        # lists): another contract, not read by this clause
        raise AnalysisError("SymbolKindFinder.__call__ refuses one-shot iterables instead of "
                            "copying them; not decided")
    run.ob("C14.sweeps", F, copies[0].ast if copies else F.node, ok,
           construct=f"{p_} = [list(phase) for phase in {p_}] before the fixed-point loop",
           why="the callers pass generators (get_statements_in_ast): consumed by the "
               "first sweep, later sweeps see nothing and kinds computed from partial "
               "sums are never corrected")


def check(run, P):
    run.do(_check_main, run, P)
    from . import generic
    generic.lints(run, P, "C14")
