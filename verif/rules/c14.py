"""C14 - kind inference is order-independent; kind unification is a partial join."""

from __future__ import annotations

import ast
import itertools

from ..engine import absint
from ..engine.cfg import CFG, own_fragments, walk_fragment
from ..engine.match import dotted, norm, func_body_stmts
from ..engine.srcmodel import AnalysisError

EXPLANATION = (
    "Decides completely, by finite-domain abstract interpretation of "
    "dagrt.data.unify over the abstract kind universe read from data.py "
    "(None, Boolean, Integer, Scalar real/complex, Array real/complex, two "
    "UserType identifiers): idempotence where defined, commutativity "
    "(defined one way <=> defined the other way, equal results) on all pairs "
    "and associativity on all triples (exhaustive). Decides structurally for "
    "the table update and the work-list: a failed unification is never "
    "swallowed while keeping the old entry; every store into a kind table is "
    "paired with setting the change latch, which is only ever cleared by "
    "reset_change_flag; every successful work-list branch records progress; "
    "the fixed-point loop resets the latch before a sweep and leaves only "
    "when it is unset. Does not decide monotonicity of user-registered "
    "get_result_kinds.")

ASSUMPTIONS = [
    "unify() stays inside the interpretable subset (if/isinstance/is None/attribute (in)equality/assert/raise/return of a parameter or constructor call); otherwise exit 2",
    "kind classes are exactly the SymbolKind subclasses of dagrt/data.py",
]

DATA = "dagrt.data"


def kind_domain(P):
    m = P.module(DATA)
    base = P.cls(f"{DATA}.SymbolKind")
    classes = {}
    for c in P.subclasses(base, modules={DATA}):
        init = c.methods.get("__init__")
        fields = []
        if init is not None:
            fields = [a for a in init.params if a != "self"]
        classes[c.name] = fields
    if len(classes) < 5:
        raise AnalysisError(f"expected >= 5 kind classes, found {sorted(classes)}")
    dom = absint.Domain(classes)
    dom.all_names = set(classes) | {"SymbolKind"}
    dom.ancestors = {n: {"SymbolKind"} for n in classes}
    return dom


def fmt(v):
    if v == absint.NONE:
        return "None"
    if len(v) == 1:
        return f"{v[0]}()"
    return f"{v[0]}({v[1]!r})"


def check(run, P):
    run.rule("C14.table.idem", "unify(a, a) == a wherever it is defined", minimum=9)
    run.rule("C14.table.comm",
             "unify(a, b) defined <=> unify(b, a) defined, with equal results", minimum=36)
    run.rule("C14.table.assoc",
             "unify(unify(a,b),c) defined <=> unify(a,unify(b,c)) defined, equal results",
             minimum=729)
    run.rule("C14.swallow",
             "a failure of unify() inside SymbolKindTable.set is re-raised or a "
             "result is stored; it never completes normally keeping the old entry",
             minimum=1)
    run.rule("C14.latch",
             "in SymbolKindTable, every store into a kind table is paired with "
             "setting _changed = True, and _changed is cleared only in "
             "__init__/reset_change_flag", minimum=3)
    run.rule("C14.progress",
             "every work-list branch that defers on UnableToInferKind records "
             "progress on its success path", minimum=2)
    run.rule("C14.fixpoint",
             "the fixed-point loop resets the change latch before each sweep and "
             "leaves the loop only under 'not result.is_changed()'; each sweep works "
             "on a freshly built list", minimum=3)

    f = P.func(f"{DATA}.unify")
    dom = kind_domain(P)
    vals = dom.values()
    interp = absint.Interp(f.node, dom)
    if len(interp.params) != 2:
        raise AnalysisError("unify: expected two parameters")

    table = {}
    for a, b in itertools.product(vals, vals):
        try:
            table[a, b] = ("ok", interp.call(a, b))
        except absint.Fail as e:
            table[a, b] = ("fail", e.kind, e.node.lineno)
    run.extra["unify_table"] = {
        f"{fmt(a)} | {fmt(b)}": (fmt(r[1]) if r[0] == "ok" else f"raises {r[1]}")
        for (a, b), r in table.items()}
    run.extra["exhaustive"] = True

    def res(a, b):
        r = table[a, b]
        return r[1] if r[0] == "ok" else None   # None = undefined

    def defined(a, b):
        return table[a, b][0] == "ok"

    for a in vals:
        r = table[a, a]
        ok = (r[0] != "ok") or r[1] == a
        run.ob("C14.table.idem", f, f.node, ok,
               construct=f"unify({fmt(a)}, {fmt(a)}) = "
                         f"{fmt(r[1]) if r[0] == 'ok' else 'undefined'}",
               why="combining a kind with itself must give that kind")
    for i, a in enumerate(vals):
        for b in vals[i + 1:]:
            r1, r2 = table[a, b], table[b, a]
            ok = (r1[0] == r2[0]) and (r1[0] != "ok" or r1[1] == r2[1])
            line = (r1[2] if r1[0] == "fail" else (r2[2] if r2[0] == "fail" else f.lineno))
            run.ob("C14.table.comm", f, None, ok,
                   construct=f"unify({fmt(a)}, {fmt(b)}) = "
                             f"{fmt(r1[1]) if r1[0]=='ok' else 'raises '+r1[1]}; swapped = "
                             f"{fmt(r2[1]) if r2[0]=='ok' else 'raises '+r2[1]}",
                   why="the kind recorded for a variable must not depend on which "
                       "of its assignments is seen first")
            run.obs[-1].line = line

    def u(a, b):
        # lifted: undefined is absorbing
        if a is None or b is None:
            return None
        return res(a, b)

    for a, b, c in itertools.product(vals, repeat=3):
        l = u(u(a, b), c)
        r = u(a, u(b, c))
        ok = l == r
        run.ob("C14.table.assoc", f, f.node, ok,
               construct=f"({fmt(a)} | {fmt(b)}) | {fmt(c)} = "
                         f"{fmt(l) if l else 'undefined'}; "
                         f"{fmt(a)} | ({fmt(b)} | {fmt(c)}) = {fmt(r) if r else 'undefined'}",
               why="grouping of successive assignments must not matter")

    _table_update(run, P)
    _worklist(run, P)


def _is_unify_call(n):
    return isinstance(n, ast.Call) and dotted(n.func) in ("unify", "data.unify")


def _table_update(run, P):
    T = P.cls(f"{DATA}.SymbolKindTable")
    fset = T.methods.get("set")
    if fset is None:
        raise AnalysisError("SymbolKindTable.set not found")
    g = CFG(fset.node)

    # C14.swallow
    tries = [n for n in ast.walk(fset.node) if isinstance(n, ast.Try)
             and any(_is_unify_call(x) for s in n.body for x in ast.walk(s))]
    unify_calls = [n for n in ast.walk(fset.node) if _is_unify_call(n)]
    if not unify_calls:
        raise AnalysisError("SymbolKindTable.set does not call unify()")
    for t in tries:
        for h in t.handlers:
            hn = g.node_of(h)
            if hn is None:
                raise AnalysisError("handler node not in CFG")
            # store nodes: tbl[name] = ...
            stores = [n for n in g.nodes if n.kind == "stmt" and _is_table_store(n.ast)]
            reach = g.reachable([hn], avoid=stores, follow_exc=False)
            ok = g.exit not in reach
            run.ob("C14.swallow", fset, h, ok,
                   construct=f"except {norm(h.type) if h.type else ''}: ... "
                             f"{'completes normally' if not ok else 're-raises/stores'}",
                   why="swallowing a failed unification keeps whichever kind was "
                       "seen first, so the table depends on presentation order")
    if not tries:
        # unify() not wrapped: failure propagates
        run.ob("C14.swallow", fset, unify_calls[0], True,
               construct="unify() call not wrapped in try",
               why="failure propagates to the caller")

    # C14.latch
    cls_funcs = list(T.methods.values())
    seen = set()
    for fn in cls_funcs:
        if fn in seen:
            continue
        seen.add(fn)
        gg = CFG(fn.node)
        flag_sets = []
        for n in gg.nodes:
            if n.kind != "stmt":
                continue
            s = n.ast
            if isinstance(s, (ast.Assign, ast.AugAssign, ast.AnnAssign)):
                tgts = s.targets if isinstance(s, ast.Assign) else [s.target]
                for t in tgts:
                    if dotted(t) == "self._changed":
                        val = s.value
                        is_true = isinstance(val, ast.Constant) and val.value is True
                        is_false = isinstance(val, ast.Constant) and val.value is False
                        if is_true:
                            flag_sets.append(n)
                        if fn.name in ("__init__", "reset_change_flag"):
                            ok = is_false or is_true
                        else:
                            ok = is_true
                        run.ob("C14.latch", fn, s, ok,
                               why="the change latch may only be set to True outside "
                                   "__init__/reset_change_flag; assigning a computed "
                                   "value can clear a change recorded earlier in the sweep")
        if fn.name in ("__init__",):
            continue
        stores = [n for n in gg.nodes if n.kind == "stmt" and _is_table_store(n.ast)]
        for st in stores:
            pre = not gg.always_preceded([st], flag_sets)
            post = not gg.always_followed([st], flag_sets)
            ok = pre or post
            run.ob("C14.latch", fn, st.ast, ok,
                   why="a kind stored without setting the change latch is not "
                       "propagated: the fixed-point iteration may stop with kinds "
                       "computed from the table as it was before")


def _is_table_store(s):
    """tbl[name] = kind  (a subscript store into a local table variable)."""
    if isinstance(s, ast.Assign):
        for t in s.targets:
            if isinstance(t, ast.Subscript) and isinstance(t.value, ast.Name) \
                    and not isinstance(t.slice, ast.Slice):
                return True
    return False


def _worklist(run, P):
    from .util import find, first, has
    F = P.func(f"{DATA}.SymbolKindFinder.__call__")
    r = first("V_res = SymbolKindTable()", F.node)
    if r[0] is None:
        raise AnalysisError("SymbolKindFinder.__call__: result table not found")
    res = r[1]["V_res"]
    # the progress flag: a local assigned both True and False
    flags = {}
    for x in ast.walk(F.node):
        if isinstance(x, ast.Assign) and len(x.targets) == 1 and isinstance(x.targets[0], ast.Name) \
                and isinstance(x.value, ast.Constant) and isinstance(x.value.value, bool):
            flags.setdefault(x.targets[0].id, set()).add(x.value.value)
    prog = [n for n, v in flags.items() if v == {True, False}]
    if len(prog) != 1:
        raise AnalysisError("SymbolKindFinder.__call__: progress flag not identified")
    prog = prog[0]
    for t in ast.walk(F.node):
        if not isinstance(t, ast.Try):
            continue
        defers = False
        for h in t.handlers:
            if h.type is not None and "UnableToInferKind" in ast.unparse(h.type):
                for x in ast.walk(h):
                    if isinstance(x, ast.Call) and isinstance(x.func, ast.Attribute) \
                            and x.func.attr == "append":
                        defers = True
        if not defers:
            continue
        ok = any(has(f"{prog} = True", s_) for s_ in t.orelse)
        sets = any(isinstance(x, ast.Call) and dotted(x.func) == f"{res}.set"
                   for s_ in t.orelse for x in ast.walk(s_))
        run.ob("C14.progress", F, t, ok and sets,
               construct=f"try: {norm(t.body[0], 80)} ... else: "
                         f"{'; '.join(norm(s_, 60) for s_ in t.orelse)}",
               why="a sweep in which only this branch succeeds is taken for 'no "
                   "progress' and inference aborts for some statement orders only")

    loops = [n for n in F.node.body if isinstance(n, ast.While)]
    outer = None
    for w in loops:
        if isinstance(w.test, ast.Constant) and w.test.value is True:
            outer = w
    if outer is None:
        raise AnalysisError("SymbolKindFinder.__call__: outer 'while True' loop not found")
    g = CFG(F.node)
    resets = g.find(lambda n, fr: any(
        isinstance(x, ast.Call) and dotted(x.func) == f"{res}.reset_change_flag"
        for f_ in fr for x in walk_fragment(f_)) and n.kind == "stmt")
    inner_sets = []
    for n in g.nodes:
        if n.kind == "stmt" and n.ast is not None and _inside(outer, n.ast):
            if any(isinstance(x, ast.Call) and dotted(x.func) == f"{res}.set"
                   for x in walk_fragment(n.ast)):
                inner_sets.append(n)
    if not inner_sets:
        raise AnalysisError("no <result>.set() in the fixed-point loop")
    head = g.node_of(outer)
    reach = g.reachable([head], avoid=resets, follow_exc=False)
    bad = [n for n in inner_sets if n in reach]
    run.ob("C14.fixpoint", F, outer, not bad and bool(resets),
           construct="result.reset_change_flag() before every result.set() of a sweep",
           why="a latch left over from the previous sweep (or from forced kinds) "
               "makes the loop condition meaningless")
    # the sweep processes a freshly built work list: the list popped in the
    # inner loop is (re)built inside the outer loop
    pops = [x for x in ast.walk(outer) if isinstance(x, ast.Call)
            and isinstance(x.func, ast.Attribute) and x.func.attr == "pop"
            and isinstance(x.func.value, ast.Name)]
    fresh_ok = False
    if pops:
        q = pops[0].func.value.id
        builds = [s_ for s_ in outer.body if isinstance(s_, ast.Assign)
                  and any(isinstance(t, ast.Name) and t.id == q for t in s_.targets)
                  and isinstance(s_.value, (ast.List, ast.ListComp)) or (
                      isinstance(s_, ast.Assign)
                      and any(isinstance(t, ast.Name) and t.id == q for t in s_.targets)
                      and isinstance(s_.value, ast.Call) and dotted(s_.value.func) == "list")]
        fresh_ok = bool(builds)
    run.ob("C14.fixpoint", F, outer, fresh_ok,
           construct="the work list consumed by pop() is rebuilt (a new list) at the "
                     "start of every sweep",
           why="an aliased list emptied by the first sweep makes every later sweep "
               "process nothing: a kind computed from a partial sum is never corrected")
    breaks = [s_ for s_ in func_body_stmts(outer) if isinstance(s_, ast.Break)
              and _innermost_loop(outer, s_) is outer]
    ok = bool(breaks)
    for b_ in breaks:
        parent = _parent_if(outer, b_)
        if parent is None or norm(parent.test) != f"not {res}.is_changed()":
            ok = False
    run.ob("C14.fixpoint", F, breaks[0] if breaks else outer, ok,
           construct="break only under 'if not result.is_changed()'",
           why="leaving the loop while the table still changes returns kinds "
               "computed from stale entries")


def _inside(outer, node):
    return any(x is node for x in ast.walk(outer))


def _innermost_loop(root, target):
    best = None

    def visit(n, cur):
        nonlocal best
        if n is target:
            best = cur
            return
        for c in ast.iter_child_nodes(n):
            visit(c, n if isinstance(n, (ast.For, ast.While)) else cur)

    visit(root, None)
    return best


def _parent_if(root, target):
    parent = None

    def visit(n, cur):
        nonlocal parent
        if n is target:
            parent = cur
            return
        for c in ast.iter_child_nodes(n):
            visit(c, n if isinstance(n, ast.If) else cur)

    visit(root, None)
    return parent
