"""C08 - declared read/write sets cover what a statement really touches.

Sibling agreement between the interpreter's ``exec_*`` methods and the
``get_read_variables`` / ``get_written_variables`` / ``map_expressions``
methods of the statement classes.
"""

from __future__ import annotations

import ast

from ..engine.match import dotted, kwarg, norm
from ..engine.srcmodel import AnalysisError, Func
from . import stmtmodel as sm

EXPLANATION = (
    "Static sibling-agreement analysis (ast provenance/def-use over the real "
    "C3 MRO). Decides: (reads) every attribute path of a statement that the "
    "interpreter hands to its evaluator in evaluate_condition()/exec_K() is "
    "among the paths from which K.get_read_variables() collects names or "
    "names a written variable; (writes) every key of the interpreter's "
    "variable store touched by exec_K() is named by get_written_variables() "
    "or is a loop identifier; (mapper) the dependency mappers used for the "
    "sets descend into call arguments and both parts of a subscript and "
    "tolerate None/str leaves; (ident) every path feeding the declared sets "
    "is either untouched by map_expressions() or rebuilt from the mapped "
    "value of the same path. Does not decide: the values computed, or reads "
    "performed inside user functions.")

ASSUMPTIONS = [
    "the interpreter reads variables only through self.eval_mapper(...) and self.context[...]",
    "pymbolic's CombineMapper handlers visit every child of the nodes they handle (read from source for call/subscript only)",
    "attribute paths are compared after expanding @property aliases of the statement class",
]


def _check_main(run, P):
    classes = sm.statement_classes(P)

    run.rule("C08.reads",
             "E(K) subset of D(K) u W(K): each attribute path the interpreter "
             "evaluates for kind K is collected by K.get_read_variables() "
             "(or names a written variable)", minimum=8)
    run.rule("C08.writes",
             "every variable-store key touched in exec_K is named by "
             "get_written_variables() (loop identifiers aside)", minimum=4)
    run.rule("C08.mapper",
             "dependency mapper configuration descends into call arguments and "
             "subscripts; foreign None/str leaves give the empty set", minimum=6)
    run.rule("C08.flow",
             "every value collected in a get_read_variables()/get_written_variables() "
             "chain reaches the return value; inside loops it is accumulated, "
             "not overwritten", minimum=8)
    run.rule("C08.ident",
             "every field feeding the declared sets is either untouched by "
             "map_expressions or rebuilt from mapper(<same path>)", minimum=8)

    reads_writes(run, P, classes)
    run.do(_mapped_fields_read, run, P, classes)
    run.do(_callee_lookup, run, P)
    run.do(fixed_names, run, P, classes)

    run.do(_mapper_config, run, P)
    run.do(_written_whole, run, P, classes)
    run.do(_flow, run, P, classes)
    run.do(_ident, run, P, classes)


def reads_writes(run, P, classes, r_reads="C08.reads", r_writes="C08.writes"):
    interp = P.cls(sm.INTERP)

    for K in classes:
        mname = sm.exec_method_name(P, K)
        f_exec = P.method(interp, mname)
        if f_exec is None:
            # C01.handlers reports a missing handler; nothing to compare here
            continue
        evals, stores = sm.exec_paths(P, K)
        D = sm.read_set(P, K)
        W = sm.written_set(P, K)
        for fn, call, paths in evals:
            if not paths:
                # evaluator applied to something that is not derived from the
                # statement (constant, local value)
                run.ob(r_reads, fn, call, True,
                       why=f"{K.name}: evaluated expression is not a statement field")
                continue
            for p in sorted(paths):
                ok = sm.covered(p, D)
                run.ob(r_reads, fn, call, ok,
                       construct=f"{K.name}: evaluates stmt.{p} in {norm(call)}",
                       why=(f"interpreter evaluates stmt.{p} for {K.name} but "
                            f"{K.name}.get_read_variables() collects names only from "
                            f"{sorted(D)}; a variable occurring only there gets no "
                            f"dependency edge"),
                       detail=f"D={sorted(D)} W={sorted(W)}")
        for fn, node, paths, ctx in stores:
            if not paths:
                continue
            for p in sorted(paths):
                is_loop_ident = p.startswith("loops[*][0]")
                ok = p in W or is_loop_ident
                run.ob(r_writes, fn, node, ok,
                       construct=f"{K.name}: self.context[stmt.{p}] ({ctx})",
                       why=(f"exec method touches store key stmt.{p} which "
                            f"{K.name}.get_written_variables() does not name "
                            f"({sorted(W)})"))



def _mapped_fields_read(run, P, classes, rule="C08.reads"):
    """What a statement class itself treats as an expression (the fields its
    map_expressions hands to the mapper) is collected by its get_read_variables -
    apart from the names it writes or binds.  Needs no handler in the interpreter, so
    it also speaks for the statement kinds the interpreter does not execute."""
    from .c07 import _name_fields
    n = 0
    for K in classes:
        D = sm.read_set(P, K)
        W = sm.written_set(P, K)
        M = sm.mapped(P, K)
        mapped_paths = set()
        for rec in M.values():
            mapped_paths |= rec["paths"]
        bound = set(_name_fields(P, K)) | {"function_id"}
        # names the read set takes out again (the unknowns of an implicit solve)
        for f in sm._chain(P, K, "get_read_variables"):
            for x in ast.walk(f.node):
                rhs = None
                if isinstance(x, ast.BinOp) and isinstance(x.op, ast.Sub):
                    rhs = x.right
                if isinstance(x, ast.AugAssign) and isinstance(x.op, ast.Sub):
                    rhs = x.value
                if rhs is not None:
                    for y in ast.walk(rhs):
                        if isinstance(y, ast.Attribute) and dotted(y.value) == "self":
                            bound.add(y.attr)
        for p_ in sorted(mapped_paths):
            root = p_.split(".")[0].split("[")[0].split("{")[0]
            if root in {b.split(".")[0].split("[")[0].split("{")[0] for b in bound}:
                continue
            ok = sm.covered(p_, D | W) or any(sm.covered(q, {p_}) for q in D | W)
            n += 1
            run.ob(rule, K, K.node, ok,
                   construct=f"{K.name}: '{p_}' (an expression according to map_expressions) is "
                             f"collected by get_read_variables (collected: {sorted(D)})",
                   why=f"a variable that occurs only in stmt.{p_} is in no declared set: the "
                       f"builder gives the statement no edge to the statement that assigns it")
    if n < 8:
        raise AnalysisError("mapped fields: too few fields examined")


def fixed_names(run, P, classes, rule="C08.reads"):
    """A statement handler touches the store only under names the statement
    carries: no variable is read or written under a name fixed in the handler."""
    interp = P.cls(sm.INTERP)
    n = 0
    for K in classes:
        f = P.method(interp, sm.exec_method_name(P, K))
        if f is None:
            continue
        units = [f] + list(f.nested.values())
        hits = []
        for u in units:
            for x in ast.walk(u.node):
                if isinstance(x, ast.Subscript) and dotted(x.value) == "self.context" \
                        and isinstance(x.slice, (ast.Constant, ast.JoinedStr, ast.BinOp)) \
                        and not any(isinstance(y, ast.Name) for y in ast.walk(x.slice)):
                    hits.append(x)
                if isinstance(x, ast.Call) and isinstance(x.func, ast.Attribute) \
                        and dotted(x.func.value) == "self.context" and x.args \
                        and isinstance(x.args[0], ast.Constant) and isinstance(x.args[0].value, str):
                    hits.append(x)
        n += 1
        run.ob(rule, f, hits[0] if hits else f.node, not hits,
               construct=f"{K.name}: {f.name} touches no store entry under a fixed name"
                         + (f" (found {norm(hits[0], 40)})" if hits else ""),
               why="a variable the handler looks up by itself ('<t>' for a message, say) is in "
                   "no declared set: the builder gives the statement no edge to the statements "
                   "that assign it, and what is read depends on the order chosen")
    if n < 5:
        raise AnalysisError("fixed_names: statement handlers not found")
    # the same for everything else that can run while a statement is executing: only the
    # driver (set_up / run, between statements) names store entries itself
    drivers = {"set_up", "run", "run_single_step"}      # nested functions of these are not exempt
    # a helper method whose every mention is a call made by set_up / run themselves
    # (never from a nested function, a handler or run_single_step) is part of that driver
    mentions = {}
    for name, f in interp.methods.items():
        for x in ast.walk(f.node):
            if isinstance(x, ast.Attribute) and isinstance(x.value, ast.Name) and x.value.id == "self" \
                    and x.attr in interp.methods:
                mentions.setdefault(x.attr, []).append((name, x))
    for m_, sites in mentions.items():
        if m_ in drivers or m_.startswith("exec_") or interp.methods[m_].nested:
            continue
        ok_ = True
        for caller, x in sites:
            if caller not in ("set_up", "run"):
                ok_ = False
                break
            inner = any(id(x) in {id(y) for y in ast.walk(g_.node)}
                        for g_ in interp.methods[caller].nested.values())
            called = any(isinstance(c_, ast.Call) and c_.func is x for c_ in ast.walk(interp.methods[caller].node))
            if inner or not called:
                ok_ = False
                break
        if ok_:
            drivers.add(m_)
    others = []
    n_units = 0

    def units_of(f_):
        yield f_
        for g_ in f_.nested.values():
            yield from units_of(g_)

    for name, f in sorted(interp.methods.items()):
        if f.cls is not interp:
            continue
        for u in (list(units_of(f))[1:] if name in drivers else units_of(f)):
            n_units += 1
            for x in ast.walk(u.node):
                fixed = None
                if isinstance(x, ast.Subscript) and isinstance(x.value, ast.Attribute) \
                        and x.value.attr == "context" \
                        and not any(isinstance(y, ast.Name) for y in ast.walk(x.slice)) \
                        and any(isinstance(y, ast.Constant) and isinstance(y.value, str)
                                for y in ast.walk(x.slice)):
                    fixed = x
                if isinstance(x, ast.Call) and isinstance(x.func, ast.Attribute) \
                        and isinstance(x.func.value, ast.Attribute) and x.func.value.attr == "context" \
                        and x.func.attr in ("get", "pop", "setdefault", "__getitem__") and x.args \
                        and isinstance(x.args[0], ast.Constant) and isinstance(x.args[0].value, str):
                    fixed = x
                if fixed is not None:
                    others.append((u, fixed))
    run.ob(rule, others[0][0] if others else interp, others[0][1] if others else None, not others,
           construct=f"outside the drivers (set_up / run / run_single_step, between statements) no code of the interpreter ({n_units} functions) touches "
                     f"a store entry under a fixed name"
                     + (f" (found {norm(others[0][1], 40)} in {others[0][0].qualname})" if others else ""),
           why="a helper or wrapper that runs in the middle of a statement and looks at '<t>' "
               "reads a variable the statement does not declare")


def _callee_lookup(run, P, rule="C08.reads"):
    """The function of a call evaluated inside an expression comes from the
    function table, never from the variable store."""
    EM = P.cls("dagrt.expression.EvaluationMapper")
    hits = [(m_, x) for _, m_ in sorted(EM.methods.items()) for x in ast.walk(m_.node)
            if isinstance(x, ast.Call) and isinstance(x.func, ast.Name)
            and any(isinstance(a, ast.Starred) for a in x.args)]
    uniq = {}
    for m_, x in hits:
        uniq.setdefault(id(x), (m_, x))
    hits = list(uniq.values())
    if len(hits) != 1:
        raise AnalysisError("EvaluationMapper: the call of the looked-up function not found")
    f, call_ = hits[0]
    calls = [call_]
    v = calls[0].func.id
    defs = [s_.value for s_ in ast.walk(f.node) if isinstance(s_, ast.Assign)
            and any(isinstance(t, ast.Name) and t.id == v for t in s_.targets)]
    ok = bool(defs) and all(isinstance(d, ast.Subscript) and dotted(d.value) == "self.functions"
                            for d in defs)
    run.ob(rule, f, defs[0] if defs else f.node, ok,
           construct=f"{f.name}: {v} = self.functions[<name of the called function>] (found: "
                     f"{[norm(d, 50) for d in defs]})",
           why="resolved like a variable, the function's name is looked up in the variable "
               "store first: the call reads a variable the statement does not declare "
               "(function symbols are excluded from read sets), and a variable that happens "
               "to be called like the function is called instead of it")


def _written_whole(run, P, classes, rule="C08.writes"):
    """The written set is what the statement assigns - never reduced."""
    seen = set()
    for K in classes:
        for f in sm._chain(P, K, "get_written_variables"):
            if f in seen:
                continue
            seen.add(f)
            cut = [x for x in ast.walk(f.node)
                   if (isinstance(x, ast.BinOp) and isinstance(x.op, (ast.Sub, ast.BitAnd, ast.BitXor)))
                   or (isinstance(x, ast.AugAssign) and isinstance(x.op, (ast.Sub, ast.BitAnd, ast.BitXor)))
                   or (isinstance(x, ast.Call) and isinstance(x.func, ast.Attribute)
                       and x.func.attr in ("difference", "difference_update", "intersection",
                                           "discard", "remove", "symmetric_difference"))]
            run.ob(rule, f, cut[0] if cut else f.node, not cut,
                   construct=f"{f.qualname}: nothing is taken out of the written set"
                             + (f" (found {norm(cut[0], 60)})" if cut else ""),
                   why="subtracting the unknowns of an implicit solve is right for the *read* "
                       "set; taken out of the written set, 'y <- solve y: ...' declares no "
                       "write of y, and later readers and writers of y get no edge to it")


def _no_negative_shortcut(run, P, rule="C08.mapper"):
    """A method of the dependency mapper that answers "no variables" without going
    through the dispatch says positively what it answers for (a constant, None, a
    string).  The empty set under a *negative* type test answers for every other type
    as well - tuples, lists and object arrays included, which the dispatch descends into."""
    from .util import path_conditions
    C = P.cls("dagrt.expression.ExtendedDependencyMapper")
    n = 0
    for name, f in sorted(C.methods.items()):
        for r in ast.walk(f.node):
            if not (isinstance(r, ast.Return) and r.value is not None and _is_empty_set(r.value)):
                continue
            conds = path_conditions(f.node, r)
            neg = [t for t, pol in conds if t.startswith("isinstance(") and pol is False]
            pos = [t for t, pol in conds if pol is True]
            if neg and not pos and any(w in t for t in neg for w in ("tuple", "list", "ndarray", "Sequence",
                                                                     "Iterable")):
                raise AnalysisError(f"{C.name}.{name}: the negative type test names container types; "
                                    "whether it names all that the dispatch descends into is not read")
            n += 1
            run.ob(rule, f, r, not (neg and not pos),
                   construct=f"{C.name}.{name}: the empty set is returned for named kinds of values "
                             f"(under: {sorted(t[:40] + ('' if pol else ' is false') for t, pol in conds)})",
                   why="answered for 'anything that is not an expression node', a tuple of "
                       "expressions (loop bounds, call arguments held in a container) reads "
                       "nothing: its variables are in no declared set")
    if n < 1:
        raise AnalysisError("ExtendedDependencyMapper: no empty-set answer found")


def _mapper_config(run, P):
    run.do(_no_negative_shortcut, run, P)
    # (1) Statement.get_dependency_mapper and utils.get_variables construct the
    # mapper with include_subscripts=False and include_calls="descend_args"
    sites = []
    f = P.func("dagrt.language.Statement.get_dependency_mapper")
    sites.append((f, None))
    g = P.func("dagrt.utils.get_variables")
    sites.append((g, None))
    sb = P.cls("dagrt.language.StatementBase").methods.get("get_dependency_mapper")
    if sb is not None:
        sites.append((sb, None))
    for fn, _ in sites:
        ctor_calls = []
        args_dict = {}
        for n in ast.walk(fn.node):
            if isinstance(n, ast.Assign) and isinstance(n.value, ast.Dict):
                for k, v in zip(n.value.keys, n.value.values):
                    if isinstance(k, ast.Constant):
                        args_dict[k.value] = v
            if isinstance(n, ast.Call):
                tgt = P.resolve_expr(fn, n.func)
                if tgt is not None and getattr(tgt, "name", "") in (
                        "ExtendedDependencyMapper", "DependencyMapper"):
                    ctor_calls.append(n)
        if not ctor_calls:
            raise AnalysisError(f"{fn.fq}: no dependency mapper constructor call")
        for c in ctor_calls:
            klass = P.resolve_expr(fn, c.func)

            def class_default(name):
                """The default a constructor of the repository gives the option, when
                it hands it on to the library's constructor under the same name."""
                if klass is None or not hasattr(klass, "methods"):
                    return None
                for k_ in P.mro(klass):
                    init = getattr(k_, "methods", {}).get("__init__")
                    if init is None:
                        continue
                    a_ = init.node.args
                    names = [x.arg for x in a_.args]
                    if name not in names:
                        # not a parameter here: the constructor may fix the option itself
                        for x in ast.walk(init.node):
                            if isinstance(x, ast.Call) and (dotted(x.func) or "").endswith("__init__"):
                                for kw in x.keywords:
                                    if kw.arg == name and isinstance(kw.value, ast.Constant):
                                        return kw.value
                        if a_.kwarg is None:
                            return None
                        continue
                    dflts = dict(zip(reversed(names), reversed(a_.defaults)))
                    d_ = dflts.get(name)
                    if not k_.module.name.startswith("dagrt"):
                        return d_
                    forwards = any(
                        isinstance(x, ast.Call) and (dotted(x.func) or "").endswith("__init__")
                        and any(kw.arg == name and dotted(kw.value) == name for kw in x.keywords)
                        for x in ast.walk(init.node))
                    if not forwards:
                        raise AnalysisError(f"{k_.name}.__init__: what becomes of '{name}' is not "
                                            f"recognised")
                    return d_
                return None

            def get(name):
                v = kwarg(c, name)
                if v is None and any(k.arg is None for k in c.keywords):
                    v = args_dict.get(name)
                if v is None:
                    v = class_default(name)
                return v
            sub = get("include_subscripts")
            ok = isinstance(sub, ast.Constant) and sub.value is False
            run.ob("C08.mapper", fn, c, ok,
                   construct=f"include_subscripts={norm(sub) if sub else 'default'}",
                   why="with include_subscripts true the mapper returns the "
                       "subscript node itself and the index variables are lost")
            lk = get("include_lookups")
            ok = isinstance(lk, ast.Constant) and lk.value is False
            run.ob("C08.mapper", fn, c, ok,
                   construct=f"include_lookups={norm(lk) if lk else 'default (True)'}",
                   why="with include_lookups true the mapper returns the Lookup node "
                       "itself (pymbolic DependencyMapper.map_lookup) and callers take "
                       "its .name, the attribute: 'z.real' declares a read of 'real' "
                       "and none of 'z'")
            calls = get("include_calls")
            ok = _descends(calls, fn)
            if not ok:
                # a construction that only runs when the caller asked for another
                # configuration (a flag parameter whose default is False) is not the default
                from .util import path_conditions
                holder = next((s_ for s_ in ast.walk(fn.node) if isinstance(s_, ast.stmt)
                               and not isinstance(s_, (ast.If, ast.For, ast.While, ast.Try, ast.With,
                                                       ast.FunctionDef))
                               and any(y is c for y in ast.walk(s_))), None)
                a_ = fn.node.args
                dflt_false = {x.arg for x, d_ in zip(reversed(a_.args), reversed(a_.defaults))
                              if isinstance(d_, ast.Constant) and d_.value is False}
                if holder is not None and any(t_ in dflt_false and pol is True
                                              for t_, pol in path_conditions(fn.node, holder)):
                    continue
            run.ob("C08.mapper", fn, c, ok,
                   construct=f"include_calls={norm(calls) if calls else 'default'}",
                   why="the default configuration must descend into call "
                       "arguments ('descend_args'), else variables passed to "
                       "functions are missing from the read set")

    # (1b) nobody asks for another configuration at a call site
    lang = P.module("dagrt.language")
    sites_ = [(fn_, x) for fn_ in lang.functions.values() for x in ast.walk(fn_.node)
              if isinstance(x, ast.Call) and isinstance(x.func, ast.Attribute)
              and x.func.attr == "get_dependency_mapper"]
    odd = [(fn_, x) for fn_, x in sites_ if x.args or any(
        not (isinstance(k.value, ast.Constant) and k.value.value == "descend_args")
        for k in x.keywords if k.arg == "include_calls") or any(
        k.arg not in ("include_calls",) for k in x.keywords)]
    run.ob("C08.mapper", odd[0][0] if odd else lang, odd[0][1] if odd else None, bool(sites_) and not odd,
           construct=f"{len(sites_)} call(s) of get_dependency_mapper(), none overriding the configuration"
                     + (f" (found {norm(odd[0][1])})" if odd else ""),
           why="include_calls=False makes pymbolic descend into the function symbol as well: a "
               "function called in a guard is then a variable read, and fusion renames it")

    # (2) pymbolic facts, read from source
    dm = P.cls("pymbolic.mapper.dependency.DependencyMapper")
    mc = dm.methods.get("map_call")
    ok = False
    if mc is not None:
        for n in ast.walk(mc.node):
            if isinstance(n, ast.If) and "descend_args" in ast.unparse(n.test):
                body_src = " ".join(ast.unparse(s) for s in n.body)
                ok = "self.rec" in body_src and "parameters" in body_src
    run.ob("C08.mapper", dm, mc.node if mc else dm.node, ok,
           construct="DependencyMapper.map_call descend_args branch",
           why="trusted base: 'descend_args' must recurse into expr.parameters")
    ml = dm.methods.get("map_lookup")
    ok = False
    if ml is not None:
        src = ast.unparse(ml.node)
        ok = "if self.include_lookups" in src and "super().map_lookup" in src
    init = dm.methods.get("__init__")
    dflt_true = False
    if init is not None:
        a_ = init.node.args
        for arg_, d_ in zip(reversed(a_.args), reversed(a_.defaults)):
            if arg_.arg == "include_lookups" and isinstance(d_, ast.Constant) and d_.value is True:
                dflt_true = True
    run.ob("C08.mapper", dm, ml.node if ml else dm.node, ok and dflt_true,
           construct="DependencyMapper.map_lookup returns the node itself when include_lookups "
                     "(default True), else descends",
           why="trusted base: the flag must be switched off explicitly")
    ms = dm.methods.get("map_subscript")
    ok = False
    if ms is not None:
        src = ast.unparse(ms.node)
        ok = "include_subscripts" in src and "super().map_subscript" in src
    cm = P.cls("pymbolic.mapper.CombineMapper").methods.get("map_subscript")
    if cm is not None:
        src = ast.unparse(cm.node)
        ok = ok and "aggregate" in src and "index" in src
    run.ob("C08.mapper", dm, ms.node if ms else dm.node, ok,
           construct="DependencyMapper.map_subscript -> CombineMapper.map_subscript",
           why="trusted base: without include_subscripts both aggregate and "
               "index are visited")

    # (3) ExtendedDependencyMapper.map_foreign: the empty set only for None / str
    ed = P.func("dagrt.expression.ExtendedDependencyMapper.map_foreign")
    pname = ed.params[1] if len(ed.params) > 1 else "expr"
    ok = False
    n_empty = 0
    for n in ast.walk(ed.node):
        if isinstance(n, ast.Return) and _is_empty_set(n.value):
            n_empty += 1
    for n in ast.walk(ed.node):
        if isinstance(n, ast.If) and _only_none_or_str(n.test, pname):
            rets = [s_ for s_ in n.body if isinstance(s_, ast.Return)]
            if rets and _is_empty_set(rets[0].value):
                from .util import else_part
                other = [s_ for s_ in else_part(ed.node, n) if isinstance(s_, ast.Return)]
                if other and "super().map_foreign" in ast.unparse(other[0]):
                    ok = True
    if ok and n_empty > 1:
        # one more kind of value answered "no variables".  A numeric array holds none; an array
        # of objects holds expressions, which the interpreter evaluates entry by entry.
        from .util import path_conditions
        for n in ast.walk(ed.node):
            if isinstance(n, ast.Return) and _is_empty_set(n.value):
                conds = [t for t, pol in path_conditions(ed.node, n) if pol]
                if any(_only_none_or_str(ast.parse(t, mode="eval").body, pname) for t in conds):
                    continue
                arr = [t for t in conds if "ndarray" in t]
                if not arr:
                    raise AnalysisError(f"map_foreign: the empty set is also returned under {conds}; not read")
                run.ob("C08.mapper", ed, n, all("dtype" in t and "object" in t for t in arr),
                       construct=f"map_foreign: an array is answered 'no variables' only if it is no array "
                                 f"of objects (test: {arr[0][:70]})",
                       why="an object array holds expressions (coefficients times a variable); their "
                           "variables are read by the interpreter and have to be declared")
        n_empty = 1
    run.ob("C08.mapper", ed, ed.node, ok and n_empty == 1,
           construct="map_foreign: exactly None/str -> empty set, else super()",
           why="time/None leaves of YieldState and string constants must not "
               "raise or contribute names; any other foreign object (tuple of "
               "expressions, array) must still be descended into")

    # (4) utils.get_variables: every path applies the mapper to its argument
    from ..engine.cfg import CFG, walk_fragment
    gv = P.func("dagrt.utils.get_variables")
    cfg = CFG(gv.node)
    arg0 = gv.params[0]
    mapper_vars = set()
    for n in ast.walk(gv.node):
        if isinstance(n, ast.Assign) and isinstance(n.value, ast.Call):
            tgt = P.resolve_expr(gv, n.value.func)
            if tgt is not None and getattr(tgt, "name", "") in (
                    "ExtendedDependencyMapper", "DependencyMapper"):
                for t in n.targets:
                    if isinstance(t, ast.Name):
                        mapper_vars.add(t.id)

    def applies(nd, frags):
        for fr in frags:
            for x in walk_fragment(fr):
                if isinstance(x, ast.Call) and isinstance(x.func, ast.Name) \
                        and x.func.id in mapper_vars and x.args \
                        and isinstance(x.args[0], ast.Name) and x.args[0].id == arg0:
                    return True
        return False

    app_nodes = cfg.find(applies)
    if not app_nodes:
        raise AnalysisError("utils.get_variables: mapper application on the argument not found")
    bad = cfg.always_followed([cfg.entry], app_nodes)
    # early exits are accepted only under the None/str idiom
    ok = True
    detail = ""
    if bad:
        ok = False
        path = cfg.path(cfg.entry, cfg.exit, avoid=app_nodes, follow_exc=False)
        if path:
            tests = [nd for nd in path if nd.kind == "test"]
            if tests and all(_only_none_or_str(t.ast, arg0) for t in tests):
                ok = True
            detail = " -> ".join(f"L{nd.lineno}" for nd in path if nd.ast is not None)
    run.ob("C08.mapper", gv, gv.node, ok,
           construct="get_variables: every return applies the dependency mapper to its argument",
           why="an early return for 'literal' arguments silently drops the "
               "variables of container-valued operands (tuples of expressions) "
               "that the interpreter still evaluates", detail=detail)


def _is_empty_set(v):
    return isinstance(v, ast.Call) and dotted(v.func) in ("frozenset", "set") \
        and not v.args and not v.keywords


def _only_none_or_str(test, pname):
    """test is a disjunction of `p is None` / isinstance(p, str)."""
    parts = test.values if isinstance(test, ast.BoolOp) and isinstance(test.op, ast.Or) \
        else [test]
    for t in parts:
        if isinstance(t, ast.Compare) and len(t.ops) == 1 and isinstance(t.ops[0], ast.Is) \
                and isinstance(t.left, ast.Name) and t.left.id == pname \
                and isinstance(t.comparators[0], ast.Constant) \
                and t.comparators[0].value is None:
            continue
        if isinstance(t, ast.Call) and dotted(t.func) == "isinstance" and len(t.args) == 2 \
                and isinstance(t.args[0], ast.Name) and t.args[0].id == pname:
            c = t.args[1]
            names = c.elts if isinstance(c, ast.Tuple) else [c]
            if all(isinstance(x, ast.Name) and x.id in ("str", "bytes", "NoneType")
                   for x in names):
                continue
        return False
    return True


def _flow(run, P, classes, rule="C08.flow"):
    """Collected values reach the return value and are accumulated in loops."""
    seen = set()
    for K in classes:
        for meth in ("get_read_variables", "get_written_variables"):
            for f in sm._chain(P, K, meth):
                if f in seen:
                    continue
                seen.add(f)
                _flow_func(run, P, f, meth, rule)


def _flow_func(run, P, f, meth, rule="C08.flow"):
    from ..engine.match import func_body_stmts
    nested = set(f.nested)
    mapper_names = set()
    for n in ast.walk(f.node):
        if isinstance(n, ast.Assign) and isinstance(n.value, ast.Call) \
                and dotted(n.value.func) == "self.get_dependency_mapper":
            for t in n.targets:
                if isinstance(t, ast.Name):
                    mapper_names.add(t.id)

    def is_source(call):
        if not isinstance(call, ast.Call):
            return False
        if isinstance(call.func, ast.Name):
            if call.func.id in nested or call.func.id in mapper_names:
                return True
            tgt = P.resolve_name(f, call.func.id)
            if isinstance(tgt, Func) and tgt.fq == "dagrt.utils.get_variables":
                return True
        if isinstance(call.func, ast.Attribute) and call.func.attr == meth \
                and isinstance(call.func.value, ast.Call) \
                and dotted(call.func.value.func) == "super":
            return True
        return False

    stmts = func_body_stmts(f.node)      # not descending into nested defs
    # name flow graph
    flows = {}
    returned = set()
    for s in stmts:
        if isinstance(s, ast.Return) and s.value is not None:
            returned |= {x.id for x in ast.walk(s.value) if isinstance(x, ast.Name)}
        elif isinstance(s, (ast.Assign, ast.AugAssign)):
            tg = s.targets if isinstance(s, ast.Assign) else [s.target]
            tnames = {x.id for t in tg for x in ast.walk(t) if isinstance(x, ast.Name)}
            for x in ast.walk(s.value):
                if isinstance(x, ast.Name):
                    flows.setdefault(x.id, set()).update(tnames)

    def reaches_return(name):
        seen_, stack = set(), [name]
        while stack:
            n = stack.pop()
            if n in returned:
                return True
            if n in seen_:
                continue
            seen_.add(n)
            stack.extend(flows.get(n, ()))
        return False

    loops = [n for n in ast.walk(f.node) if isinstance(n, (ast.For, ast.While))]

    def in_loop(stmt):
        for l in loops:
            for b in l.body:
                if any(x is stmt for x in ast.walk(b)):
                    return True
        return False

    run.do(_skip_and_subtract, run, P, f, stmts, is_source, rule)
    run.do(_no_bypass, run, P, f, is_source, rule)
    if meth == "get_read_variables":
        _only_collected(run, P, f, is_source, rule)

    for s in stmts:
        if isinstance(s, (ast.FunctionDef, ast.ClassDef)):
            continue
        srcs = [x for x in _own_walk(s) if is_source(x)]
        if not srcs:
            continue
        for c in srcs:
            if isinstance(s, ast.Return):
                ok, why = True, ""
            elif isinstance(s, ast.AugAssign) and isinstance(s.target, ast.Name):
                ok = reaches_return(s.target.id)
                why = f"collected value is stored in '{s.target.id}', which never reaches the return value"
            elif isinstance(s, ast.Assign) and len(s.targets) == 1 \
                    and isinstance(s.targets[0], ast.Name):
                t = s.targets[0].id
                ok = reaches_return(t)
                why = f"collected value is stored in '{t}', which never reaches the return value"
                if ok and in_loop(s):
                    self_ref = any(isinstance(x, ast.Name) and x.id == t
                                   for x in ast.walk(s.value))
                    if not self_ref:
                        ok = False
                        why = (f"'{t}' is overwritten in every loop iteration, so only "
                               f"the names collected in the last iteration survive")
            elif isinstance(s, ast.Expr) and isinstance(s.value, ast.Call) \
                    and isinstance(s.value.func, ast.Attribute) \
                    and s.value.func.attr in ("update", "add") \
                    and isinstance(s.value.func.value, ast.Name):
                ok = reaches_return(s.value.func.value.id)
                why = "updated set never reaches the return value"
            else:
                ok, why = False, "collected value is discarded"
            run.ob(rule, f, s, ok,
                   construct=f"{norm(c, 60)} in {norm(s, 90)}",
                   why=why or "flows to the return value")


def _only_collected(run, P, f, is_source, rule):
    """Names enter a read set through the dependency mapper only: every set
    built in the method is built from a collector's result (or is what is
    subtracted, or empty)."""
    subtracted = set()
    for x in ast.walk(f.node):
        if isinstance(x, ast.BinOp) and isinstance(x.op, ast.Sub):
            subtracted |= {id(y) for y in ast.walk(x.right)}
        if isinstance(x, ast.AugAssign) and isinstance(x.op, ast.Sub):
            subtracted |= {id(y) for y in ast.walk(x.value)}
    nested_nodes = {id(y) for g_ in f.nested.values() for y in ast.walk(g_.node)}
    odd = []
    n = 0
    for x in ast.walk(f.node):
        if id(x) in nested_nodes or id(x) in subtracted:
            continue
        built = None
        if isinstance(x, ast.Call) and dotted(x.func) in ("set", "frozenset") and x.args:
            built = x.args[0]
        elif isinstance(x, (ast.Set, ast.SetComp)):
            built = x
        if built is None:
            continue
        n += 1
        if any(is_source(y) for y in ast.walk(built)):
            continue
        if isinstance(built, (ast.List, ast.Tuple, ast.Set)) and not built.elts:
            continue
        odd.append(x)
    run.ob(rule, f, odd[0] if odd else f.node, not odd,
           construct=f"{f.qualname}: every set of names is built from a collector's result "
                     f"({n} set constructions)" + (f"; found {norm(odd[0], 60)}" if odd else ""),
           why="a shortcut that reads a name off the expression itself (a guard's .name, "
               "say) is right for a plain variable and wrong for everything else that has "
               "a .name: for the lookup 'z.imag' it declares a read of 'imag' and none of 'z'")


def _no_bypass(run, P, f, is_source, rule):
    """No return is reached on a path that by-passes a collection which the
    function's last return is always preceded by (an early exit taken for one
    operand must not skip the collection of another)."""
    from ..engine.cfg import CFG, walk_fragment, own_fragments
    g = CFG(f.node)
    rets = [n for n in g.nodes if n.kind == "stmt" and isinstance(n.ast, ast.Return)]
    if len(rets) < 1:
        return
    final = max(rets, key=lambda n: (n.ast.lineno, n.ast.col_offset))
    src_nodes = [n for n in g.nodes if n.ast is not None and any(
        is_source(x) for fr in own_fragments(n) for x in walk_fragment(fr))]
    # decision points guarding a collection: if/for heads whose body holds a source
    heads = []
    for n in g.nodes:
        if n.kind in ("test", "for") and n.label is not None or n.kind == "for":
            st = n.label if n.kind == "test" else n.ast
            body = getattr(st, "body", []) + getattr(st, "orelse", [])
            if any(is_source(x) for b in body for x in ast.walk(b)):
                heads.append(n)
    must = [n for n in src_nodes + heads if n is not final and not g.always_preceded([final], [n])]
    bad = []
    for r in rets:
        if r is final:
            continue
        for m in must:
            if m is r:
                continue
            if g.always_preceded([r], [m]):
                bad.append((r, m))
    run.ob(rule, f, bad[0][0].ast if bad else f.node, not bad,
           construct=f"{f.qualname}: no return by-passes a collection that the last return "
                     f"is always preceded by ({len(rets)} return(s), {len(must)} collection points)"
                     + (f"; early return skips: {norm(bad[0][1].ast, 60)}" if bad else ""),
           why="an early exit for one operand (a literal right-hand side, say) skips the "
               "collection of another (the subscript of the assignee): that operand's "
               "variables get no dependency edge")


def _arg_names(call):
    out = set()
    for a in call.args:
        out |= {x.id for x in ast.walk(a) if isinstance(x, ast.Name)}
    return out


def _skip_and_subtract(run, P, f, stmts, is_source, rule):
    """(a) inside a loop, a `continue` (or an enclosing if) whose test looks at
    one operand must not skip the collection of a different operand;
    (b) names are removed from the set only before anything from outside the
    binding field has been collected."""
    for lp in ast.walk(f.node):
        if not isinstance(lp, ast.For):
            continue
        targets = {x.id for x in ast.walk(lp.target) if isinstance(x, ast.Name)}
        guards = []
        for i, s_ in enumerate(lp.body):
            if isinstance(s_, ast.If) and any(isinstance(x, (ast.Continue, ast.Break))
                                              for x in ast.walk(s_)):
                tn = {x.id for x in ast.walk(s_.test) if isinstance(x, ast.Name)} & targets
                if tn:
                    guards.append((i, s_, tn))
        for i, g, tn in guards:
            for s_ in lp.body[i + 1:]:
                for c in [x for x in ast.walk(s_) if is_source(x)]:
                    an = _arg_names(c) & targets
                    if an and not (an <= tn):
                        run.ob(rule, f, g, False,
                               construct=f"'{norm(g.test, 50)}' skips the collection of "
                                         f"{norm(c, 50)}",
                               why=f"whether {sorted(an)} is collected depends on another "
                                   f"operand ({sorted(tn)}): its variables are silently "
                                   f"missing from the read set for some statements")
    # (b) subtraction order
    order = []
    for s_ in stmts:
        if isinstance(s_, (ast.FunctionDef, ast.ClassDef)):
            continue
        if isinstance(s_, ast.AugAssign) and isinstance(s_.op, ast.Sub):
            order.append(("sub", s_))
        elif any(is_source(x) for x in _own_walk(s_)):
            order.append(("collect", s_))
    bound_in = {"solve_variables": "expressions"}
    for i, (kind, node) in enumerate(order):
        if kind != "sub":
            continue
        src = ast.unparse(node.value)
        fld = [b for b in bound_in if b in src]
        if not fld:
            continue
        before = [n for k, n in order[:i] if k == "collect"]
        bad = [b for b in before
               if not any(isinstance(x, ast.Attribute) and x.attr == bound_in[fld[0]]
                          for x in ast.walk(b))]
        tgt = norm(node.value)
        run.ob(rule, f, node, not bad,
               construct=f"removal of {tgt} comes after {len(before)} collection(s), "
                         f"{len(bad)} of them from outside '{bound_in[fld[0]]}'",
               why=f"'{fld[0]}' are bound in '{bound_in[fld[0]]}' only: removing them after "
                   f"collecting other fields drops reads of the guard or of solver "
                   f"parameters that happen to have the same name")


def _own_walk(s):
    """Walk a statement without descending into nested statement bodies."""
    if isinstance(s, (ast.For, ast.AsyncFor)):
        roots = [s.iter]
    elif isinstance(s, (ast.While, ast.If)):
        roots = [s.test]
    elif isinstance(s, (ast.With, ast.AsyncWith)):
        roots = [it.context_expr for it in s.items]
    elif isinstance(s, ast.Try):
        roots = []
    else:
        roots = [s]
    for r in roots:
        for x in ast.walk(r):
            if isinstance(x, (ast.Lambda,)):
                continue
            yield x


def _descends(node, fn):
    if node is None:
        return False
    if isinstance(node, ast.Constant):
        return node.value == "descend_args"
    if isinstance(node, ast.Name):
        # parameter with default "descend_args"
        a = fn.node.args
        names = [x.arg for x in a.args]
        if node.id in names:
            i = names.index(node.id) - (len(names) - len(a.defaults))
            if i >= 0:
                d = a.defaults[i]
                return isinstance(d, ast.Constant) and d.value == "descend_args"
        return False
    if isinstance(node, ast.IfExp):
        # "descend_args" if not include_function_symbols else False
        b = node.body
        t = node.test
        default_false = True
        if isinstance(t, ast.UnaryOp) and isinstance(t.op, ast.Not) \
                and isinstance(t.operand, ast.Name):
            # test is `not flag`: default value of flag must be False
            a = fn.node.args
            names = [x.arg for x in a.args]
            if t.operand.id in names:
                i = names.index(t.operand.id) - (len(names) - len(a.defaults))
                default_false = i >= 0 and isinstance(a.defaults[i], ast.Constant) \
                    and a.defaults[i].value is False
            return isinstance(b, ast.Constant) and b.value == "descend_args" \
                and default_false
        if isinstance(t, ast.Name):
            o = node.orelse
            return isinstance(o, ast.Constant) and o.value == "descend_args"
    return False


def _ident(run, P, classes):
    for K in classes:
        D = sm.read_set(P, K)
        W = sm.written_set(P, K)
        M = sm.mapped(P, K)
        # every field map_expressions writes: those feeding the declared sets, and the
        # name lists bound inside them (solve variables, loop identifiers)
        heads = sorted({sm.head(p) for p in D | W} | set(M))
        for h in heads:
            if h not in M:
                run.ob("C08.ident", K, K.node, True,
                       construct=f"{K.name}.{h}: not written by map_expressions (unchanged)",
                       why="untouched field is trivially identity-invariant")
                continue
            rec = M[h]
            foreign = {p for p in rec["paths"] if sm.head(p) != h}
            rawf = {p for p in rec["raw"] if sm.head(p) != h}
            ok = not foreign and not rawf
            run.ob("C08.ident", rec["func"], rec["node"], ok,
                   construct=f"{K.name}: copy({h}={norm(rec['node'])})",
                   why=(f"field '{h}' is rebuilt from {sorted(foreign | rawf)}; mapping "
                        f"with the identity would change the read/write sets"))
        # positional shape of loops elements
        _loop_shape(run, P, K)
    run.do(_only_mapper, run, P, classes)


# callables that build or take apart containers / nodes without changing what an
# expression means; everything else applied on the way from mapper(...) to copy()
# post-processes the mapped value
_SHAPE_ONLY = {"tuple", "list", "dict", "set", "frozenset", "zip", "enumerate", "sorted",
               "isinstance", "all", "any", "len", "type", "super", "Variable", "var",
               "immutabledict", "getattr"}


def _only_mapper(run, P, classes):
    seen = set()
    for K in classes:
        for f in sm._chain(P, K, "map_expressions"):
            if f in seen:
                continue
            seen.add(f)
            mp = f.params[1] if len(f.params) > 1 else "mapper"
            odd = []
            for x in ast.walk(f.node):
                if not isinstance(x, ast.Call):
                    continue
                d = dotted(x.func)
                if d is None:
                    # call on a call result: super().map_expressions(...).copy(...)
                    if isinstance(x.func, ast.Attribute) and x.func.attr in ("copy", "map_expressions"):
                        continue
                    odd.append(norm(x.func, 40))
                    continue
                last = d.rsplit(".", 1)[-1]
                if d == mp or d in _SHAPE_ONLY or last in ("items", "values", "keys", "copy",
                                                            "map_expressions", "as_expression"):
                    continue
                odd.append(d)
            run.ob("C08.ident", f, f.node, not odd,
                   construct=f"{f.qualname}: mapped values are passed on as the mapper returned "
                             f"them" + (f" (also applied: {sorted(set(odd))})" if odd else ""),
                   why="a field that is post-processed after mapping (flattened, simplified, "
                       "normalised) is changed by the identity mapping whenever that "
                       "processing is not idempotent on what the constructor stored: "
                       "pymbolic's flatten turns 0*k into 0, so the copy no longer reads k "
                       "while the original does")


def _loop_shape(run, P, K):
    """copy(loops=[(..0.., ..1.., ..2..) for a, b, c in self.loops]): element i
    must be derived from unpacked variable i."""
    for f in sm._chain(P, K, "map_expressions"):
        for n in ast.walk(f.node):
            if isinstance(n, ast.Call) and isinstance(n.func, ast.Attribute) \
                    and n.func.attr == "copy":
                for kw in n.keywords:
                    if kw.arg != "loops":
                        continue
                    v = kw.value
                    if not isinstance(v, (ast.ListComp, ast.GeneratorExp)) \
                            and not (isinstance(v, ast.Call) and v.args and
                                     isinstance(v.args[0], (ast.ListComp, ast.GeneratorExp))):
                        raise AnalysisError(
                            f"{f.fq}: loops= is not a comprehension; idiom not recognised")
                    comp = v if isinstance(v, (ast.ListComp, ast.GeneratorExp)) else v.args[0]
                    elt = comp.elt
                    if not isinstance(elt, ast.Tuple) or len(elt.elts) != 3:
                        raise AnalysisError(f"{f.fq}: loops element is not a 3-tuple")
                    # positions of generator target names
                    pos = {}
                    for g in comp.generators:
                        _target_positions(g.target, g.iter, pos)
                    for i, e in enumerate(elt.elts):
                        used = {x.id for x in ast.walk(e) if isinstance(x, ast.Name)
                                and x.id in pos}
                        bad = {u for u in used if pos[u] != i}
                        # position 0 may come from a precomputed, zipped list
                        ok = not bad and (bool(used) or i == 0)
                        run.ob("C08.ident", f, e, ok,
                               construct=f"{K.name}: loops element position {i} = {norm(e)}",
                               why=f"loop tuple position {i} is rebuilt from position "
                                   f"{sorted(pos[u] for u in bad)} of the old tuple")


def _target_positions(target, it, pos):
    """for a, b, c in self.loops  /  for new, (a, b, c) in zip(idents, self.loops)"""
    if isinstance(target, ast.Tuple):
        is_zip = isinstance(it, ast.Call) and dotted(it.func) == "zip"
        if is_zip:
            for sub_t, sub_it in zip(target.elts, it.args):
                if "loops" in ast.unparse(sub_it) and isinstance(sub_t, ast.Tuple):
                    for i, e in enumerate(sub_t.elts):
                        if isinstance(e, ast.Name):
                            pos[e.id] = i
                elif isinstance(sub_t, ast.Name):
                    # a name from a parallel list of identifiers -> position 0
                    pos[sub_t.id] = 0
        else:
            for i, e in enumerate(target.elts):
                if isinstance(e, ast.Name):
                    pos[e.id] = i


def check(run, P):
    run.do(_check_main, run, P)
    from . import generic
    generic.lints(run, P, "C08")
