"""C08 - declared read/write sets cover what a statement really touches.

Sibling agreement between the interpreter's ``exec_*`` methods and the
``get_read_variables`` / ``get_written_variables`` / ``map_expressions``
methods of the statement classes.
"""

from __future__ import annotations

import ast

from ..engine.match import dotted, kwarg, norm
from ..engine.srcmodel import AnalysisError, Func
from . import stmtmodel as sm

EXPLANATION = (
    "Static sibling-agreement analysis (ast provenance/def-use over the real "
    "C3 MRO). Decides: (reads) every attribute path of a statement that the "
    "interpreter hands to its evaluator in evaluate_condition()/exec_K() is "
    "among the paths from which K.get_read_variables() collects names or "
    "names a written variable; (writes) every key of the interpreter's "
    "variable store touched by exec_K() is named by get_written_variables() "
    "or is a loop identifier; (mapper) the dependency mappers used for the "
    "sets descend into call arguments and both parts of a subscript and "
    "tolerate None/str leaves; (ident) every path feeding the declared sets "
    "is either untouched by map_expressions() or rebuilt from the mapped "
    "value of the same path. Does not decide: the values computed, or reads "
    "performed inside user functions.")

ASSUMPTIONS = [
    "the interpreter reads variables only through self.eval_mapper(...) and self.context[...]",
    "pymbolic's CombineMapper handlers visit every child of the nodes they handle (read from source for call/subscript only)",
    "attribute paths are compared after expanding @property aliases of the statement class",
]


def check(run, P):
    classes = sm.statement_classes(P)

    run.rule("C08.reads",
             "E(K) subset of D(K) u W(K): each attribute path the interpreter "
             "evaluates for kind K is collected by K.get_read_variables() "
             "(or names a written variable)", minimum=8)
    run.rule("C08.writes",
             "every variable-store key touched in exec_K is named by "
             "get_written_variables() (loop identifiers aside)", minimum=4)
    run.rule("C08.mapper",
             "dependency mapper configuration descends into call arguments and "
             "subscripts; foreign None/str leaves give the empty set", minimum=6)
    run.rule("C08.ident",
             "every field feeding the declared sets is either untouched by "
             "map_expressions or rebuilt from mapper(<same path>)", minimum=8)

    interp = P.cls(sm.INTERP)

    for K in classes:
        mname = sm.exec_method_name(P, K)
        f_exec = P.method(interp, mname)
        if f_exec is None:
            # C01.handlers reports a missing handler; nothing to compare here
            continue
        evals, stores = sm.exec_paths(P, K)
        D = sm.read_set(P, K)
        W = sm.written_set(P, K)
        for fn, call, paths in evals:
            if not paths:
                # evaluator applied to something that is not derived from the
                # statement (constant, local value)
                run.ob("C08.reads", fn, call, True,
                       why=f"{K.name}: evaluated expression is not a statement field")
                continue
            for p in sorted(paths):
                ok = sm.covered(p, D)
                run.ob("C08.reads", fn, call, ok,
                       construct=f"{K.name}: evaluates stmt.{p} in {norm(call)}",
                       why=(f"interpreter evaluates stmt.{p} for {K.name} but "
                            f"{K.name}.get_read_variables() collects names only from "
                            f"{sorted(D)}; a variable occurring only there gets no "
                            f"dependency edge"),
                       detail=f"D={sorted(D)} W={sorted(W)}")
        for fn, node, paths, ctx in stores:
            if not paths:
                continue
            for p in sorted(paths):
                is_loop_ident = p.startswith("loops[*][0]")
                ok = p in W or is_loop_ident
                run.ob("C08.writes", fn, node, ok,
                       construct=f"{K.name}: self.context[stmt.{p}] ({ctx})",
                       why=(f"exec method touches store key stmt.{p} which "
                            f"{K.name}.get_written_variables() does not name "
                            f"({sorted(W)})"))

    _mapper_config(run, P)
    _ident(run, P, classes)


def _mapper_config(run, P):
    # (1) Statement.get_dependency_mapper and utils.get_variables construct the
    # mapper with include_subscripts=False and include_calls="descend_args"
    sites = []
    f = P.func("dagrt.language.Statement.get_dependency_mapper")
    sites.append((f, None))
    g = P.func("dagrt.utils.get_variables")
    sites.append((g, None))
    for fn, _ in sites:
        ctor_calls = []
        args_dict = {}
        for n in ast.walk(fn.node):
            if isinstance(n, ast.Assign) and isinstance(n.value, ast.Dict):
                for k, v in zip(n.value.keys, n.value.values):
                    if isinstance(k, ast.Constant):
                        args_dict[k.value] = v
            if isinstance(n, ast.Call):
                tgt = P.resolve_expr(fn, n.func)
                if tgt is not None and getattr(tgt, "name", "") in (
                        "ExtendedDependencyMapper", "DependencyMapper"):
                    ctor_calls.append(n)
        if not ctor_calls:
            raise AnalysisError(f"{fn.fq}: no dependency mapper constructor call")
        for c in ctor_calls:
            def get(name):
                v = kwarg(c, name)
                if v is None and any(k.arg is None for k in c.keywords):
                    v = args_dict.get(name)
                return v
            sub = get("include_subscripts")
            ok = isinstance(sub, ast.Constant) and sub.value is False
            run.ob("C08.mapper", fn, c, ok,
                   construct=f"include_subscripts={norm(sub) if sub else 'default'}",
                   why="with include_subscripts true the mapper returns the "
                       "subscript node itself and the index variables are lost")
            calls = get("include_calls")
            ok = _descends(calls, fn)
            run.ob("C08.mapper", fn, c, ok,
                   construct=f"include_calls={norm(calls) if calls else 'default'}",
                   why="the default configuration must descend into call "
                       "arguments ('descend_args'), else variables passed to "
                       "functions are missing from the read set")

    # (2) pymbolic facts, read from source
    dm = P.cls("pymbolic.mapper.dependency.DependencyMapper")
    mc = dm.methods.get("map_call")
    ok = False
    if mc is not None:
        for n in ast.walk(mc.node):
            if isinstance(n, ast.If) and "descend_args" in ast.unparse(n.test):
                body_src = " ".join(ast.unparse(s) for s in n.body)
                ok = "self.rec" in body_src and "parameters" in body_src
    run.ob("C08.mapper", dm, mc.node if mc else dm.node, ok,
           construct="DependencyMapper.map_call descend_args branch",
           why="trusted base: 'descend_args' must recurse into expr.parameters")
    ms = dm.methods.get("map_subscript")
    ok = False
    if ms is not None:
        src = ast.unparse(ms.node)
        ok = "include_subscripts" in src and "super().map_subscript" in src
    cm = P.cls("pymbolic.mapper.CombineMapper").methods.get("map_subscript")
    if cm is not None:
        src = ast.unparse(cm.node)
        ok = ok and "aggregate" in src and "index" in src
    run.ob("C08.mapper", dm, ms.node if ms else dm.node, ok,
           construct="DependencyMapper.map_subscript -> CombineMapper.map_subscript",
           why="trusted base: without include_subscripts both aggregate and "
               "index are visited")

    # (3) ExtendedDependencyMapper.map_foreign
    ed = P.func("dagrt.expression.ExtendedDependencyMapper.map_foreign")
    ok = False
    for n in ast.walk(ed.node):
        if isinstance(n, ast.If):
            t = ast.unparse(n.test)
            if "is None" in t and "str" in t:
                rets = [s for s in n.body if isinstance(s, ast.Return)]
                if rets and isinstance(rets[0].value, ast.Call) and \
                        dotted(rets[0].value.func) in ("frozenset", "set") and \
                        not rets[0].value.args:
                    other = [s for s in n.orelse if isinstance(s, ast.Return)]
                    if other and "super().map_foreign" in ast.unparse(other[0]):
                        ok = True
    run.ob("C08.mapper", ed, ed.node, ok,
           construct="map_foreign: None/str -> frozenset(), else super()",
           why="time/None leaves of YieldState and string constants must not "
               "raise or contribute names")


def _descends(node, fn):
    if node is None:
        return False
    if isinstance(node, ast.Constant):
        return node.value == "descend_args"
    if isinstance(node, ast.Name):
        # parameter with default "descend_args"
        a = fn.node.args
        names = [x.arg for x in a.args]
        if node.id in names:
            i = names.index(node.id) - (len(names) - len(a.defaults))
            if i >= 0:
                d = a.defaults[i]
                return isinstance(d, ast.Constant) and d.value == "descend_args"
        return False
    if isinstance(node, ast.IfExp):
        # "descend_args" if not include_function_symbols else False
        b = node.body
        t = node.test
        default_false = True
        if isinstance(t, ast.UnaryOp) and isinstance(t.op, ast.Not) \
                and isinstance(t.operand, ast.Name):
            # test is `not flag`: default value of flag must be False
            a = fn.node.args
            names = [x.arg for x in a.args]
            if t.operand.id in names:
                i = names.index(t.operand.id) - (len(names) - len(a.defaults))
                default_false = i >= 0 and isinstance(a.defaults[i], ast.Constant) \
                    and a.defaults[i].value is False
            return isinstance(b, ast.Constant) and b.value == "descend_args" \
                and default_false
        if isinstance(t, ast.Name):
            o = node.orelse
            return isinstance(o, ast.Constant) and o.value == "descend_args"
    return False


def _ident(run, P, classes):
    for K in classes:
        D = sm.read_set(P, K)
        W = sm.written_set(P, K)
        M = sm.mapped(P, K)
        heads = sorted({sm.head(p) for p in D | W})
        for h in heads:
            if h not in M:
                run.ob("C08.ident", K, K.node, True,
                       construct=f"{K.name}.{h}: not written by map_expressions (unchanged)",
                       why="untouched field is trivially identity-invariant")
                continue
            rec = M[h]
            foreign = {p for p in rec["paths"] if sm.head(p) != h}
            rawf = {p for p in rec["raw"] if sm.head(p) != h}
            ok = not foreign and not rawf
            run.ob("C08.ident", rec["func"], rec["node"], ok,
                   construct=f"{K.name}: copy({h}={norm(rec['node'])})",
                   why=(f"field '{h}' is rebuilt from {sorted(foreign | rawf)}; mapping "
                        f"with the identity would change the read/write sets"))
        # positional shape of loops elements
        _loop_shape(run, P, K)


def _loop_shape(run, P, K):
    """copy(loops=[(..0.., ..1.., ..2..) for a, b, c in self.loops]): element i
    must be derived from unpacked variable i."""
    for f in sm._chain(P, K, "map_expressions"):
        for n in ast.walk(f.node):
            if isinstance(n, ast.Call) and isinstance(n.func, ast.Attribute) \
                    and n.func.attr == "copy":
                for kw in n.keywords:
                    if kw.arg != "loops":
                        continue
                    v = kw.value
                    if not isinstance(v, (ast.ListComp, ast.GeneratorExp)) \
                            and not (isinstance(v, ast.Call) and v.args and
                                     isinstance(v.args[0], (ast.ListComp, ast.GeneratorExp))):
                        raise AnalysisError(
                            f"{f.fq}: loops= is not a comprehension; idiom not recognised")
                    comp = v if isinstance(v, (ast.ListComp, ast.GeneratorExp)) else v.args[0]
                    elt = comp.elt
                    if not isinstance(elt, ast.Tuple) or len(elt.elts) != 3:
                        raise AnalysisError(f"{f.fq}: loops element is not a 3-tuple")
                    # positions of generator target names
                    pos = {}
                    for g in comp.generators:
                        _target_positions(g.target, g.iter, pos)
                    for i, e in enumerate(elt.elts):
                        used = {x.id for x in ast.walk(e) if isinstance(x, ast.Name)
                                and x.id in pos}
                        bad = {u for u in used if pos[u] != i}
                        # position 0 may come from a precomputed, zipped list
                        ok = not bad and (bool(used) or i == 0)
                        run.ob("C08.ident", f, e, ok,
                               construct=f"{K.name}: loops element position {i} = {norm(e)}",
                               why=f"loop tuple position {i} is rebuilt from position "
                                   f"{sorted(pos[u] for u in bad)} of the old tuple")


def _target_positions(target, it, pos):
    """for a, b, c in self.loops  /  for new, (a, b, c) in zip(idents, self.loops)"""
    if isinstance(target, ast.Tuple):
        is_zip = isinstance(it, ast.Call) and dotted(it.func) == "zip"
        if is_zip:
            for sub_t, sub_it in zip(target.elts, it.args):
                if "loops" in ast.unparse(sub_it) and isinstance(sub_t, ast.Tuple):
                    for i, e in enumerate(sub_t.elts):
                        if isinstance(e, ast.Name):
                            pos[e.id] = i
                elif isinstance(sub_t, ast.Name):
                    # a name from a parallel list of identifiers -> position 0
                    pos[sub_t.id] = 0
        else:
            for i, e in enumerate(target.elts):
                if isinstance(e, ast.Name):
                    pos[e.id] = i
