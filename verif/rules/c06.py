"""C06 - control-flow simplification never changes which statements run, or
their order."""

from __future__ import annotations

import ast
import re

from ..engine.cfg import CFG, forward, own_fragments, walk_fragment
from ..engine.match import dotted, norm, func_body_stmts
from ..engine.srcmodel import AnalysisError

EXPLANATION = (
    "Path-sensitive dataflow over sets of worlds plus guarded-operation, "
    "ownership and work-list rules over the simplifier passes of "
    "dagrt/codegen/dag_ast.py. Decides: for every conditional / loop / block "
    "handler of the identity, normalising, merge and null-dropping pass, in "
    "every combination of (condition = a flag under 0-3 negations or a "
    "constant) x (each child null before / after simplification, or a "
    "conditional on the same / another flag), that the returned tree runs "
    "exactly the children the node ran under every valuation - negation "
    "parity, constant selection, same-condition collapse, polarity of a "
    "dropped arm - that children went through self.rec, and that the last "
    "pass leaves no NullASTNode where lower_node would meet it (helpers of "
    "the repository are followed into); in the merge pass's block handler: "
    "every sequence pushed onto the consuming end of the work-list is "
    "reversed, the work-list is consumed from one end, every pop/peek is "
    "preceded by a non-emptiness guard on every path (forward dataflow on "
    "the CFG), the loops end only when the list is empty, no popped child is "
    "dropped (ownership dataflow) and output is built by append only, "
    "adjacent conditionals are merged only under equal conditions, arm with "
    "arm, earlier first, nothing else is fused; every identity-mapper handler "
    "rebuilds a node with each constructor slot fed from the same slot; "
    "simplify_ast is applied only to the tree the lowering builds. Does not "
    "decide: trace equivalence of the merge pass's block handler for every "
    "tree (would need execution); soundness of merging relies on the "
    "single-definition rule for flags (C10).")

ASSUMPTIONS = [
    "deque.extendleft(it) inserts the items of it in reverse order; popleft/pop/[0] raise on an empty deque",
    "constructor slot order of AST node classes is the order of their __init__ parameters",
]

MOD = "dagrt.codegen.dag_ast"


def _check_main(run, P):
    run.rule("C06.splice", "a sequence pushed on the consuming (left) end of a "
             "work-list deque is passed through reversed()", minimum=1)
    run.rule("C06.pop", "every pop/peek on a work-list deque is dominated on every "
             "path by a non-emptiness guard with no intervening removal", minimum=3)
    run.rule("C06.keep", "work-list loop: every popped child is skipped as null, "
             "pushed back, merged into the current child, or becomes the current "
             "child after the old one was appended; output grows by append only",
             minimum=3)
    run.rule("C06.lost", "work-list passes: a node taken from the queue is, on every "
             "path, appended to the output, merged, expanded or handed on before its "
             "variable is re-bound or the function returns - unless it is known to be "
             "a NullASTNode (and nothing else) on that path", minimum=2)
    run.rule("C06.merge", "adjacent conditionals are merged only under equal "
             "conditions, then-with-then and else-with-else, earlier first", minimum=3)
    run.rule("C06.post", "null-dropping pass, in every combination of children that are / "
             "become NullASTNodes (path-sensitive dataflow over sets of worlds): each handler "
             "returns a tree that runs exactly the simplified children that are not null, each "
             "under the guard it had (then: the condition, else: LogicalNot of it, loop body: "
             "the same loop header); no NullASTNode is left where lower_node would meet it; "
             "node classes without a handler cannot reach the pass", minimum=5)
    run.rule("C06.pre", "normalising pass: every handler of its own returns a node of "
             "another class that runs the simplified children under their guards "
             "(IfThen(c, b) becomes IfThenElse(c, b, null))", minimum=1)
    run.rule("C06.identity", "identity-mapper handlers rebuild each node with every "
             "constructor slot fed from the same slot of the old node", minimum=8)
    run.rule("C06.flat", "flat_Block keeps the order of its arguments and of the "
             "children of nested blocks", minimum=1)

    run.rule("C06.ends", "a work-list is consumed from one end only", minimum=1)
    run.rule("C06.handlers", "conditional / loop / block handlers of the identity, the "
             "normalising and the merge pass, same dataflow as C06.post, with the condition "
             "ranging over a flag under 0 - 3 negations and the constants, and each simplified "
             "child over null / any node / a conditional on the same flag / on another flag: "
             "the returned tree runs the same children under the same valuations (negation "
             "parity, constant selection, same-condition collapse); helpers of the repository "
             "are followed into", minimum=6)
    run.rule("C06.flagrule", "the single-definition rule for condition flags, which "
             "makes merging sound, is applied to every phase and counts writer "
             "statements (shared with C10.calls / C10.flag)", minimum=8)
    from . import c10
    c10.calls(run, P, "C06.flagrule")
    c10.flag(run, P, "C06.flagrule")
    run.do(simplify_callers, run, P, "C06.flagrule")

    m = P.module(MOD)
    run.do(_splice_and_pop, run, P, m)
    run.do(_keep, run, P)
    run.do(_lost, run, P)
    run.do(_merge, run, P)
    run.do(_handlers, run, P)
    run.do(_identity, run, P)
    run.do(_inner_mappers, run, P)
    run.do(_flat, run, P)


def simplify_callers(run, P, rule):
    """Merging by the text of guards is sound for the trees the lowering builds
    (guards are flags assigned once, C10); nothing else may feed the simplifier."""
    sites = []
    for m in P.repo_modules():
        for f in m.functions.values():
            for x in ast.walk(f.node):
                if isinstance(x, ast.Call) and (dotted(x.func) or "").split(".")[-1] == "simplify_ast" \
                        and f.name != "simplify_ast":
                    if not any(x is y for g_ in f.nested.values() for y in ast.walk(g_.node)):
                        sites.append((f, x))
    if not sites:
        raise AnalysisError("simplify_ast has no caller")
    for f, x in sites:
        run.ob(rule, f, x, f.fq == f"{MOD}.create_ast_from_phase",
               construct=f"simplify_ast is applied in {f.qualname}",
               why="applied to the output of a rewriting pass (or to any tree whose guards "
                   "are arbitrary conditions) it fuses neighbours with equal guards although "
                   "the first writes a variable the guard reads: 'x <- x-5 if x>0; y <- f(y) "
                   "if x>0' runs the second statement with the stale test")


# {{{ deque rules

def _deque_vars(fnode):
    out = set()
    for s in ast.walk(fnode):
        if isinstance(s, ast.Assign) and isinstance(s.value, ast.Call) \
                and dotted(s.value.func) in ("deque", "collections.deque"):
            for t in s.targets:
                if isinstance(t, ast.Name):
                    out.add(t.id)
    return out


def _list_vars(fnode):
    """Local lists (built empty or by a comprehension) that are indexed or popped."""
    built = set()
    for s in ast.walk(fnode):
        if isinstance(s, ast.Assign) and (
                isinstance(s.value, (ast.List, ast.ListComp))
                or (isinstance(s.value, ast.Call) and dotted(s.value.func) == "list")):
            for t in s.targets:
                if isinstance(t, ast.Name):
                    built.add(t.id)
    used = set()
    for x in ast.walk(fnode):
        if isinstance(x, ast.Subscript) and isinstance(x.value, ast.Name) and x.value.id in built \
                and isinstance(x.ctx, ast.Load) and not isinstance(x.slice, ast.Slice):
            used.add(x.value.id)
        if isinstance(x, ast.Call) and isinstance(x.func, ast.Attribute) and x.func.attr == "pop" \
                and isinstance(x.func.value, ast.Name) and x.func.value.id in built:
            used.add(x.func.value.id)
    return used


def _splice_and_pop(run, P, m):
    n_deque_funcs = 0
    for f in m.functions.values():
        if f.cls is not None and f.cls.name in ("ASTPreSimplifyMapper", "ASTSimplifyMapper",
                                                "ASTPostSimplifyMapper") and f.parent is None:
            lists = _list_vars(f.node) - _deque_vars(f.node)
            if lists:
                _pop_guard(run, f, lists)
        dq = _deque_vars(f.node)
        if not dq:
            continue
        n_deque_funcs += 1
        # which end is consumed?
        ends = {}
        for x in ast.walk(f.node):
            if isinstance(x, ast.Call) and isinstance(x.func, ast.Attribute) \
                    and isinstance(x.func.value, ast.Name) and x.func.value.id in dq:
                if x.func.attr == "popleft":
                    ends.setdefault(x.func.value.id, set()).add("left")
                elif x.func.attr == "pop":
                    ends.setdefault(x.func.value.id, set()).add("right")
        for x in ast.walk(f.node):
            if not (isinstance(x, ast.Call) and isinstance(x.func, ast.Attribute)
                    and isinstance(x.func.value, ast.Name) and x.func.value.id in dq):
                continue
            q = x.func.value.id
            if x.func.attr == "extendleft" and "left" in ends.get(q, ()):
                a = x.args[0] if x.args else None
                ok = isinstance(a, ast.Call) and dotted(a.func) == "reversed"
                ok = ok or (isinstance(a, (ast.List, ast.Tuple)) and len(a.elts) <= 1)
                run.ob("C06.splice", f, x, ok,
                       why="deque.extendleft() inserts in reverse, so the children "
                           "of an expanded inner block would be visited last to first")
            if x.func.attr in ("extend", "append") and "left" in ends.get(q, ()) \
                    and "right" not in ends.get(q, ()):
                run.ob("C06.splice", f, x, False,
                       why="the work-list is consumed from the left: children put on "
                           "the right end are visited after all pending siblings, "
                           "which changes the order of the statements")
            if x.func.attr == "extend" and ends.get(q) == {"right"}:
                a = x.args[0] if x.args else None
                ok = isinstance(a, ast.Call) and dotted(a.func) == "reversed"
                run.ob("C06.splice", f, x, ok,
                       why="a stack consumed with pop() must be extended with the "
                           "reversed sequence to keep order")
        for q in sorted(dq):
            if q in ends:
                run.ob("C06.ends", f, f.node, len(ends[q]) == 1,
                       construct=f"work-list '{q}' is consumed from one end "
                                 f"({'/'.join(sorted(ends[q]))})",
                       why="taking one child from the other end moves the last statement "
                           "of a block in front of the others")
        _pop_guard(run, f, dq)
    if n_deque_funcs == 0:
        raise AnalysisError("no work-list deque found in dag_ast.py")


def _nonempty_test(test, q):
    """Returns 'T' / 'F': the branch label on which q is known non-empty."""
    if isinstance(test, ast.Name) and test.id == q:
        return "T"
    if isinstance(test, ast.UnaryOp) and isinstance(test.op, ast.Not):
        r = _nonempty_test(test.operand, q)
        return {"T": "F", "F": "T"}.get(r)
    if isinstance(test, ast.Call) and dotted(test.func) == "len" and test.args \
            and isinstance(test.args[0], ast.Name) and test.args[0].id == q:
        return "T"
    if isinstance(test, ast.Compare) and len(test.ops) == 1:
        l, r = test.left, test.comparators[0]
        if isinstance(l, ast.Call) and dotted(l.func) == "len" and l.args \
                and isinstance(l.args[0], ast.Name) and l.args[0].id == q \
                and isinstance(r, ast.Constant):
            op = test.ops[0]
            if not isinstance(r.value, int) or isinstance(r.value, bool):
                return None
            if isinstance(op, ast.Gt) and r.value >= 0:
                return "T"
            if isinstance(op, ast.GtE) and r.value >= 1:
                return "T"
            if isinstance(op, ast.NotEq) and r.value == 0:
                return "T"
            if isinstance(op, ast.Eq) and r.value >= 1:
                return "T"
            if isinstance(op, ast.Eq) and r.value == 0:
                return "F"
            if isinstance(op, ast.Lt) and r.value <= 1:
                return "F"
            if isinstance(op, ast.LtE) and r.value <= 0:
                return "F"
    return None


def _pop_guard(run, f, dq):
    g = CFG(f.node)
    for q in sorted(dq):
        def removes(n):
            for fr in own_fragments(n):
                for x in walk_fragment(fr):
                    if isinstance(x, ast.Call) and isinstance(x.func, ast.Attribute) \
                            and isinstance(x.func.value, ast.Name) and x.func.value.id == q \
                            and x.func.attr in ("pop", "popleft", "clear", "remove"):
                        return True
            return False

        def needs(n):
            out = []
            for fr in own_fragments(n):
                for x in walk_fragment(fr):
                    if isinstance(x, ast.Call) and isinstance(x.func, ast.Attribute) \
                            and isinstance(x.func.value, ast.Name) and x.func.value.id == q \
                            and x.func.attr in ("pop", "popleft"):
                        out.append(x)
                    if isinstance(x, ast.Subscript) and isinstance(x.value, ast.Name) \
                            and x.value.id == q and isinstance(x.ctx, ast.Load) \
                            and not isinstance(x.slice, ast.Slice):
                        out.append(x)
            return out

        def adds(n):
            for fr in own_fragments(n):
                for x in walk_fragment(fr):
                    if isinstance(x, ast.Call) and isinstance(x.func, ast.Attribute) \
                            and isinstance(x.func.value, ast.Name) and x.func.value.id == q \
                            and x.func.attr in ("append", "appendleft"):
                        return True
            return False

        def rebinds(n):
            a = n.ast
            return n.kind == "stmt" and isinstance(a, ast.Assign) and any(
                isinstance(t, ast.Name) and t.id == q for t in a.targets)

        # state: True = known non-empty, False = unknown
        def transfer(n, st):
            if rebinds(n) or removes(n):
                st = False
            if adds(n):
                st = True
            return st

        def edge(n, lab, st):
            if n.kind == "test":
                want = _nonempty_test(n.ast, q)
                if want is not None and lab == want:
                    return True
            return st

        ins = forward(g, False, transfer, edge, meet=lambda a, b: a and b, top=None)
        for n in g.nodes:
            if ins[n] is None:
                continue
            for x in needs(n):
                # a peek inside the test that is itself the guard is not guarded
                st = ins[n]
                # several removals in one node: only the first is covered
                run.ob("C06.pop", f, x, bool(st),
                       construct=f"{norm(x)} in {norm(n.ast, 80)}",
                       why=f"'{q}' can be empty here (e.g. a block whose children "
                           f"all vanish), so simplification raises IndexError "
                           f"instead of terminating")

# }}}


def _lost(run, P):
    """Ownership dataflow for nodes popped from a work-list deque."""
    from ..engine.cfg import forward
    f = P.func(f"{MOD}.ASTSimplifyMapper.map_Block")
    g = CFG(f.node)
    dq = _deque_vars(f.node)
    if not dq:
        raise AnalysisError("map_Block: no deque")
    FRESH, OK = 2, 0
    holders = set()
    for n in g.nodes:
        if n.kind == "stmt" and isinstance(n.ast, ast.Assign) and len(n.ast.targets) == 1 \
                and isinstance(n.ast.targets[0], ast.Name):
            v = n.ast.value
            if isinstance(v, ast.Call) and isinstance(v.func, ast.Attribute) \
                    and v.func.attr in ("popleft", "pop") and dotted(v.func.value) in dq:
                holders.add(n.ast.targets[0].id)
    # names that take over a held node:  cur = nxt
    changed = True
    while changed:
        changed = False
        for n in g.nodes:
            if n.kind == "stmt" and isinstance(n.ast, ast.Assign) and len(n.ast.targets) == 1 \
                    and isinstance(n.ast.targets[0], ast.Name) and isinstance(n.ast.value, ast.Name) \
                    and n.ast.value.id in holders and n.ast.targets[0].id not in holders:
                holders.add(n.ast.targets[0].id)
                changed = True
    if not holders:
        raise AnalysisError("map_Block: no variable holds a popped node")
    findings = []

    def uses(node, name):
        return any(isinstance(x, ast.Name) and x.id == name and isinstance(x.ctx, ast.Load)
                   for fr in own_fragments(node) for x in walk_fragment(fr))

    def transfer(n, st, record=False):
        st = dict(st)
        if n.kind == "stmt" and n.ast is not None:
            a = n.ast
            target = a.targets[0].id if isinstance(a, ast.Assign) and len(a.targets) == 1 \
                and isinstance(a.targets[0], ast.Name) else None
            # uses in a statement consume (append / merge / expand / return)
            for h in holders:
                if uses(n, h) and not (isinstance(a, ast.Assign) and isinstance(a.value, ast.Name)
                                       and a.value.id == h and target in holders):
                    st[h] = OK
            if isinstance(a, ast.Return):
                for h in holders:
                    if st.get(h, OK) == FRESH and record:
                        findings.append((n, h, "the function returns"))
            if target in holders:
                st.pop(("t", target), None)
                if st.get(target, OK) == FRESH and record:
                    findings.append((n, target, f"'{target}' is re-bound"))
                if isinstance(a.value, ast.Name) and a.value.id in holders:
                    st[target] = st.get(a.value.id, OK)     # ownership moves
                    st[a.value.id] = OK
                else:
                    st[target] = FRESH
        return st

    def edge(n, lab, st):
        if n.kind == "test" and isinstance(n.ast, ast.Call) and dotted(n.ast.func) == "isinstance" \
                and len(n.ast.args) == 2 and isinstance(n.ast.args[0], ast.Name) \
                and n.ast.args[0].id in holders and lab == "T" \
                and dotted(n.ast.args[1]) == "NullASTNode":
            st = dict(st)
            st[n.ast.args[0].id] = OK
        elif n.kind == "test" and isinstance(n.ast, ast.Call) and dotted(n.ast.func) == "isinstance" \
                and len(n.ast.args) == 2 and isinstance(n.ast.args[0], ast.Name) \
                and n.ast.args[0].id in holders and lab in ("T", "F"):
            # isinstance(x, (NullASTNode, Block)) ... not isinstance(x, Block): what is left is null
            h = n.ast.args[0].id
            tt = n.ast.args[1]
            names = {dotted(e_) for e_ in (tt.elts if isinstance(tt, ast.Tuple) else [tt])}
            st = dict(st)
            prior = st.get(("t", h))
            if lab == "T":
                st[("t", h)] = frozenset(names if prior is None else prior & names)
            elif prior is not None:
                st[("t", h)] = frozenset(prior - names)
            if st.get(("t", h)) == frozenset({"NullASTNode"}):
                st[h] = OK
        return st

    def meet(a, b):
        out = {}
        for k in set(a) | set(b):
            if isinstance(k, tuple):
                if k in a and k in b:
                    out[k] = a[k] | b[k]
            else:
                out[k] = max(a.get(k, OK), b.get(k, OK))
        return out

    ins = forward(g, {}, transfer, edge, meet=meet, top=None)
    for n in g.nodes:
        if ins[n] is not None:
            transfer(n, ins[n], record=True)
    # falling off the end
    for a, lab in g.pred[g.exit]:
        if lab == "fall" and ins.get(a) is not None:
            out = transfer(a, ins[a])
            for h in holders:
                if out.get(h, OK) == FRESH:
                    findings.append((a, h, "the function ends"))
    seen = set()
    for h in sorted(holders):
        bad = [(n, why) for n, hh, why in findings if hh == h]
        key = h
        if key in seen:
            continue
        seen.add(key)
        run.ob("C06.lost", f, bad[0][0].ast if bad else f.node, not bad,
               construct=f"node held in a work-list variable ({len(holders)} such variables; this one "
                         f"#{sorted(holders).index(h)}) is passed on before "
                         f"{bad[0][1] if bad else 'it is re-bound or the function returns'}",
               why="a node that is neither null nor passed on is dropped from the tree "
                   "together with every statement below it (a leading inner block, say, "
                   "when the queue runs empty)")


def _keep(run, P):
    f = P.func(f"{MOD}.ASTSimplifyMapper.map_Block")
    g = CFG(f.node)
    dq = _deque_vars(f.node)
    loops = [n for n in g.nodes if n.kind == "test" and isinstance(n.label, ast.While)
             and isinstance(n.ast, ast.Name) and n.ast.id in dq]
    if len(loops) != 1:
        raise AnalysisError("map_Block: main 'while <queue>:' loop not found")
    head = loops[0]
    q = head.ast.id
    loop = head.label
    pops = [n for n in g.nodes if n.kind == "stmt" and isinstance(n.ast, ast.Assign)
            and any(x is n.ast for b in loop.body for x in ast.walk(b))
            and isinstance(n.ast.value, ast.Call) and dotted(n.ast.value.func) == f"{q}.popleft"]
    if len(pops) != 1:
        raise AnalysisError("map_Block: 'next = queue.popleft()' in the loop not found")
    nxt = pops[0].ast.targets[0].id
    # current variable: assigned from popleft before the loop
    cur = None
    for s in func_body_stmts(f.node):
        if isinstance(s, ast.Assign) and isinstance(s.value, ast.Call) \
                and dotted(s.value.func) == f"{q}.popleft" \
                and not any(x is s for b in loop.body for x in ast.walk(b)) \
                and isinstance(s.targets[0], ast.Name):
            cur = s.targets[0].id
    if cur is None:
        raise AnalysisError("map_Block: current-child variable not found")
    # output list: the name appended with cur
    outs = {dotted(x.func.value) for x in ast.walk(f.node)
            if isinstance(x, ast.Call) and isinstance(x.func, ast.Attribute)
            and x.func.attr == "append" and x.args and isinstance(x.args[0], ast.Name)
            and x.args[0].id == cur}
    if len(outs) != 1:
        raise AnalysisError("map_Block: output list not identified")
    out = outs.pop()

    def in_loop(n):
        return n.ast is not None and any(x is (n.label if n.kind == "test" else n.ast)
                                         for b in loop.body for x in ast.walk(b))

    def is_disposal(n):
        a = n.ast
        if n.kind == "test":
            return False
        # pushed back
        for x in walk_fragment(a):
            if isinstance(x, ast.Call) and isinstance(x.func, ast.Attribute) \
                    and dotted(x.func.value) == q \
                    and x.func.attr in ("extendleft", "appendleft") \
                    and any(isinstance(y, ast.Name) and y.id == nxt for y in ast.walk(x)):
                return True
        # merged / becomes current
        if isinstance(a, ast.Assign) and any(isinstance(t, ast.Name) and t.id == cur
                                             for t in a.targets) \
                and any(isinstance(y, ast.Name) and y.id == nxt for y in ast.walk(a.value)):
            return True
        return False

    disposal = [n for n in g.nodes if in_loop(n) and is_disposal(n)]
    # null skip: the True branch of `isinstance(next, NullASTNode)`
    null_tests = [n for n in g.nodes if n.kind == "test" and in_loop(n)
                  and isinstance(n.ast, ast.Call) and dotted(n.ast.func) == "isinstance"
                  and isinstance(n.ast.args[0], ast.Name) and n.ast.args[0].id == nxt
                  and "NullASTNode" in ast.unparse(n.ast.args[1])]
    avoid = set(disposal) | {head}
    # walk from the pop to the loop head; paths through the T edge of a null
    # test are fine
    reach_bad = False
    stack = [pops[0]]
    seen = set()
    bad_path_end = None
    while stack:
        n = stack.pop()
        if n in seen:
            continue
        seen.add(n)
        for t, lab in g.succ[n]:
            if lab in ("exc", "raise", "reraise"):
                continue
            if n in null_tests and lab == "T":
                continue
            if t in disposal:
                continue
            if t is head or t is g.exit:
                reach_bad = True
                bad_path_end = n
                continue
            stack.append(t)
    # ... and disposes of it once: after a disposal no second one before the next iteration
    twice = None
    for d0 in disposal:
        stack2 = [t for t, lab in g.succ[d0] if lab not in ("exc", "raise", "reraise")]
        seen2 = set()
        while stack2:
            n2 = stack2.pop()
            if n2 in seen2 or n2 is head or n2 is g.exit:
                continue
            seen2.add(n2)
            if n2 in disposal and n2 is not d0:
                twice = (d0, n2)
                break
            stack2.extend(t for t, lab in g.succ[n2] if lab not in ("exc", "raise", "reraise"))
        if twice:
            break
    run.ob("C06.keep", f, twice[1].ast if twice else pops[0].ast, twice is None,
           construct=f"no path disposes of '{nxt}' twice"
                     + (f" ({norm(twice[0].ast, 40)} and then {norm(twice[1].ast, 40)})" if twice else ""),
           why="a child that is pushed back (its children spliced into the work-list) and also "
               "kept runs its statements twice")
    # the loop that skips leading null children re-binds what it tests on every path
    for wl in [n_ for n_ in ast.walk(f.node) if isinstance(n_, ast.While)
               and isinstance(n_.test, ast.Call) and dotted(n_.test.func) == "isinstance"
               and n_.test.args and isinstance(n_.test.args[0], ast.Name)]:
        v_ = wl.test.args[0].id
        hd = g.node_of(wl)
        rebinds = [n_ for n_ in g.nodes if n_.kind == "stmt" and isinstance(n_.ast, ast.Assign)
                   and any(isinstance(t_, ast.Name) and t_.id == v_ for t_ in n_.ast.targets)
                   and any(n_.ast is y for b_ in wl.body for y in ast.walk(b_))]
        body_first = [t for t, lab in g.succ[hd] if lab == "T"]
        back = g.reachable(body_first, avoid=rebinds, follow_exc=False, include_start=True)
        run.ob("C06.keep", f, wl, bool(rebinds) and hd not in back,
               construct=f"while isinstance({v_}, ...): every path back to the test re-binds '{v_}'",
               why="a block whose first child is a null node would otherwise never leave the loop: "
                   "simplification does not terminate")
    run.ob("C06.keep", f, pops[0].ast, not reach_bad,
           construct=f"every path from '{norm(pops[0].ast)}' to the next iteration "
                     f"disposes of '{nxt}'",
           why="a child that is popped and neither kept, merged nor pushed back is "
               "lost from the simplified program",
           detail=f"path ends at L{bad_path_end.lineno}" if bad_path_end else "")
    # cur = next must be preceded by out.append(cur) since the last assignment of cur
    hand = [n for n in g.nodes if n.kind == "stmt" and isinstance(n.ast, ast.Assign)
            and in_loop(n) and isinstance(n.ast.value, ast.Name) and n.ast.value.id == nxt
            and any(isinstance(t, ast.Name) and t.id == cur for t in n.ast.targets)]
    apps = [n for n in g.nodes if n.kind == "stmt" and any(
        isinstance(x, ast.Call) and isinstance(x.func, ast.Attribute)
        and x.func.attr == "append" and dotted(x.func.value) == out and x.args
        and isinstance(x.args[0], ast.Name) and x.args[0].id == cur
        for x in walk_fragment(n.ast))]
    if not hand:
        raise AnalysisError("map_Block: 'current = next' hand-over not found")
    for h in hand:
        reach = g.reachable([pops[0]], avoid=apps, follow_exc=False)
        run.ob("C06.keep", f, h.ast, h not in reach,
               construct=f"{out}.append({cur}) before {norm(h.ast)}",
               why="replacing the current child without appending it drops it")
    # after the loop the last current child is appended
    after = g.reachable([head], avoid=apps + [n for n in g.nodes if in_loop(n)],
                        follow_exc=False)
    run.ob("C06.keep", f, loop, g.exit not in after,
           construct=f"{out}.append({cur}) after the loop on every path to a return",
           why="the last child would be lost")
    # the loops over the work-list end only when it is empty
    from .util import path_conditions
    wl_loops = [n_ for n_ in ast.walk(f.node) if isinstance(n_, (ast.While, ast.For))
                and any(isinstance(y, ast.Call) and isinstance(y.func, ast.Attribute)
                        and y.func.attr in ("popleft", "pop") and dotted(y.func.value) == q
                        for b in n_.body for y in ast.walk(b))]
    for lp_ in wl_loops:
        for x in _own_loop_exits(lp_):
            if isinstance(x, ast.Break):
                ok_ = False
            else:
                conds = path_conditions(f.node, x)
                ok_ = (q, False) in conds or (f"len({q})", False) in conds \
                    or (f"len({q}) == 0", True) in conds
            run.ob("C06.keep", f, x, ok_,
                   construct=f"{norm(x, 40)} leaves the loop over '{q}' only when it is empty",
                   why="children still in the work-list are dropped from the simplified program")
    # output grows by append only
    for x in ast.walk(f.node):
        if isinstance(x, ast.Call) and isinstance(x.func, ast.Attribute) \
                and dotted(x.func.value) == out \
                and x.func.attr in ("insert", "extend", "appendleft", "reverse", "sort"):
            run.ob("C06.keep", f, x, False,
                   why="the output list must be built in traversal order by append")


def _own_loop_exits(loop):
    """break statements that end *loop* and return statements inside it."""
    out = []

    def visit(node, inner):
        for c in ast.iter_child_nodes(node):
            if isinstance(c, (ast.FunctionDef, ast.AsyncFunctionDef, ast.Lambda, ast.ClassDef)):
                continue
            if isinstance(c, ast.Break) and not inner:
                out.append(c)
            elif isinstance(c, ast.Return):
                out.append(c)
            if isinstance(c, (ast.For, ast.While)):
                for b in c.body:
                    visit_stmt(b, True)
                for b in c.orelse:
                    visit_stmt(b, inner)
            else:
                visit(c, inner)

    def visit_stmt(st, inner):
        if isinstance(st, ast.Break) and not inner:
            out.append(st)
        elif isinstance(st, ast.Return):
            out.append(st)
        if isinstance(st, (ast.For, ast.While)):
            for b in st.body:
                visit_stmt(b, True)
            for b in st.orelse:
                visit_stmt(b, inner)
        elif not isinstance(st, (ast.FunctionDef, ast.AsyncFunctionDef, ast.ClassDef)):
            visit(st, inner)

    for b in loop.body:
        visit_stmt(b, False)
    return out


# {{{ IfThenElse rules

def _slot_pairs(P, clsname):
    """[(constructor parameter, attribute it is stored in)] - the attribute is the
    slot's name; a parameter that is not stored under a plain attribute keeps its own."""
    c = P.cls(f"{MOD}.{clsname}")
    init = c.methods.get("__init__")
    if init is None:
        return []
    stored = {}
    for s_ in ast.walk(init.node):
        if isinstance(s_, ast.Assign) and len(s_.targets) == 1 \
                and isinstance(s_.targets[0], ast.Attribute) \
                and dotted(s_.targets[0].value) == "self" and isinstance(s_.value, ast.Name):
            stored.setdefault(s_.value.id, s_.targets[0].attr)
    a = init.node.args
    if a.vararg is not None:
        return [(a.vararg.arg, "*" + stored.get(a.vararg.arg, a.vararg.arg))]
    return [(x, stored.get(x, x)) for x in init.params if x != "self"]


def _slots(P, clsname):
    return [attr for _p, attr in _slot_pairs(P, clsname)]


def _ctor_args(P, call, clsname):
    """slot name -> arg node for a constructor call."""
    pairs = _slot_pairs(P, clsname)
    slots = [attr for _p, attr in pairs]
    by_param = dict(pairs)
    out = {}
    for i, a in enumerate(call.args):
        if i < len(slots):
            out[slots[i]] = a
    for kw in call.keywords:
        if kw.arg:
            out[by_param.get(kw.arg, kw.arg)] = kw.value
    return out


def _enclosing_if(root, target):
    best = None

    def visit(n, cur):
        nonlocal best
        if n is target:
            best = cur
            return
        for c in ast.iter_child_nodes(n):
            visit(c, n if isinstance(n, ast.If) and any(
                c is b or any(x is c for x in ast.walk(b)) for b in n.body) else cur)

    visit(root, None)
    return best


def _merge(run, P):
    f = P.func(f"{MOD}.ASTSimplifyMapper.map_Block")
    ctor = [x for x in ast.walk(f.node) if isinstance(x, ast.Call)
            and dotted(x.func) == "IfThenElse"]
    if len(ctor) != 1:
        raise AnalysisError("map_Block: one IfThenElse(...) merge constructor expected")
    c = ctor[0]
    assign = None
    for s in ast.walk(f.node):
        if isinstance(s, ast.Assign) and s.value is c:
            assign = s
    if assign is None or not isinstance(assign.targets[0], ast.Name):
        raise AnalysisError("map_Block: merge result must be assigned to the current child")
    cur = assign.targets[0].id
    slots = _ctor_args(P, c, "IfThenElse")
    # the other variable
    names = {x.value.id for x in ast.walk(c) if isinstance(x, ast.Attribute)
             and isinstance(x.value, ast.Name)}
    others = names - {cur}
    if len(others) != 1:
        raise AnalysisError("map_Block: merge operands not recognised")
    nxt = others.pop()
    parent = _enclosing_if(f.node, assign)
    t = ast.unparse(parent.test) if parent is not None else ""
    guard_ok = parent is not None and isinstance(parent.test, ast.BoolOp) \
        and isinstance(parent.test.op, ast.And) \
        and f"isinstance({cur}, IfThenElse)" in t and f"isinstance({nxt}, IfThenElse)" in t \
        and (f"{cur}.condition == {nxt}.condition" in t or f"{nxt}.condition == {cur}.condition" in t)
    run.ob("C06.merge", f, parent.test if parent is not None else assign, guard_ok,
           construct=f"merge guard: {t}",
           why="merging conditionals with different conditions changes which "
               "statements run")
    # no other merge: the current child is only ever replaced by the next child, or by
    # the merged conditional above
    others_ = [s_ for s_ in ast.walk(f.node) if isinstance(s_, ast.Assign)
               and any(isinstance(t_, ast.Name) and t_.id == cur for t_ in s_.targets)
               and s_ is not assign
               and not (isinstance(s_.value, ast.Name))
               and not (isinstance(s_.value, ast.Call) and isinstance(s_.value.func, ast.Attribute)
                        and s_.value.func.attr in ("popleft", "pop"))
               and not (isinstance(s_.value, ast.Call) and dotted(s_.value.func) == "next")]
    if others_:
        # another node built from two neighbours (two loops over one range fused, say):
        # legal exactly when the bodies do not depend on each other, which a predicate of
        # the repository has to establish - what that predicate admits is not decided here
        from .util import path_conditions
        for o_ in others_:
            conds = [t_ for t_, _pol in path_conditions(f.node, o_)]
            helper = []
            for t_ in conds:
                try:
                    tree_ = ast.parse(t_, mode="eval")
                except SyntaxError:
                    tree_ = None        # an abbreviated text: look at the words
                if tree_ is not None:
                    if any(isinstance(c_, ast.Call) and dotted(c_.func) not in ("isinstance", "len", "type")
                           for c_ in ast.walk(tree_)):
                        helper.append(t_)
                elif any(w_ not in ("isinstance", "len", "type")
                         for w_ in re.findall(r"([A-Za-z_][\w.]*)\(", t_)):
                    helper.append(t_)
            if helper:
                raise AnalysisError(f"ASTSimplifyMapper.map_Block: {norm(o_)[:50]} under "
                                    f"{helper[0][:50]}; not decided")
    run.ob("C06.merge", f, others_[0] if others_ else assign, not others_,
           construct="the only node built from two neighbours is the merged conditional"
                     + (f" (also: {norm(others_[0], 70)})" if others_ else ""),
           why="fusing other neighbours (two loops over the same range, say) interleaves "
               "the statements of the second with the iterations of the first: a "
               "statement then runs before iterations it depends on")
    cond = slots.get("condition")
    ok = isinstance(cond, ast.Attribute) and cond.attr == "condition" \
        and dotted(cond.value) in (cur, nxt)
    for attr in ("then", "else_"):
        a = slots.get(attr)
        good = isinstance(a, ast.Call) and len(a.args) == 2 and \
            dotted(a.args[0]) == f"{cur}.{attr}" and dotted(a.args[1]) == f"{nxt}.{attr}" \
            and dotted(a.func) == "flat_Block"
        run.ob("C06.merge", f, a if a is not None else c, good and ok,
               construct=f"{attr} slot = {norm(a) if a is not None else '?'}",
               why=f"the merged {attr} arm must run the earlier node's {attr} arm, "
                   f"then the later node's")

# }}}


def _handlers(run, P):
    from . import c06_post
    single, listy = c06_post.child_slots(P)
    node_classes = {c.name: c for c in P.subclasses(P.cls(f"{MOD}.ASTNode"), modules={MOD})}
    slots_of = {name: _slots(P, name) for name in node_classes}
    with_children = {name for name, sl in slots_of.items()
                     if any(x.lstrip("*") in single | listy for x in sl)}
    if len(with_children) < 4:
        raise AnalysisError(f"node classes with children: {sorted(with_children)}")
    passes = (("ASTIdentityMapper", False), ("ASTPreSimplifyMapper", False),
              ("ASTSimplifyMapper", False), ("ASTPostSimplifyMapper", True))
    for cname, last in passes:
        C = P.cls(f"{MOD}.{cname}")
        for name, f in sorted(C.methods.items()):
            top = name == "__call__"
            if not top and not (name.startswith("map_") and name[4:] in with_children):
                continue
            if top and any(isinstance(x, (ast.While, ast.For)) for x in ast.walk(f.node)):
                # the pass walks the tree by itself (an explicit stack instead of the
                # mapper's recursion): the handler analysis speaks about one node at a time
                raise AnalysisError(f"{cname}.__call__ re-implements the traversal; not read by "
                                    f"the handler analysis")
            if cname == "ASTSimplifyMapper" and (top or any(
                    x.lstrip("*") in listy for x in slots_of.get(name[4:], []))):
                continue      # the merge pass's map_Block is decided by C06.keep / lost / merge
            if any(isinstance(x, ast.Name) and x.id in ("LogicalAnd", "LogicalOr") for x in ast.walk(f.node)):
                # the handler looks inside the condition (a conjunction tested one operand at a
                # time): the analysis knows conditions as a flag under negations or a constant
                raise AnalysisError(f"{cname}.{name} takes conditions apart (LogicalAnd / LogicalOr); "
                                    f"not read by the handler analysis")
            found, n_ret, n_w, kinds = c06_post.analyse(P, f, name[4:] if not top else None, single, listy,
                                                 slots_of, top=top, want_nullfree=last)
            rule = "C06.post" if last else "C06.handlers"
            run.ob(rule, f, f.node, not found,
                   construct=f"{cname}.{name}: {n_ret} return(s) decided in {n_w} world(s)",
                   why=found[0][1] if found else "every return runs the children the node ran")
            seen = set()
            for node, what in found:
                if what in seen:
                    continue
                seen.add(what)
                run.ob(rule, f, node, False, construct=f"{cname}.{name}: {what}",
                       why="the simplified program does not run the statements of the original "
                           "(or code generation raises on a NullASTNode)")
            if cname == "ASTPreSimplifyMapper":
                own = name[4:]
                run.ob("C06.pre", f, f.node, not found and own not in kinds and "arm" not in kinds,
                       construct=f"{cname}.{name}: no {own} node is returned "
                                 f"(returns: {', '.join(sorted(kinds))})",
                       why=f"the later passes have no handler for {own}: one that survives keeps "
                           f"a NullASTNode body, or is not merged with its neighbours")
    # classes the last pass has no handler for must not reach it
    post = P.cls(f"{MOD}.ASTPostSimplifyMapper")
    simp = P.cls(f"{MOD}.ASTSimplifyMapper")
    for name in sorted(with_children):
        if f"map_{name}" in post.methods:
            continue
        pre = P.cls(f"{MOD}.ASTPreSimplifyMapper").methods.get(f"map_{name}")
        removed = pre is not None and not any(
            isinstance(x, ast.Call) and dotted(x.func) in (name, "type")
            for x in ast.walk(pre.node))
        rebuilt = [f.fq for f in simp.methods.values() for x in ast.walk(f.node)
                   if isinstance(x, ast.Call) and dotted(x.func) == name]
        run.ob("C06.post", post, None, removed and not rebuilt,
               construct=f"{name} has no handler in the last pass: the first pass rewrites it and "
                         f"the merge pass builds none",
               why=f"the inherited handler would keep {name}(c, NullASTNode())")


def _enclosing_test(root, target):
    """The test expression of the innermost if/elif whose *body* holds target."""
    best = None
    for n in ast.walk(root):
        if isinstance(n, ast.If) and any(b is target for b in n.body):
            best = n.test
    return best


def _inner_mappers(run, P):
    """A mapper that the simplifier passes apply to a subtree *while simplifying* meets
    every node class, NullASTNode included (the passes make them): it has a handler for
    each, or simplification dies on a tree it should have simplified."""
    m = P.module(MOD)
    node_classes = sorted(c.name for c in m.classes.values()
                          if "mapper_method" in getattr(c, "attrs", {}))
    if len(node_classes) < 5:
        raise AnalysisError("dag_ast: node classes (mapper_method) not found")
    n = 0
    for cname in ("ASTSimplifyMapper", "ASTPreSimplifyMapper", "ASTPostSimplifyMapper"):
        C = m.classes.get(cname)
        if C is None:
            continue
        for name, f in sorted(C.methods.items()):
            for x in ast.walk(f.node):
                # <Mapper>()(<tree>)
                if isinstance(x, ast.Call) and isinstance(x.func, ast.Call) \
                        and isinstance(x.func.func, ast.Name) and x.func.func.id in m.classes \
                        and not x.func.args:
                    K = m.classes[x.func.func.id]
                    missing = [nc for nc in node_classes
                               if P.method(K, "map_" + nc) is None
                               and P.method(K, m.classes[nc].attrs["mapper_method"].value
                                            if isinstance(m.classes[nc].attrs["mapper_method"], ast.Constant)
                                            else "map_" + nc) is None]
                    n += 1
                    run.ob("C06.handlers", f, x, not missing,
                           construct=f"{cname}.{name} applies {K.name}: it has a handler for every node "
                                     f"class" + (f" (missing: {missing})" if missing else ""),
                           why="a subtree that is looked at during simplification can hold any node, "
                               "NullASTNodes in particular: without a handler the pass raises on a "
                               "program it is meant to simplify")
    run.ob("C06.handlers", m, None, True,
           construct=f"simplifier passes: {n} inner mapper application(s) examined",
           why="scan summary")


def _identity(run, P):
    C = P.cls(f"{MOD}.ASTIdentityMapper")
    node_classes = {c.name: c for c in P.subclasses(P.cls(f"{MOD}.ASTNode"), modules={MOD})}
    n = 0
    for name, f in sorted(C.methods.items()):
        if not name.startswith("map_") or name[4:] not in node_classes:
            continue
        clsname = name[4:]
        slots = _slots(P, clsname)
        rets = [s for s in func_body_stmts(f.node) if isinstance(s, ast.Return)]
        if len(rets) != 1 or not isinstance(rets[0].value, ast.Call):
            raise AnalysisError(f"{f.fq}: single constructor return expected")
        call = rets[0].value
        fn = ast.unparse(call.func)
        if fn not in (f"type({f.arg(0)})", clsname):
            raise AnalysisError(f"{f.fq}: unrecognised constructor {fn}")
        if slots and slots[0].startswith("*"):
            # Block(*children)
            a = call.args[0] if call.args else None
            ok = isinstance(a, ast.Starred) and isinstance(a.value, (ast.ListComp, ast.GeneratorExp)) \
                and dotted(a.value.generators[0].iter) == f"{f.arg(0)}.{slots[0][1:]}" \
                and not a.value.generators[0].ifs \
                and isinstance(a.value.elt, ast.Call) and dotted(a.value.elt.func) == "self.rec"
            run.ob("C06.identity", f, call, ok,
                   construct=f"{clsname}: {norm(call)}",
                   why="children must be rebuilt in order, none dropped")
            n += 1
            continue
        args = _ctor_args(P, call, clsname)
        for sl in slots:
            a = args.get(sl)
            src = a.args[0] if isinstance(a, ast.Call) and dotted(a.func) == "self.rec" and a.args else a
            ok = isinstance(src, ast.Attribute) and src.attr == sl \
                and isinstance(src.value, ast.Name) and src.value.id == f.arg(0)
            run.ob("C06.identity", f, a if a is not None else call, ok,
                   construct=f"{clsname}.{sl} <- {norm(a) if a is not None else 'missing'}",
                   why=f"slot '{sl}' of the rebuilt node must come from slot '{sl}' "
                       f"of the old node; every pass inherits this handler")
            n += 1


def _flat(run, P):
    f = P.func(f"{MOD}.ASTSimplifyMapper.map_Block")
    fb = f.nested.get("flat_Block")
    if fb is None:
        raise AnalysisError("map_Block.flat_Block not found")
    va = fb.node.args.vararg
    ok = va is not None
    loops = [n for n in fb.node.body if isinstance(n, ast.For)]
    if ok and len(loops) == 1 and dotted(loops[0].iter) == va.arg \
            and isinstance(loops[0].target, ast.Name):
        from .util import find, has
        lp = loops[0]
        env = {"V_v": lp.target.id}
        ext = find("V_r.extend(V_v.children)", lp, env)
        ok = False
        if ext:
            env = ext[0][1]
            from .util import path_conditions as _pc
            exits = _own_loop_exits(lp)
            skips = [x for x in ast.walk(lp) if isinstance(x, ast.Continue)]
            skips_ok = all(any(v_ and "NullASTNode" in t_ and t_.startswith("isinstance(")
                               for t_, v_ in _pc(fb.node, x)) for x in skips)
            ok = has("V_r.append(V_v)", lp, env) and not exits and skips_ok \
                and not any(isinstance(x, ast.Call) and isinstance(x.func, ast.Attribute)
                            and x.func.attr in ("insert", "appendleft", "extendleft")
                            for x in ast.walk(lp)) \
                and not has("reversed(ANY)", lp)
            rets = [s_ for s_ in fb.node.body if isinstance(s_, ast.Return)]
            ok = ok and len(rets) == 1 and has("Block(*V_r)", rets[0], env)
    else:
        # the flattening is written in another way (a generator that splices, a helper):
        # in which order it yields is not read by this clause
        raise AnalysisError("flat_Block: not the loop over its arguments that extends / appends; "
                            "not recognised")
    run.ob("C06.flat", fb, fb.node, ok,
           construct="flat_Block(*nodes): in-order extend/append, Block(*result)",
           why="merged arms must run the earlier statements first")


def check(run, P):
    run.do(_check_main, run, P)
    from . import generic
    generic.lints(run, P, "C06")
