"""Facts about the statement classes of dagrt.language, extracted from source.

For every statement class K:

* ``read_paths(K)``     D(K): attribute paths from which get_read_variables()
                        collects variable names (real MRO, super() chains,
                        closures; a closure that ignores its parameter
                        contributes what its body really reads)
* ``written_names(K)``  W(K): attribute paths that name written variables
* ``exec_paths(K)``     E(K): attribute paths the interpreter hands to its
                        evaluator in evaluate_condition() and exec_K()
* ``store_names(K)``    paths naming the keys of the interpreter's variable
                        store touched by exec_K()
* ``mapped(K)``         per field written by map_expressions().copy(...): the
                        paths whose mapped value ends up in that field

All paths have property aliases expanded (``expression`` -> ``rhs`` ...).
"""

from __future__ import annotations

import ast

from ..engine import dataflow as df
from ..engine.match import dotted, norm
from ..engine.srcmodel import AnalysisError, Class, Func, Program, const_str

LANG = "dagrt.language"
INTERP = "dagrt.exec_numpy.NumpyInterpreter"

df.PASS_THROUGH.update({"Variable", "var"})


def statement_classes(P: Program):
    """Concrete statement kinds: classes of dagrt.language deriving from
    StatementBase that carry an ``exec_method``."""
    base = P.cls(f"{LANG}.StatementBase")
    out = []
    for c in P.subclasses(base, modules={LANG}):
        hit = P.lookup(c, "exec_method")
        if hit is None:
            continue
        # only classes that define it themselves (concrete kinds)
        if "exec_method" in c.attrs:
            out.append(c)
    if len(out) < 6:
        raise AnalysisError(f"only {len(out)} statement kinds with exec_method found")
    return out


def exec_method_name(P, K: Class):
    hit = P.lookup(K, "exec_method")
    s = const_str(hit[1]) if hit else None
    if s is None:
        raise AnalysisError(f"{K.fq}.exec_method is not a string constant")
    return s


def is_property(f: Func):
    return any(isinstance(d, ast.Name) and d.id == "property"
               for d in f.node.decorator_list)


# {{{ alias expansion

def property_paths(P, K: Class, name, _depth=0):
    """Self-rooted paths returned by @property *name* of K (None if not a
    property)."""
    f = P.method(K, name)
    if f is None or not is_property(f):
        return None
    out = set()
    env = df.Env({"self": ""})
    for n in ast.walk(f.node):
        if isinstance(n, ast.Return) and n.value is not None:
            out |= df.flat(df.prov(n.value, env))
    return out


def expand(P, K: Class, paths, depth=0):
    """Expand property heads until only record fields remain."""
    out = set()
    for p in paths:
        head, sep, rest = _split_head(p)
        pp = property_paths(P, K, head) if head else None
        if pp is None or depth > 4:
            out.add(p)
        else:
            for q in pp:
                out |= expand(P, K, {q + rest if q else rest.lstrip(".")}, depth + 1)
    return out


def _split_head(p):
    for i, ch in enumerate(p):
        if ch in ".[{<":
            return p[:i], ch, p[i:]
    return p, "", ""


def head(p):
    return _split_head(p)[0]

# }}}


# {{{ read / written sets

def _collector_scan(P, func: Func, root, is_collector, on_super=None, extra_on_call=None):
    """Scan *func*; return provenance of the first argument of every call for
    which is_collector(call, env, func, mapper_names) holds."""
    mapper_names = set()
    for n in ast.walk(func.node):
        if isinstance(n, ast.Assign) and isinstance(n.value, ast.Call):
            d = dotted(n.value.func)
            if d in ("self.get_dependency_mapper",):
                for t in n.targets:
                    if isinstance(t, ast.Name):
                        mapper_names.add(t.id)
    found = []

    def on_call(call, env, f):
        if extra_on_call:
            extra_on_call(call, env, f)
        if on_super and isinstance(call.func, ast.Attribute) \
                and isinstance(call.func.value, ast.Call) \
                and isinstance(call.func.value.func, ast.Name) \
                and call.func.value.func.id == "super":
            on_super(call.func.attr, call)
        if is_collector(call, env, f, mapper_names) and call.args:
            found.append((call, df.flat(df.prov(call.args[0], env))))

    df.Scanner(P, func, {root: ""}, on_call).run()
    return found


def _is_dep_collector(P):
    def pred(call, env, f, mapper_names):
        if isinstance(call.func, ast.Name):
            if call.func.id in mapper_names:
                return True
            tgt = P.resolve_name(f, call.func.id)
            if isinstance(tgt, Func) and tgt.fq == "dagrt.utils.get_variables":
                return True
        return False
    return pred


def _chain(P, K: Class, method):
    """Methods reached by K.method() following super().method() calls."""
    out = []
    f = P.method(K, method)
    seen = set()
    while f is not None and f not in seen:
        seen.add(f)
        out.append(f)
        calls_super = any(
            isinstance(n, ast.Call) and isinstance(n.func, ast.Attribute)
            and n.func.attr == method and isinstance(n.func.value, ast.Call)
            and isinstance(n.func.value.func, ast.Name)
            and n.func.value.func.id == "super"
            for n in ast.walk(f.node))
        if not calls_super:
            break
        if f.cls is None:
            break
        f = P.method(K, method, after=f.cls)
    return out


def read_paths(P, K: Class, raw=False):
    """D(K) with the collector call sites: list of (func, call, paths)."""
    sites = []
    for f in _chain(P, K, "get_read_variables"):
        for call, paths in _collector_scan(P, f, "self", _is_dep_collector(P)):
            sites.append((f, call, paths if raw else expand(P, K, paths)))
    return sites


def read_set(P, K):
    out = set()
    for _, _, paths in read_paths(P, K):
        out |= paths
    return out


def written_names(P, K: Class):
    """W(K): paths naming written variables, with their return sites."""
    sites = []
    f = P.method(K, "get_written_variables")
    if f is None:
        raise AnalysisError(f"{K.fq} has no get_written_variables")
    env = df.Env({"self": ""})
    for n in ast.walk(f.node):
        if isinstance(n, ast.Return) and n.value is not None:
            v = n.value
            names = set()
            # frozenset([a, b]) / frozenset(self.assignees) / frozenset()
            arg = v
            if isinstance(v, ast.Call) and isinstance(v.func, ast.Name) \
                    and v.func.id in ("frozenset", "set") and v.args:
                arg = v.args[0]
            elif isinstance(v, ast.Call) and isinstance(v.func, ast.Name) \
                    and v.func.id in ("frozenset", "set"):
                sites.append((f, n, set()))
                continue
            if isinstance(arg, (ast.List, ast.Tuple, ast.Set)):
                for e in arg.elts:
                    names |= df.flat(df.prov(e, env))
            else:
                names |= df.flat(df.iter_elem(df.prov(arg, env)))
            sites.append((f, n, expand(P, K, names)))
    return sites


def written_set(P, K):
    out = set()
    for _, _, names in written_names(P, K):
        out |= names
    return out

# }}}


# {{{ interpreter side

def interp_method(P, name):
    return P.method(P.cls(INTERP), name)


def exec_paths(P, K: Class):
    """E(K): list of (func, call, paths) for evaluator calls, and store key
    sites (func, node, paths, ctx)."""
    I = P.cls(INTERP)
    mname = exec_method_name(P, K)
    funcs = []
    f = P.method(I, mname)
    if f is not None:
        funcs.append(f)
    g = P.method(I, "evaluate_condition")
    if g is None:
        raise AnalysisError("NumpyInterpreter.evaluate_condition not found")
    funcs.append(g)
    evals, stores = [], []
    for fn in funcs:
        if len(fn.params) < 2:
            raise AnalysisError(f"{fn.fq}: expected (self, stmt)")
        root = fn.params[1]

        def is_eval(call, env, f_, mapper_names):
            d = dotted(call.func)
            return d in ("self.eval_mapper", "self.eval_mapper.rec")

        store_sites = []

        def on_stmt(s, env, f_):
            for n in ast.walk(s) if not isinstance(
                    s, (ast.For, ast.While, ast.If, ast.With, ast.Try)) else _header_nodes(s):
                if isinstance(n, ast.Subscript) and dotted(n.value) == "self.context":
                    store_sites.append(
                        (f_, n, df.flat(df.prov(n.slice, env)),
                         type(n.ctx).__name__))
                # self.context.update(zip(<names>, <values>)) / .update({<name>: ...}) /
                # .setdefault(<name>, ...): bindings made without a subscript
                if isinstance(n, ast.Call) and isinstance(n.func, ast.Attribute) \
                        and dotted(n.func.value) == "self.context" and n.args:
                    a0 = n.args[0]
                    if n.func.attr == "update" and isinstance(a0, ast.Call) and dotted(a0.func) == "zip" \
                            and a0.args:
                        elems = {p_ + "[*]" for p_ in df.flat(df.prov(a0.args[0], env))}
                        store_sites.append((f_, n, elems, "Store"))
                    elif n.func.attr == "update" and isinstance(a0, ast.Dict):
                        for k_ in a0.keys:
                            if k_ is not None:
                                store_sites.append((f_, n, df.flat(df.prov(k_, env)), "Store"))
                    elif n.func.attr == "setdefault":
                        store_sites.append((f_, n, df.flat(df.prov(a0, env)), "Store"))

        sc_found = []

        def on_call(call, env, f_):
            if is_eval(call, env, f_, None) and call.args:
                sc_found.append((f_, call, df.flat(df.prov(call.args[0], env))))

        sc = df.Scanner(P, fn, {root: ""}, on_call, on_stmt=on_stmt)
        sc.run()
        seen = set()
        for f_, call, paths in sc_found:
            if id(call) in seen:
                # second pass of the scanner: merge
                for i, (ff, cc, pp) in enumerate(evals):
                    if cc is call:
                        evals[i] = (ff, cc, pp | expand(P, K, paths))
                continue
            seen.add(id(call))
            evals.append((f_, call, expand(P, K, paths)))
        seen = set()
        for f_, node, paths, ctx in store_sites:
            if id(node) in seen:
                for i, (ff, nn, pp, cc) in enumerate(stores):
                    if nn is node:
                        stores[i] = (ff, nn, pp | expand(P, K, paths), cc)
                continue
            seen.add(id(node))
            stores.append((f_, node, expand(P, K, paths), ctx))
    return evals, stores


def _header_nodes(s):
    """Expression nodes evaluated by a compound statement header itself."""
    out = []
    if isinstance(s, (ast.For, ast.AsyncFor)):
        out += list(ast.walk(s.iter)) + list(ast.walk(s.target))
    elif isinstance(s, (ast.While, ast.If)):
        out += list(ast.walk(s.test))
    elif isinstance(s, ast.With):
        for it in s.items:
            out += list(ast.walk(it.context_expr))
    return out

# }}}


# {{{ map_expressions

def dataclass_fields(P, cls_fq):
    """Field names of a (pymbolic) dataclass in constructor order."""
    c = P.cls(cls_fq)
    fields = []
    for k in reversed(P.mro(c)):
        for s in k.node.body:
            if isinstance(s, ast.AnnAssign) and isinstance(s.target, ast.Name):
                ann = ast.unparse(s.annotation)
                if "ClassVar" in ann:
                    continue
                if s.target.id not in fields:
                    fields.append(s.target.id)
    return fields


def _composite(P, K, call, env):
    """mapper(self.m()) where m returns Ctor(...): field -> paths."""
    if not (isinstance(call, ast.Call) and isinstance(call.func, ast.Attribute)
            and isinstance(call.func.value, ast.Name) and call.func.value.id == "self"):
        return None
    m = P.method(K, call.func.attr)
    if m is None:
        return None
    rets = [n for n in ast.walk(m.node) if isinstance(n, ast.Return) and n.value is not None]
    if len(rets) != 1 or not isinstance(rets[0].value, ast.Call):
        return None
    ctor = rets[0].value
    target = P.resolve_expr(m, ctor.func)
    if not isinstance(target, Class):
        return None
    fields = dataclass_fields(P, target.fq)
    menv = df.Env({"self": ""})
    out = {}
    for i, a in enumerate(ctor.args):
        if i < len(fields):
            out[fields[i]] = df.flat(df.prov(a, menv))
    for kw in ctor.keywords:
        if kw.arg:
            out[kw.arg] = df.flat(df.prov(kw.value, menv))
    return out


def mapped(P, K: Class):
    """Analyse the map_expressions chain of K.

    Returns (fields, sites) where fields maps a record field written by
    ``.copy(field=...)`` to a dict:
        paths       self-rooted paths whose *mapped* value flows into the field
        conditional True if the mapping is under ``include_lhs``
        func, node  where
    """
    fields = {}
    for f in _chain(P, K, "map_expressions"):
        if len(f.params) < 2:
            raise AnalysisError(f"{f.fq}: expected (self, mapper, ...)")
        mp = f.params[1]
        mapper_calls = []      # (call, paths, composite)

        def on_call(call, env, f_, mp=mp, mapper_calls=mapper_calls):
            if isinstance(call.func, ast.Name) and call.func.id == mp and call.args:
                comp = _composite(P, K, call.args[0], env)
                paths = df.flat(df.prov(call.args[0], env))
                if comp is not None:
                    paths = set()
                    for v in comp.values():
                        paths |= v
                mapper_calls.append((call, set(paths), comp))

        df.Scanner(P, f, {"self": ""}, on_call).run()
        # de-duplicate (scanner runs the body twice)
        uniq = {}
        for call, paths, comp in mapper_calls:
            if id(call) in uniq:
                uniq[id(call)][1].update(paths)
            else:
                uniq[id(call)] = (call, set(paths), comp)
        mapper_calls = list(uniq.values())

        # taint of local names, in statement order
        taint = {}      # name -> (paths, composite)

        def expr_taint(expr):
            paths, comp = set(), None
            ids = {id(n) for n in ast.walk(expr)}
            for call, ps, cp in mapper_calls:
                if id(call) in ids:
                    paths |= ps
                    comp = comp or cp
            for n in ast.walk(expr):
                if isinstance(n, ast.Name) and isinstance(n.ctx, ast.Load) \
                        and n.id in taint:
                    paths |= taint[n.id][0]
                    comp = comp or taint[n.id][1]
            return paths, comp

        from ..engine.match import func_body_stmts
        for s in func_body_stmts(f.node):
            if isinstance(s, ast.Assign):
                ps, cp = expr_taint(s.value)
                if ps:
                    for t in s.targets:
                        for n in ast.walk(t):
                            if isinstance(n, ast.Name):
                                old = taint.get(n.id, (set(), None))
                                taint[n.id] = (old[0] | ps, old[1] or cp)

        # the .copy(...) call(s)
        for n in ast.walk(f.node):
            if isinstance(n, ast.Call) and isinstance(n.func, ast.Attribute) \
                    and n.func.attr == "copy" and n.keywords:
                for kw in n.keywords:
                    if kw.arg is None:
                        continue
                    ps, cp = expr_taint(kw.value)
                    if cp is not None:
                        # select the composite component by attribute chain
                        sel = _composite_select(kw.value, taint, cp)
                        if sel is not None:
                            ps = sel
                    cond = any(isinstance(x, ast.Name) and x.id == "include_lhs"
                               for x in ast.walk(kw.value)) or _under_include_lhs(f, kw.value, taint)
                    rec = fields.setdefault(kw.arg, {
                        "paths": set(), "conditional": False, "func": f, "node": kw.value,
                        "raw": set()})
                    rec["paths"] |= expand(P, K, ps)
                    rec["conditional"] = rec["conditional"] or cond
                    # unmapped provenance (e.g. ``else self.lhs`` / ident copied verbatim)
                    env = df.Env({"self": ""})
                    rec["raw"] |= expand(P, K, df.flat(df.prov(kw.value, env)))
    return fields


def _composite_select(value, taint, comp):
    """mapped_expr.parameters -> comp['parameters']"""
    n = value
    chain = []
    while isinstance(n, ast.Attribute):
        chain.append(n.attr)
        n = n.value
    if isinstance(n, ast.Name) and n.id in taint and chain:
        first = chain[-1]
        if first in comp:
            return set(comp[first])
    return None


def _under_include_lhs(f: Func, value, taint):
    """The value is a local name assigned differently under
    ``if include_lhs:`` / ``else:``."""
    names = {n.id for n in ast.walk(value) if isinstance(n, ast.Name)}
    for n in ast.walk(f.node):
        if isinstance(n, ast.If) and any(
                isinstance(x, ast.Name) and x.id == "include_lhs"
                for x in ast.walk(n.test)):
            assigned = set()
            for s in n.body + n.orelse:
                for t in ast.walk(s):
                    if isinstance(t, ast.Name) and isinstance(t.ctx, ast.Store):
                        assigned.add(t.id)
            if names & assigned:
                return True
    return False

# }}}


def covered(path, cover_set):
    """path is covered by an element of cover_set that equals it or is a
    prefix on a component boundary (``lhs`` covers ``lhs.index``)."""
    for c in cover_set:
        if path == c:
            return True
        if path.startswith(c) and path[len(c):len(c) + 1] in (".", "[", "{"):
            return True
    return False


# {{{ flow-sensitive "raw" (unmapped) provenance of copy() values

def raw_copy_values(P, K: Class, include_lhs=True):
    """For every ``.copy(field=value)`` in the map_expressions chain of K:
    the self-rooted paths that reach *value* WITHOUT passing through the
    mapper, assuming ``include_lhs`` has the given truth value.  Branches on
    anything else are merged.  Assignments are strong updates.

    Returns {field: (paths, func, node)}.
    """
    out = {}
    for f in _chain(P, K, "map_expressions"):
        mp = f.params[1]
        state = {}

        def env_of(st):
            e = df.Env({"self": ""})
            for k, v in st.items():
                e.vars[k] = frozenset(v)
            return e

        def rawprov(expr, st, env=None):
            env = env or env_of(st)
            acc = set()

            def visit(n, env):
                if isinstance(n, ast.Call) and isinstance(n.func, ast.Name) and n.func.id == mp:
                    return
                if isinstance(n, ast.IfExp) and _is_flag(n.test, "include_lhs") is not None:
                    truth = _is_flag(n.test, "include_lhs") == include_lhs
                    visit(n.body if truth else n.orelse, env)
                    return
                if isinstance(n, (ast.GeneratorExp, ast.ListComp, ast.SetComp, ast.DictComp)):
                    sub = env.child()
                    for g in n.generators:
                        visit_iter = g.iter
                        df.bind_target(g.target, df.iter_elem(df.prov(g.iter, sub)), sub)
                    elts = [n.key, n.value] if isinstance(n, ast.DictComp) else [n.elt]
                    for e in elts:
                        visit(e, sub)
                    return
                if isinstance(n, (ast.Attribute, ast.Subscript, ast.Name)):
                    p = df.flat(df.prov(n, env))
                    if p:
                        acc.update(p)
                        return
                    if isinstance(n, ast.Name):
                        return
                for c in ast.iter_child_nodes(n):
                    if isinstance(c, (ast.expr, ast.keyword, ast.comprehension)):
                        visit(c if not isinstance(c, ast.keyword) else c.value, env)

            visit(expr, env)
            return {p for p in acc if p != ""}

        def run_block(stmts, st):
            for s in stmts:
                if isinstance(s, ast.Assign):
                    val = rawprov(s.value, st)
                    for t in s.targets:
                        if isinstance(t, ast.Name):
                            st[t.id] = set(val)
                        elif isinstance(t, (ast.Tuple, ast.List)):
                            for e in t.elts:
                                if isinstance(e, ast.Name):
                                    st[e.id] = set(val)
                elif isinstance(s, ast.If):
                    flag = _is_flag(s.test, "include_lhs")
                    if flag is not None:
                        branch = s.body if flag == include_lhs else s.orelse
                        run_block(branch, st)
                    else:
                        a, b = dict((k, set(v)) for k, v in st.items()), \
                            dict((k, set(v)) for k, v in st.items())
                        run_block(s.body, a)
                        run_block(s.orelse, b)
                        for k in set(a) | set(b):
                            st[k] = a.get(k, set()) | b.get(k, set())
                elif isinstance(s, (ast.For, ast.While)):
                    run_block(s.body, st)
                elif isinstance(s, ast.Return) and s.value is not None:
                    for n in ast.walk(s.value):
                        if isinstance(n, ast.Call) and isinstance(n.func, ast.Attribute) \
                                and n.func.attr == "copy" and n.keywords:
                            for kw in n.keywords:
                                if kw.arg:
                                    paths = expand(P, K, rawprov(kw.value, st))
                                    old = out.get(kw.arg)
                                    if old:
                                        paths |= old[0]
                                    out[kw.arg] = (paths, f, kw.value)

        run_block(f.node.body, state)
    return out


def _is_flag(test, name):
    """True if test is `name`, False if `not name`, else None."""
    if isinstance(test, ast.Name) and test.id == name:
        return True
    if isinstance(test, ast.UnaryOp) and isinstance(test.op, ast.Not) \
            and isinstance(test.operand, ast.Name) and test.operand.id == name:
        return False
    return None

# }}}
