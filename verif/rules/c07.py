"""C07 - statement-rewriting passes preserve meaning and never capture names."""

from __future__ import annotations

import ast
import re

from ..engine.cfg import CFG, own_fragments, walk_fragment
from ..engine.match import dotted, norm, func_body_stmts, kwarg
from ..engine.srcmodel import AnalysisError, Class, Func

EXPLANATION = (
    "Def-use flow analysis of dagrt/codegen/transform.py. Decides for every "
    "statement the four passes construct: its id comes from the statement-id "
    "generator and every variable it introduces from the variable-name "
    "generator (both seeded from all statements of the phase AST, names from "
    "read u written sets); it carries a condition derived from the rewritten "
    "statement's condition and that condition is expressed as an if node when "
    "the statement is wrapped (guards are honoured by structured back ends); "
    "its id reaches the depends_on of the statement reading its result and it "
    "inherits the base dependencies; the statement assigning an introduced "
    "variable is appended before any recursion or statement that can mention "
    "it, and every return of a variable is dominated by the append of the "
    "statement that assigns it in the same invocation (no stale reuse); "
    "values placed in constructed statements flow from the recursion result, "
    "not from the unrewritten expression; recursive calls pass exactly the "
    "extra arguments the handlers take; self-dependency elimination copies in "
    "before the rewritten statement, leaves the left-hand side alone and "
    "iterates in sorted order; map_expressions covers every field that feeds "
    "the read set (shared with C08.ident / C16.fields). Does not decide: "
    "value preservation for arbitrary expressions.")

ASSUMPTIONS = [
    "statements returned by a pass are emitted top to bottom, never re-sorted",
    "completeness of read/write sets (C08) for the seeding of the name generator",
]

MOD = "dagrt.codegen.transform"
CTORS = {"Assign", "AssignFunctionCall"}
EXPR_CLASSES = ["ExprFunctionArgumentIsolator", "ExpressionFunctionCallIsolator",
                "ExprIfThenElseExpander"]


def _gen_names(f: Func):
    """names assigned from self.stmt_id_gen(...) / self.var_name_gen(...)"""
    ids, vars_ = {}, {}
    for s in func_body_stmts(f.node):
        if isinstance(s, ast.Assign) and len(s.targets) == 1 \
                and isinstance(s.targets[0], ast.Name):
            v = s.value
            inner = v
            if isinstance(v, ast.Call) and dotted(v.func) in ("var", "Variable") and v.args:
                inner = v.args[0]
            if isinstance(inner, ast.Call):
                d = dotted(inner.func)
                if d == "self.stmt_id_gen":
                    ids[s.targets[0].id] = s
                elif d == "self.var_name_gen":
                    vars_[s.targets[0].id] = (s, inner is not v)   # wrapped in var()
    # lists of generated names ([self.stmt_id_gen(..) for ..]) and the names that walk them
    # (for a, b in zip(xs, ys) / a comprehension over them)
    lists = {}
    for s in func_body_stmts(f.node):
        if isinstance(s, ast.Assign) and len(s.targets) == 1 and isinstance(s.targets[0], ast.Name) \
                and isinstance(s.value, ast.ListComp) and isinstance(s.value.elt, ast.Call):
            d = dotted(s.value.elt.func)
            if d in ("self.stmt_id_gen", "self.var_name_gen"):
                lists[s.targets[0].id] = (d, s)
    if lists:
        walkers = [n for n in ast.walk(f.node) if isinstance(n, (ast.For, ast.comprehension))]
        for w in walkers:
            it, tg = w.iter, w.target
            srcs, tgts = [it], [tg]
            if isinstance(it, ast.Call) and dotted(it.func) == "zip" and isinstance(tg, ast.Tuple) \
                    and len(it.args) == len(tg.elts):
                srcs, tgts = list(it.args), list(tg.elts)
            for src, t in zip(srcs, tgts):
                if isinstance(src, ast.Name) and src.id in lists and isinstance(t, ast.Name):
                    d, st = lists[src.id]
                    if d == "self.stmt_id_gen":
                        ids.setdefault(t.id, st)
                    else:
                        vars_.setdefault(t.id, (st, False))
    return ids, vars_


def _ctor_calls(f: Func):
    out = []
    for n in ast.walk(f.node):
        if isinstance(n, ast.Call) and dotted(n.func) in CTORS:
            out.append(n)
    return out


def _assignee_of(call):
    name = dotted(call.func)
    if name == "Assign":
        return kwarg(call, "assignee", 0)
    return kwarg(call, "assignees", 0)


def stmt_list_names(f: Func):
    """Names of the list(s) that collect the statements a pass returns:
    self.new_statements, or a local that is appended to and returned / handed
    to an expression rewriter as new_statements=."""
    out = {"self.new_statements"}
    appended = set()
    for x in ast.walk(f.node):
        if isinstance(x, ast.Call) and isinstance(x.func, ast.Attribute) \
                and x.func.attr in ("append", "extend") and isinstance(x.func.value, ast.Name):
            appended.add(x.func.value.id)
    for x in ast.walk(f.node):
        if isinstance(x, ast.Return) and isinstance(x.value, ast.Name) and x.value.id in appended:
            out.add(x.value.id)
        if isinstance(x, ast.keyword) and x.arg == "new_statements" \
                and isinstance(x.value, ast.Name):
            out.add(x.value.id)
    return out


def roles(f: Func):
    """Positional roles in the rewriting protocol: map_statement(self, stmt);
    every expression handler is reached as handler(expr, condition of the
    statement, its dependencies, list collecting the ids of new statements)."""
    if f.name == "map_statement":
        return {"stmt": f.arg(0)}
    n = len(f.params) - (1 if f.cls is not None else 0)
    if n < 4:
        return {}
    return {"expr": f.arg(0), "cond": f.arg(1), "base_deps": f.arg(2), "extra_deps": f.arg(3)}


def handler_params(f: Func):
    """Parameters of a helper that receive a superclass handler (super().map_X)
    at a call site in the same class: calling one is a recursion."""
    out = set()
    if f.cls is None:
        return out
    for m in f.cls.methods.values():
        for x in ast.walk(m.node):
            if isinstance(x, ast.Call) and dotted(x.func) == f"self.{f.name}":
                for i, a in enumerate(x.args):
                    d = dotted(a) or ""
                    if d.startswith("super().map_") and i + 1 < len(f.params):
                        out.add(f.params[i + 1])
                for k in x.keywords:
                    if (dotted(k.value) or "").startswith("super().map_") and k.arg:
                        out.add(k.arg)
    return out


def rec_names(f: Func):
    return {"self.rec"} | handler_params(f)


def dep_list_names(f: Func):
    """Names of lists of statement ids that end up in a depends_on: the
    extra_deps parameter, or locals occurring as frozenset(<name>) inside a
    depends_on= keyword."""
    out = set()
    if "extra_deps" in roles(f):
        out.add(roles(f)["extra_deps"])
    for x in ast.walk(f.node):
        if isinstance(x, ast.keyword) and x.arg == "depends_on":
            for y in ast.walk(x.value):
                if isinstance(y, ast.Call) and dotted(y.func) == "frozenset" and y.args \
                        and isinstance(y.args[0], ast.Name):
                    out.add(y.args[0].id)
    return out


def _names_in(e):
    return {x.id for x in ast.walk(e) if isinstance(x, ast.Name)} if e is not None else set()


def _whole_assignee(run, P):
    """A statement that takes over the assignee *name* of the statement being rewritten
    writes the whole variable: right only if that statement does too (its left-hand side is
    a plain variable / it has no subscript), or if the subscript is taken over as well."""
    from .util import path_conditions
    m = P.module("dagrt.codegen.transform")
    n = 0
    units = [f for c in m.classes.values() for f in c.methods.values()] + list(m.functions.values())
    for f in units:
        for x in ast.walk(f.node):
            if not isinstance(x, ast.Call):
                continue
            taken = [k for k in x.keywords if k.arg in ("assignee", "assignees")
                     and any(isinstance(y, ast.Attribute) and y.attr == "assignee"
                             and isinstance(y.value, ast.Name) for y in ast.walk(k.value))]
            if not taken:
                continue
            src = next(y.value.id for y in ast.walk(taken[0].value)
                       if isinstance(y, ast.Attribute) and y.attr == "assignee" and isinstance(y.value, ast.Name))
            n += 1
            with_sub = any(k.arg == "assignee_subscript" and f"{src}.assignee_subscript" in norm(k.value, 200)
                           for k in x.keywords)

            def guarded(fn, node):
                st_ = next((s_ for s_ in ast.walk(fn.node) if isinstance(s_, ast.stmt)
                            and not isinstance(s_, (ast.If, ast.For, ast.While, ast.FunctionDef, ast.Try))
                            and any(y is node for y in ast.walk(s_))), None)
                if st_ is None:
                    return False
                for t, pol in path_conditions(fn.node, st_):
                    if pol and re.search(r"isinstance\(\w+\.lhs, Variable\)", t):
                        return True
                    if re.search(r"\w+\.assignee_subscript\b", t) and (
                            (pol is False and not t.startswith("not ")) or (pol and t.startswith("not "))):
                        return True
                return False
            ok = with_sub or guarded(f, x)
            if not ok and f.cls is not None:
                # the guard may stand at the only place that calls this helper
                sites = [(g_, c_) for g_ in f.cls.methods.values() for c_ in ast.walk(g_.node)
                         if isinstance(c_, ast.Call) and (dotted(c_.func) or "").endswith("." + f.name)]
                ok = len(sites) == 1 and guarded(sites[0][0], sites[0][1])
            run.ob("C07.guard", f, x, ok,
                   construct=f"{norm(x.func, 40)}(... assignee={norm(taken[0].value, 30)}): the whole variable is "
                             f"written only if '{src}' writes the whole variable",
                   why="x[i] <- f(y) turned into x <- f(y) replaces the array by one entry's value")
    run.ob("C07.guard", m, None, True,
           construct=f"transform.py: {n} statement(s) that take over an assignee examined", why="scan summary")


def _check_main(run, P):
    run.rule("C07.fresh", "ids of constructed statements come from stmt_id_gen, "
             "introduced variables from var_name_gen; both generators are seeded "
             "from all statements of the phase AST", minimum=12)
    run.rule("C07.guard", "every constructed statement carries a condition derived "
             "from the rewritten statement's condition, and wrapped statements "
             "express their condition as an if node", minimum=7)
    run.rule("C07.deps", "ids of constructed statements reach the depends_on of the "
             "consumer; constructed statements inherit the base dependencies",
             minimum=10)
    run.rule("C07.order", "the statement assigning an introduced variable is "
             "appended before anything that can mention it; a returned variable "
             "is assigned by a statement appended in the same invocation",
             minimum=6)
    run.rule("C07.rec", "values placed in constructed statements flow from the "
             "recursion result, not from the unrewritten expression", minimum=5)
    run.rule("C07.arity", "recursive calls of the expression rewriters pass exactly "
             "the extra arguments the handlers take", minimum=8)
    run.rule("C07.selfdep", "self-dependency elimination: copy-in before the "
             "rewritten statement, left-hand side and guard untouched, sorted iteration",
             minimum=4)
    run.rule("C07.mapexpr", "map_expressions maps every field that feeds the read "
             "set (shared with C08.ident / C16.fields)", minimum=8)

    run.rule("C07.readsets", "the read/write sets that seed the name generator cover "
             "what statements touch (shared with C08.reads / C08.writes)", minimum=20)
    from . import c08 as _c08, stmtmodel as _sm
    _c08.reads_writes(run, P, _sm.statement_classes(P), "C07.readsets", "C07.readsets")
    run.do(_c08._written_whole, run, P, _sm.statement_classes(P), "C07.readsets")

    m = P.module(MOD)
    run.do(_seed, run, P)
    funcs = []
    for cname in EXPR_CLASSES + ["SelfDependencyEliminator"]:
        if cname not in m.classes:
            raise AnalysisError(f"{MOD}.{cname} not found")
        for meth in m.classes[cname].methods.values():
            if _ctor_calls(meth):
                funcs.append(meth)
    if len(funcs) < 4:
        raise AnalysisError(f"only {len(funcs)} statement-constructing methods found")
    for f in funcs:
        _per_ctor(run, P, f)
    run.rule("C07.polarity", "conditional-expression expansion: the condition is "
             "evaluated under the base guard, the then operand under base-and-flag, "
             "the else operand under base-and-not-flag; each branch assignment "
             "carries the guard of its branch", minimum=5)
    polarity(run, P, "C07.polarity")
    run.do(_wrap, run, P)
    run.do(_consumers, run, P)
    run.do(_arity, run, P)
    run.do(_selfdep, run, P)
    from . import c08, stmtmodel
    from .c01 import _alias
    _alias(run, "C08.ident", "C07.mapexpr",
           lambda: c08._ident(run, P, stmtmodel.statement_classes(P)))
    coverage(run, P, "C07.mapexpr", include_written=False)
    run.do(_rhs_only, run, P)
    run.do(_flat_and, run, P)
    run.do(_kwpair, run, P)
    run.do(_append_only, run, P)
    run.do(carry, run, P, "C07.carry")
    run.do(_ids_used, run, P)
    run.do(_whole_assignee, run, P)
    from . import c06 as _c06
    run.do(_c06.simplify_callers, run, P, "C07.guard")


def _ids_used(run, P):
    """Every id drawn from the generator becomes the id of exactly one
    constructed statement, and that statement is put on a statement list."""
    m = P.module(MOD)
    n = 0
    for f in m.functions.values():
        ids, _ = _gen_names(f)
        if not ids:
            continue
        lists = stmt_list_names(f)
        ctors = _ctor_calls(f)
        for name, site in sorted(ids.items()):
            users = [c for c in ctors if dotted(kwarg(c, "id")) == name]
            placed = []
            for c in users:
                holder = None
                for s_ in ast.walk(f.node):
                    if isinstance(s_, ast.Assign) and s_.value is c and isinstance(s_.targets[0], ast.Name):
                        holder = s_.targets[0].id
                for x in ast.walk(f.node):
                    if isinstance(x, ast.Call) and isinstance(x.func, ast.Attribute) \
                            and x.func.attr == "append" and dotted(x.func.value) in lists and x.args \
                            and (x.args[0] is c or (holder and dotted(x.args[0]) == holder)):
                        placed.append(c)
            n += 1
            run.ob("C07.fresh", f, site, len(users) == 1 and len(placed) == 1,
                   construct=f"{f.qualname}: id '{name}' is the id of exactly one constructed "
                             f"statement, which is appended ({len(users)} constructed, "
                             f"{len(placed)} appended)",
                   why="an id that is handed out (and put into depends_on) without a statement "
                       "behind it means the assignment of that branch / temporary was never "
                       "made; the same id on two statements makes one of them unreachable for "
                       "whoever depends on it")
    if n < 5:
        raise AnalysisError(f"C07.fresh: only {n} generated ids found in the passes")


def carry(run, P, rule):
    """A statement built from scratch to stand for the rewritten one (it takes
    over its id) accounts for every component of the original."""
    if rule not in run.rule_docs:
        run.rule(rule, "a statement constructed under the id of the statement it replaces "
                 "accounts for every component of the original (each is passed on, or "
                 "tested on the path); other constructions get fresh ids", minimum=5)
    from . import stmtmodel as sm
    from .util import path_conditions
    from .c09 import _stmt_of
    classes = {K.name: K for K in sm.statement_classes(P)}
    m = P.module(MOD)
    n = 0
    for f in m.functions.values():
        params = set(f.params)
        for x in ast.walk(f.node):
            if not (isinstance(x, ast.Call) and dotted(x.func) in classes):
                continue
            idkw = next((k.value for k in x.keywords if k.arg == "id"), None)
            src = None
            if isinstance(idkw, ast.Attribute) and idkw.attr == "id" and isinstance(idkw.value, ast.Name):
                src = idkw.value.id
            n += 1
            if src is None:
                run.ob(rule, f, x, True,
                       construct=f"{f.qualname}: {dotted(x.func)}(...) is a new statement "
                                 f"(id {norm(idkw, 30) if idkw is not None else 'by default'})",
                       why="not a stand-in for the rewritten statement")
                continue
            st = _stmt_of(f.node, x)
            conds = path_conditions(f.node, st) if st is not None else set()
            k1 = None
            for t, v in conds:
                for cname in classes:
                    if v and t == f"isinstance({src}, {cname})":
                        k1 = classes[cname]
            if k1 is None:
                # `if not isinstance(stmt, K): return` earlier in the function
                for t, v in conds:
                    for cname in classes:
                        if t == f"isinstance({src}, {cname})" and v:
                            k1 = classes[cname]
            if k1 is None:
                raise AnalysisError(f"{f.qualname}: class of '{src}' at {norm(x, 40)} not known")
            mentioned = {y.attr for y in ast.walk(x) if isinstance(y, ast.Attribute)
                         and isinstance(y.value, ast.Name) and y.value.id == src}
            for t, v in conds:
                for y in ast.walk(ast.parse(t, mode="eval")):
                    if isinstance(y, ast.Attribute) and isinstance(y.value, ast.Name) and y.value.id == src:
                        mentioned.add(y.attr)
            comps = {p_.split(".")[0].split("[")[0].split("{")[0] for p_ in sm.mapped(P, k1)} - {
                "condition", "id", "depends_on", ""}
            missing = []
            for c in sorted(comps):
                views = [name for name in dir_props(P, k1)
                         if (sm.property_paths(P, k1, name) or set())
                         and all(q.split(".")[0].split("[")[0] == c or q == ""
                                 for q in sm.property_paths(P, k1, name) if q)]
                views = [v_ for v_ in views if any(q for q in sm.property_paths(P, k1, v_))]
                ok = c in mentioned or (views and all(v_ in mentioned for v_ in views))
                if not ok:
                    missing.append(c + (f" (seen only through {sorted(set(views) & mentioned)})"
                                        if set(views) & mentioned else ""))
            run.ob(rule, f, x, not missing,
                   construct=f"{f.qualname}: {dotted(x.func)}(..., id={src}.id) stands for a "
                             f"{k1.name}: components not accounted for: {missing or 'none'}",
                   why="what is neither passed on nor tested is dropped: 'w[i] <- f(i)' rebuilt "
                       "from the assignee name alone assigns the whole array")
    if n < 5:
        raise AnalysisError(f"{rule}: only {n} statement constructions found in the passes")


def dir_props(P, K):
    from . import stmtmodel as sm
    out = []
    for c in P.mro(K):
        for name, f in c.methods.items():
            if sm.is_property(f) and name not in out:
                out.append(name)
    return out


def _seed(run, P):
    from .util import find, first, has
    f = P.func(f"{MOD}.apply_statement_rewriter")
    n, env = first("V_s = list(get_statements_in_ast(V_p))", f.node)
    ok = n is not None and env["V_p"] in f.params
    run.ob("C07.fresh", f, n if n is not None else f.node, ok,
           construct="<statements> = list(get_statements_in_ast(<phase ast parameter>))",
           why="the generators must know every statement of the phase (a generator "
               "object would be exhausted by the first consumer)")
    c = None
    if ok:
        hits = find("ANY(stmt_id_gen=get_stmt_id_generator(V_s), "
                    "var_name_gen=get_var_name_generator(V_s, V_p))", f.node,
                    {"V_s": env["V_s"], "V_p": env["V_p"]})
        c = hits[0][0] if hits else None
    run.ob("C07.fresh", f, c if c is not None else f.node, c is not None,
           construct="rewriter(stmt_id_gen=get_stmt_id_generator(<statements>), "
                     "var_name_gen=get_var_name_generator(<statements>, <phase ast>))",
           why="ids and names must be generated against the ids / names in use; the "
               "loops of a statement live in the AST, not in the statement")
    g = P.func(f"{MOD}.get_var_name_generator")
    for gf in (g, P.func(f"{MOD}.get_stmt_id_generator")):
        if not any(isinstance(x, ast.Call) and dotted(x.func) == "UniqueNameGenerator"
                   for x in ast.walk(gf.node)):
            # the generator is made some other way (seeded on first use by a wrapper class):
            # what it is seeded with is not read by the clauses below
            raise AnalysisError(f"{gf.name} does not construct a UniqueNameGenerator itself; "
                                f"not recognised")
    lp = [x for x in ast.walk(g.node) if isinstance(x, ast.For) and dotted(x.iter) == g.params[0]]
    ok = False
    vset = None
    if lp and isinstance(lp[0].target, ast.Name):
        v = lp[0].target.id
        w = find(f"V_set.update({v}.get_written_variables())", lp[0])
        r = find(f"V_set.update({v}.get_read_variables())", lp[0])
        ok = bool(w) and bool(r) and w[0][1]["V_set"] == r[0][1]["V_set"] \
            and has("UniqueNameGenerator(V_set)", g.node, {"V_set": w[0][1]["V_set"]})
        vset = w[0][1]["V_set"] if w else None
    run.ob("C07.fresh", g, g.node, ok,
           construct="name generator seeded with read u written variables of all statements",
           why="a name in use that the generator does not know can be handed out again")
    # ... and with the loop variables / bound variables of the AST
    ok = False
    finder = None
    if vset and len(g.params) >= 2:
        for x in ast.walk(g.node):
            if isinstance(x, ast.Call) and dotted(x.func) == f"{vset}.update" and x.args \
                    and isinstance(x.args[0], ast.Call) and isinstance(x.args[0].func, ast.Call) \
                    and x.args[0].args and dotted(x.args[0].args[0]) == g.params[1]:
                finder = P.resolve_name(g, dotted(x.args[0].func.func) or "")
    if finder is not None and hasattr(finder, "methods"):
        mf = P.method(finder, "map_ForLoop")
        mv = P.method(finder, "map_variable")
        ok = mf is not None and "loop_var_name" in ast.unparse(mf.node) \
            and "super().map_ForLoop" in ast.unparse(mf.node) \
            and mv is not None and any(isinstance(r_, ast.Return) and norm(r_.value) ==
                                       f"{{{mv.params[1]}.name}}" for r_ in ast.walk(mv.node))
    run.ob("C07.fresh", g, g.node, ok,
           construct="name generator also seeded with the loop variables and the variables "
                     "of loop bounds and conditions found in the phase AST",
           why="the lowering peels the loops off a statement: a loop variable the body "
               "does not mention, or a variable used only as a bound, is otherwise "
               "unknown and 'tmp' can be handed out although a loop counts in 'tmp'")
    h = P.func(f"{MOD}.get_stmt_id_generator")
    ok = has(f"UniqueNameGenerator({{V_x.id for V_x in {h.params[0]}}})", h.node)
    run.ob("C07.fresh", h, h.node, ok,
           construct="id generator seeded with all statement ids",
           why="duplicate ids break dependency resolution")


def _cond_derived(f: Func):
    """Names holding a condition derived from the rewritten statement's."""
    out = set()
    r = roles(f)
    if "cond" in r:
        out.add(r["cond"])
    stmt_cond = f"{r['stmt']}.condition" if "stmt" in r else None
    changed = True
    while changed:
        changed = False
        for s in func_body_stmts(f.node):
            if isinstance(s, ast.Assign) and len(s.targets) == 1 \
                    and isinstance(s.targets[0], ast.Name) and s.targets[0].id not in out:
                v = s.value
                if isinstance(v, ast.Call) and dotted(v.func) == "flat_LogicalAnd" and v.args \
                        and (dotted(v.args[0]) in out or norm(v.args[0]) == stmt_cond):
                    out.add(s.targets[0].id)
                    changed = True
    return out


def _per_ctor(run, P, f: Func):
    in_comp = [c for comp in ast.walk(f.node) if isinstance(comp, (ast.ListComp, ast.GeneratorExp))
               for c in ast.walk(comp.elt) if isinstance(c, ast.Call) and dotted(c.func) in CTORS]
    if in_comp:
        # the introduced statements are built by a comprehension over lists of generated
        # names: the per-constructor clauses follow names through statements, not through
        # parallel lists
        raise AnalysisError(f"{f.qualname}: {dotted(in_comp[0].func)}(...) is built inside a "
                            f"comprehension; not read by the per-constructor clauses")
    ids, vars_ = _gen_names(f)
    conds = _cond_derived(f)
    g = CFG(f.node)
    ctors = _ctor_calls(f)
    lists = stmt_list_names(f)
    deplists = dep_list_names(f)

    def node_of_call(c):
        for n in g.nodes:
            for fr in own_fragments(n):
                if any(x is c for x in walk_fragment(fr)):
                    return n
        return None

    # append events: which ctor (directly or via a name) is appended where
    appends = {}      # ctor call id -> CFG node of the append
    named = {}        # local name -> ctor call
    for s in func_body_stmts(f.node):
        if isinstance(s, ast.Assign) and len(s.targets) == 1 \
                and isinstance(s.targets[0], ast.Name) and isinstance(s.value, ast.Call) \
                and dotted(s.value.func) in CTORS:
            named[s.targets[0].id] = s.value
    for n in g.nodes:
        if n.kind != "stmt":
            continue
        for x in walk_fragment(n.ast):
            if isinstance(x, ast.Call) and isinstance(x.func, ast.Attribute) \
                    and x.func.attr in ("append", "extend") \
                    and dotted(x.func.value) in lists and x.args:
                a = x.args[0]
                for y in ast.walk(a):
                    if isinstance(y, ast.Call) and dotted(y.func) in CTORS:
                        appends[id(y)] = n
                    if isinstance(y, ast.Name) and y.id in named:
                        appends[id(named[y.id])] = n

    # a statement that is built, kept in a name, and appended on some paths only (no copy of a
    # condition that is a plain variable already, say): which paths need it is not decided here
    from .util import path_conditions as _pc
    rec_results = {t_.id for s_ in func_body_stmts(f.node) if isinstance(s_, ast.Assign)
                   and isinstance(s_.value, ast.Call) and dotted(s_.value.func) in rec_names(f)
                   for t_ in s_.targets if isinstance(t_, ast.Name)}
    for nm, ctor_ in named.items():
        n_ = appends.get(id(ctor_))
        if n_ is None or n_.ast is None:
            continue
        conds_ = [t_ for t_, _v in _pc(f.node, n_.ast)]
        if any(re.search(rf"\b{re.escape(r_)}\b", t_) for t_ in conds_ for r_ in rec_results):
            raise AnalysisError(f"{f.qualname}: the statement kept in '{nm}' is appended only under "
                                f"{conds_[0][:50]}; not decided")
    for c in ctors:
        kind = dotted(c.func)
        idv = kwarg(c, "id")
        ok = isinstance(idv, ast.Name) and idv.id in ids
        run.ob("C07.fresh", f, c, ok,
               construct=f"{kind}(... id={norm(idv) if idv is not None else 'missing'})",
               why="the id of an introduced statement must come from the statement-id "
                   "generator, else it can collide with an existing statement")
        asg = _assignee_of(c)
        an = _names_in(asg)
        ok = bool(an) and an <= set(vars_)
        run.ob("C07.fresh", f, c, ok,
               construct=f"{kind}(assignee={norm(asg) if asg is not None else 'missing'})",
               why="an introduced variable must come from the variable-name generator "
                   "(seeded with the names in use); a name taken from elsewhere can "
                   "capture a user variable")
        cv = kwarg(c, "condition")
        r_ = roles(f)
        ok = cv is not None and (dotted(cv) in conds or (
            "stmt" in r_ and norm(cv) == f"{r_['stmt']}.condition"))
        run.ob("C07.guard", f, c, ok,
               construct=f"{kind}(... condition={norm(cv) if cv is not None else 'missing'})",
               why="statements derived from a guarded statement must carry its guard")
        dv = kwarg(c, "depends_on")
        dsrc = norm(dv) if dv is not None else ""
        dnames = {dotted(x) for x in ast.walk(dv)} if dv is not None else set()
        ok = dv is not None and (r_.get("base_deps") in dnames or (
            "stmt" in r_ and f"{r_['stmt']}.depends_on" in dnames))
        run.ob("C07.deps", f, c, ok,
               construct=f"{kind}(... depends_on={dsrc or 'missing'})",
               why="an introduced statement must not run before the dependencies of "
                   "the statement it was split from")
        # id reaches the consumer's dependency list
        if isinstance(idv, ast.Name):
            reg = False
            for x in ast.walk(f.node):
                if isinstance(x, ast.Call) and isinstance(x.func, ast.Attribute) \
                        and x.func.attr in ("append", "extend") \
                        and dotted(x.func.value) in deplists \
                        and idv.id in _names_in(x.args[0] if x.args else None):
                    reg = True
            if not reg:
                # registered indirectly: statements that are themselves
                # registered depend on it
                users = [o for o in ctors if o is not c
                         and idv.id in _names_in(kwarg(o, "depends_on"))]
                reg = bool(users) and all(
                    isinstance(kwarg(o, "id"), ast.Name) and any(
                        isinstance(x, ast.Call) and isinstance(x.func, ast.Attribute)
                        and x.func.attr in ("append", "extend")
                        and dotted(x.func.value) in deplists
                        and kwarg(o, "id").id in _names_in(x.args[0] if x.args else None)
                        for x in ast.walk(f.node)) for o in users)
            run.ob("C07.deps", f, c, reg,
                   construct=f"id '{idv.id}' is registered in the consumer's dependency list",
                   why="the statement reading the introduced variable must depend on "
                       "the statement that assigns it")
        if id(c) not in appends:
            run.ob("C07.order", f, c, False,
                   construct=f"{kind}(...) is appended to the list of new statements",
                   why="a constructed statement that is never appended is lost")

    # order: a variable introduced here and used in a condition passed to a
    # recursion must be assigned by a statement appended before that recursion
    rec_calls = []
    for n in g.nodes:
        for fr in own_fragments(n):
            for x in walk_fragment(fr):
                if isinstance(x, ast.Call) and dotted(x.func) in rec_names(f):
                    rec_calls.append((n, x))
    for n, rc in rec_calls:
        used = set()
        for a in rc.args[1:]:
            for nm in _names_in(a):
                used.add(nm)
        # expand condition names to the variables they mention
        mentioned = set()
        for s in func_body_stmts(f.node):
            if isinstance(s, ast.Assign) and len(s.targets) == 1 \
                    and isinstance(s.targets[0], ast.Name) and s.targets[0].id in used:
                mentioned |= _names_in(s.value) & set(vars_)
        for v in sorted(mentioned):
            for s in ast.walk(f.node):
                if isinstance(s, ast.Assign) and any(v in _names_in(t) for t in s.targets) and (
                        (isinstance(s.value, ast.Subscript) and (dotted(s.value.value) or "").startswith("self."))
                        or (isinstance(s.value, ast.Call) and isinstance(s.value.func, ast.Attribute)
                            and s.value.func.attr == "get"
                            and (dotted(s.value.func.value) or "").startswith("self."))):
                    # the variable of an earlier occurrence is taken from a table kept by the
                    # mapper (a memo): see the remark at the returns below; not decided
                    raise AnalysisError(f"{f.qualname}: '{v}' may come from {norm(s.value, 50)} "
                                        f"(made for an earlier occurrence); not decided")
            assigning = [c for c in ctors if v in _names_in(_assignee_of(c))]
            app_nodes = [appends[id(c)] for c in assigning if id(c) in appends]
            bad = g.always_preceded([n], app_nodes) if app_nodes else [n]
            run.ob("C07.order", f, rc, not bad,
                   construct=f"statement assigning '{v}' appended before {norm(rc, 70)}",
                   why="statements created by the recursion are guarded by this "
                       "variable; listed before its assignment they read it unset")
    # returns of an introduced variable (expression-level handlers only)
    is_expr_handler = f.cls is not None and f.cls.name in EXPR_CLASSES
    for n in g.nodes:
        if not is_expr_handler:
            break
        if n.kind == "stmt" and isinstance(n.ast, ast.Return) and n.ast.value is not None:
            v = n.ast.value
            if isinstance(v, ast.Name) and v.id in f.params:
                continue      # pass-through of the unchanged expression
            names = _names_in(v) & (set(vars_))
            if isinstance(v, ast.Call) and dotted(v.func) in ("var", "Variable") and names:
                nm = sorted(names)[0]
                assigning = [c for c in ctors if nm in _names_in(_assignee_of(c))]
                app_nodes = [appends[id(c)] for c in assigning if id(c) in appends]
                bad = g.always_preceded([n], app_nodes) if app_nodes else [n]
                # every assigning ctor must have been appended on the way
                allapp = all(not g.always_preceded([n], [a]) for a in app_nodes) and app_nodes
                run.ob("C07.order", f, n.ast, bool(allapp) and not bad,
                       construct=f"{norm(n.ast)}: every statement assigning '{nm}' is "
                                 f"appended on all paths to this return",
                       why="the caller substitutes this variable for the expression; "
                           "it must have been assigned under every guard valuation")
            elif not (isinstance(v, ast.Call) and dotted(v.func) and
                      (dotted(v.func).startswith("type(") or dotted(v.func) == "type")) \
                    and not isinstance(v, ast.Call):
                # a variable made for an earlier occurrence is handed back (a memo).  That is
                # sound exactly when the earlier assignment dominates this occurrence and
                # nothing it reads was written in between - facts about the program being
                # rewritten that the table's scoping has to establish; not decided here
                raise AnalysisError(f"{f.qualname}: {norm(n.ast)} hands back a value that was not "
                                    f"made in this invocation (a memo); not decided")
            elif isinstance(v, ast.Call) and not (dotted(v.func) in ("var", "Variable")) \
                    and not norm(v.func).startswith("type("):
                run.ob("C07.order", f, n.ast, False,
                       construct=f"{norm(n.ast)}: unrecognised result",
                       why="result of a rewriting handler must be the rebuilt "
                           "expression or a variable introduced here")

    run.do(_rec_flow, run, P, f, ctors)


def _rec_flow(run, P, f: Func, ctors):
    """Taint from the raw `expr` parameter; recursion sanitises."""
    if "expr" not in roles(f):
        return
    tainted = {roles(f)["expr"]}
    changed = True
    stmts = func_body_stmts(f.node)
    recs = rec_names(f)

    def expr_tainted(e):
        for x in ast.walk(e):
            if isinstance(x, ast.Call) and dotted(x.func) in recs \
                    or (isinstance(x, ast.Call) and (dotted(x.func) or "").startswith("super().")):
                # arguments of a recursion are consumed by it
                return _outside_calls_tainted(e, tainted, recs)
        return bool(_names_in(e) & tainted)

    while changed:
        changed = False
        for s in stmts:
            new = set()
            if isinstance(s, ast.Assign) and expr_tainted(s.value):
                for t in s.targets:
                    new |= {x.id for x in ast.walk(t) if isinstance(x, ast.Name)}
            if isinstance(s, ast.For) and expr_tainted(s.iter):
                new |= {x.id for x in ast.walk(s.target) if isinstance(x, ast.Name)}
            if isinstance(s, ast.Expr) and isinstance(s.value, ast.Call) \
                    and isinstance(s.value.func, ast.Attribute) \
                    and s.value.func.attr in ("append", "extend") \
                    and isinstance(s.value.func.value, ast.Name) \
                    and s.value.args and expr_tainted(s.value.args[0]):
                new.add(s.value.func.value.id)
            if isinstance(s, ast.Assign) and isinstance(s.targets[0], ast.Subscript) \
                    and isinstance(s.targets[0].value, ast.Name) and expr_tainted(s.value):
                new.add(s.targets[0].value.id)
            for x in new:
                if x not in tainted and x != "self":
                    tainted.add(x)
                    changed = True
    for c in ctors:
        for kw in c.keywords:
            if kw.arg in ("parameters", "kw_parameters", "expression", "function_id"):
                ok = not expr_tainted(kw.value)
                run.ob("C07.rec", f, kw.value, ok,
                       construct=f"{dotted(c.func)}({kw.arg}={norm(kw.value, 60)})",
                       why="built from the unrewritten expression, inner calls / "
                           "conditionals that the recursion has already moved into "
                           "temporaries stay inline as well and are evaluated twice")
        if dotted(c.func) == "Assign" and len(c.args) >= 3:
            ok = not expr_tainted(c.args[2])
            run.ob("C07.rec", f, c.args[2], ok,
                   construct=f"Assign(..., {norm(c.args[2], 60)})",
                   why="the right-hand side must be the recursion result")


def _outside_calls_tainted(e, tainted, recs=("self.rec",)):
    """Tainted names occurring outside the argument lists of recursion calls."""
    def visit(n):
        if isinstance(n, ast.Call) and (dotted(n.func) in recs
                                        or (dotted(n.func) or "").startswith("super().")):
            return False
        if isinstance(n, ast.Name) and n.id in tainted:
            return True
        return any(visit(c) for c in ast.iter_child_nodes(n))
    return visit(e)


def polarity(run, P, rule):
    f = P.func(f"{MOD}.ExprIfThenElseExpander.map_if")
    e = f.params[1]
    base = roles(f)["cond"]
    # classify condition variables
    kinds = {base: "base"}
    flag = None
    for s_ in func_body_stmts(f.node):
        if isinstance(s_, ast.Assign) and isinstance(s_.value, ast.Call) \
                and dotted(s_.value.func) in ("var", "Variable") and s_.value.args \
                and isinstance(s_.value.args[0], ast.Call) \
                and dotted(s_.value.args[0].func) == "self.var_name_gen" \
                and isinstance(s_.targets[0], ast.Name):
            a0 = s_.value.args[0].args[0] if s_.value.args[0].args else None
            if isinstance(a0, ast.Constant) and str(a0.value).startswith("<cond>"):
                flag = s_.targets[0].id
    if flag is None:
        raise AnalysisError("map_if: flag variable not found")
    for s_ in func_body_stmts(f.node):
        if isinstance(s_, ast.Assign) and isinstance(s_.value, ast.Call) \
                and dotted(s_.value.func) == "flat_LogicalAnd" and len(s_.value.args) == 2 \
                and isinstance(s_.targets[0], ast.Name) and dotted(s_.value.args[0]) == base:
            a1 = s_.value.args[1]
            if dotted(a1) == flag:
                kinds[s_.targets[0].id] = "then"
            elif isinstance(a1, ast.Call) and dotted(a1.func) == "LogicalNot" \
                    and a1.args and dotted(a1.args[0]) == flag:
                kinds[s_.targets[0].id] = "else_"
    want = {"condition": "base", "then": "then", "else_": "else_"}
    recs = {}
    for s_ in func_body_stmts(f.node):
        if isinstance(s_, ast.Assign) and isinstance(s_.value, ast.Call) \
                and dotted(s_.value.func) == "self.rec" and len(s_.value.args) >= 2 \
                and isinstance(s_.value.args[0], ast.Attribute) \
                and dotted(s_.value.args[0].value) == e and isinstance(s_.targets[0], ast.Name):
            part = s_.value.args[0].attr
            got = kinds.get(dotted(s_.value.args[1]))
            recs[s_.targets[0].id] = part
            run.ob(rule, f, s_.value, got == want.get(part),
                   construct=f"self.rec(expr.{part}, {norm(s_.value.args[1])}, ...): guard kind "
                             f"{got!r}, expected {want.get(part)!r}",
                   why=f"statements created for the {part} operand must run exactly when "
                       f"that operand is evaluated; under the wrong guard a nested "
                       f"conditional is never assigned and an unset variable is copied")
    if set(recs.values()) != {"condition", "then", "else_"}:
        raise AnalysisError("map_if: recursion into condition/then/else_ not found")
    for c in _ctor_calls(f):
        ex = kwarg(c, "expression", 2)
        cond = kwarg(c, "condition")
        part = recs.get(dotted(ex))
        if part is None:
            continue
        got = kinds.get(dotted(cond))
        run.ob(rule, f, c, got == want[part],
               construct=f"Assign(expression=<{part} result>, condition={norm(cond)}): guard "
                         f"kind {got!r}, expected {want[part]!r}",
               why="each branch assignment must carry the guard of its own branch")


def _wrap(run, P):
    """What a pass puts in the place of one statement, case by case (abstract
    interpretation of map_StatementWrapper with 1 - 3 statements coming back from
    map_statement, each guarded or not)."""
    from ..engine import casetable as se
    from .c05 import ast_den
    f = P.func(f"{MOD}.ASTStatementRewriter.map_StatementWrapper")
    G = [("obj", f"guard{i}") for i in (1, 2, 3)]

    def stmt(i, guarded):
        return se.rec(f"statement{i}", condition=G[i - 1] if guarded else ("const", True),
                      id=("obj", f"id{i}"), **{"@strict": ("const", True)})

    import itertools
    for k in (1, 2, 3):
        for pattern in itertools.product((False, True), repeat=k):
            sts = tuple(stmt(i + 1, g_) for i, g_ in enumerate(pattern))
            ev = se.Evaluator(P, stubs={"self.map_statement": lambda args, kws, sts=sts: ("tuple", sts)})
            expr = se.rec("node", statement=("obj", "original"))
            outs = ev.outcomes(f, {f.params[0]: ("obj", "self"), f.params[1]: expr})
            bad = None
            for (kind, val), facts in outs:
                if kind != "return":
                    bad = f"raises {val}"
                    break
                den = ast_den(P, val)
                if den is None:
                    bad = f"returns {se.show(val)[:60]}, which is no tree of AST nodes"
                    break
                if len(den) != k:
                    bad = f"{len(den)} statement(s) in the tree, {k} came back from map_statement"
                    break
                for (guards, loops, leaf), want, g_ in zip(den, sts, pattern):
                    wg = ((G[sts.index(want)], 0),) if g_ else ()
                    if leaf is None or leaf[0] != "rec" or leaf[1] != want[1]:
                        bad = f"statement order / identity: found {se.show(leaf) if leaf else '?'} where {want[1]} belongs"
                    elif guards != wg:
                        bad = f"{want[1]} runs under {[se.show(x[0]) for x in guards]}, its guard is " \
                              f"{[se.show(x[0]) for x in wg]}"
                    elif g_ and se.rec_get(leaf, "condition") != ("const", True):
                        bad = f"{want[1]} keeps its guard inside the conditional"
                    elif se.rec_get(leaf, "id") != se.rec_get(want, "id"):
                        bad = f"{want[1]} was re-built"
                    if bad:
                        break
                if bad:
                    break
            run.ob("C07.guard", f, f.node, bad is None,
                   construct=f"map_StatementWrapper: {k} statement(s), guarded: {list(pattern)}"
                             + (f": {bad}" if bad else ""),
                   why="structured back ends never look at a statement's condition: each guard "
                       "must be expressed in the tree exactly once, around its own statement "
                       "only, and the statements stay in the order the pass returned them")


def _consumers(run, P):
    """map_statement of the three Statement* rewriters: the list passed as
    extra_deps ends up in depends_on of the rewritten statement."""
    from .util import find, has
    m = P.module(MOD)
    for cname in ("StatementFunctionArgumentIsolator", "StatementFunctionCallIsolator",
                  "StatementIfThenElseExpander"):
        f = m.classes[cname].methods.get("map_statement")
        if f is None:
            raise AnalysisError(f"{cname}.map_statement not found")
        stmt = f.params[1]
        lam = [n for n in ast.walk(f.node) if isinstance(n, ast.Lambda)]
        ok = False
        detail = ""
        if len(lam) == 1 and isinstance(lam[0].body, ast.Call):
            c = lam[0].body
            extra = dotted(c.args[-1]) if c.args else None
            base = norm(c.args[2]) if len(c.args) == 4 else ""
            base_ok = base == f"{stmt}.depends_on" or has(
                f"{base} = {stmt}.depends_on", f.node) if base.isidentifier() or "." in base else False
            cond_ok = len(c.args) == 4 and norm(c.args[1]) == f"{stmt}.condition" and base_ok
            dep_ok = bool(extra) and has(
                f"ANY.copy(depends_on={stmt}.depends_on | frozenset({extra}))", f.node)
            ok = bool(cond_ok and dep_ok)
            detail = f"lambda args {[norm(a) for a in c.args]}"
        run.ob("C07.deps", f, f.node, ok,
               construct=f"{cname}: rewritten statement depends on stmt.depends_on | "
                         f"frozenset(<ids of introduced statements>)",
               why="the rewritten statement reads the introduced variables", detail=detail)
        lists = stmt_list_names(f) - {"self.new_statements"}
        apps = [n for n in ast.walk(f.node) if isinstance(n, ast.Call)
                and isinstance(n.func, ast.Attribute) and n.func.attr == "append"
                and dotted(n.func.value) in lists]
        ok = len(apps) == 1 and any(isinstance(x, ast.Attribute) and x.attr == "map_expressions"
                                    for x in ast.walk(apps[0]))
        run.ob("C07.order", f, apps[0] if apps else f.node, ok,
               construct="<new statements>.append(stmt.map_expressions(...).copy(...)) is the only append",
               why="helpers are appended while map_expressions runs, i.e. before the "
                   "rewritten statement that reads them")


def _arity(run, P):
    m = P.module(MOD)
    for cname in EXPR_CLASSES:
        c = m.classes[cname]
        handlers = {n: f for n, f in c.methods.items() if n.startswith("map_")}
        if not handlers:
            raise AnalysisError(f"{cname}: no handlers")
        extras = {len(f.params) - 2 for f in handlers.values()}
        ok = len(extras) == 1
        run.ob("C07.arity", c, c.node, ok,
               construct=f"{cname}: handlers take {sorted(extras)} extra arguments",
               why="all handlers of one mapper must agree on the extra-argument protocol")
        if not ok:
            continue
        k = extras.pop()
        for f in c.methods.values():
            # names bound to a superclass handler passed as argument
            for x in ast.walk(f.node):
                if not isinstance(x, ast.Call):
                    continue
                d = dotted(x.func) or ""
                is_rec = d == "self.rec" or d.startswith("super().map_") or d in handler_params(f)
                if not is_rec:
                    continue
                n_extra = len(x.args) - 1 + len(x.keywords)
                run.ob("C07.arity", f, x, n_extra == k,
                       construct=f"{norm(x, 90)} passes {n_extra} extra argument(s), handlers take {k}",
                       why="a recursive call with the wrong number of extra arguments "
                           "raises TypeError as soon as it reaches a nested call / "
                           "conditional (e.g. when the pass is applied on its own)")


def _selfdep(run, P):
    from .util import find, has
    f = P.func(f"{MOD}.SelfDependencyEliminator.map_statement")
    stmt = f.params[1]
    loops = [n for n in ast.walk(f.node) if isinstance(n, ast.For)]
    if len(loops) != 1:
        raise AnalysisError("SelfDependencyEliminator.map_statement: one loop expected")
    lp = loops[0]
    ok = isinstance(lp.iter, ast.Call) and dotted(lp.iter.func) == "sorted"
    run.ob("C07.selfdep", f, lp, ok,
           construct=f"for {norm(lp.target)} in {norm(lp.iter)}",
           why="names and ids are allocated inside the loop; unordered iteration "
               "makes the rewritten text depend on the hash seed")
    ok = any(isinstance(x, ast.keyword) and x.arg == "include_lhs"
             and isinstance(x.value, ast.Constant) and x.value.value is False
             for x in ast.walk(f.node))
    run.ob("C07.selfdep", f, f.node, ok,
           construct="substitution applied with include_lhs=False",
           why="the assigned variable itself must not be renamed")
    g = CFG(f.node)
    loop_node = g.node_of(lp)
    lists = stmt_list_names(f) - {"self.new_statements"}
    deps = dep_list_names(f)
    # the rewritten statement: a local assigned from stmt.map_expressions(...).copy(depends_on=...)
    from .util import match
    rew = []
    for s_ in ast.walk(f.node):
        if isinstance(s_, ast.Assign) and len(s_.targets) == 1 and isinstance(s_.targets[0], ast.Name) \
                and isinstance(s_.value, ast.Call) and isinstance(s_.value.func, ast.Attribute) \
                and s_.value.func.attr == "copy" \
                and match(f"{stmt}.map_expressions(ANY, include_lhs=False)", s_.value.func.value) is not None:
            kws = {k.arg: k.value for k in s_.value.keywords}
            b = match(f"{stmt}.depends_on | frozenset(V_ids)", kws.get("depends_on")) \
                if kws.get("depends_on") is not None else None
            if b is not None:
                rew.append((s_, {"V_new": s_.targets[0].id, "V_ids": b["V_ids"]}, kws))
    ok = False
    site = f.node
    cond_ok = False
    if not rew:
        # the statement is rebuilt in some other way (other options of map_expressions,
        # no copy): which guard and dependencies it ends up with is not decided here
        odd = [x for x in ast.walk(f.node) if isinstance(x, ast.Call)
               and isinstance(x.func, ast.Attribute) and x.func.attr == "map_expressions"
               and any(k.arg not in ("include_lhs",) for k in x.keywords)]
        if odd:
            raise AnalysisError(f"SelfDependencyEliminator.map_statement: {norm(odd[0])[:70]} "
                                f"is not the recognised rebuild of the statement")
    if rew and rew[0][1]["V_ids"] in deps:
        newv = rew[0][1]["V_new"]
        cond_ok = norm(rew[0][2].get("condition")) == f"{stmt}.condition" \
            if rew[0][2].get("condition") is not None else False
        final = [n for n in g.nodes if n.kind == "stmt" and any(
            isinstance(x, ast.Call) and isinstance(x.func, ast.Attribute)
            and x.func.attr == "append" and dotted(x.func.value) in lists
            and x.args and dotted(x.args[0]) == newv for x in walk_fragment(n.ast))]
        ok = bool(final) and not g.always_preceded(final, [loop_node])
        site = final[0].ast if final else f.node
    run.ob("C07.selfdep", f, rew[0][0] if rew else f.node, cond_ok,
           construct=f"the rewritten statement keeps the original guard: copy(condition={stmt}.condition, ...)",
           why="map_expressions substitutes in the guard too; the copies are only made "
               "when the guard holds, so a guard that reads a copy reads a variable "
               "that is never set when the guard is false")
    run.ob("C07.selfdep", f, site, ok,
           construct="copy-in statements are appended before the rewritten statement, "
                     "which depends on them",
           why="the rewritten statement reads the copies")
    selfdep_total(run, P, "C07.selfdep")


def selfdep_total(run, P, rule):
    """The statement is handed back unchanged only when no variable is both read
    and written - whatever else holds (the Fortran move of a user type releases
    the assignee before it takes the source: the two must never be the same)."""
    from .util import path_conditions
    f = P.func(f"{MOD}.SelfDependencyEliminator.map_statement")
    stmt = f.params[1]
    # the set of names both read and written
    both = [s_.targets[0].id for s_ in ast.walk(f.node) if isinstance(s_, ast.Assign)
            and len(s_.targets) == 1 and isinstance(s_.targets[0], ast.Name)
            and isinstance(s_.value, ast.BinOp) and isinstance(s_.value.op, ast.BitAnd)
            and "get_read_variables" in ast.unparse(s_.value)
            and "get_written_variables" in ast.unparse(s_.value)]
    if len(both) != 1:
        raise AnalysisError("SelfDependencyEliminator: the read-and-written set not found")
    rw = both[0]
    rets = [r for r in ast.walk(f.node) if isinstance(r, ast.Return)
            and isinstance(r.value, (ast.List, ast.Tuple)) and len(r.value.elts) == 1
            and dotted(r.value.elts[0]) == stmt]
    if not rets:
        raise AnalysisError("SelfDependencyEliminator: no return of the unchanged statement")
    for r in rets:
        conds = path_conditions(f.node, r)
        ok = (rw, False) in conds or (f"len({rw})", False) in conds or (f"len({rw}) == 0", True) in conds
        run.ob(rule, f, r, ok,
               construct=f"'{norm(r)}' (statement unchanged) only when '{rw}' is empty",
               why="a statement that reads what it assigns and is let through keeps its "
                   "self-dependency: for a user type the generated move releases x and then "
                   "takes x => x from the storage just freed (x <- x, x <- 1*x + 0*k after "
                   "flattening)")


def coverage(run, P, rule, include_written=True):
    """Every path feeding get_read_variables (and the written names) of a
    statement class is passed through the mapper by map_expressions."""
    from . import stmtmodel as sm
    for K in sm.statement_classes(P):
        D = sm.read_set(P, K)
        W = sm.written_set(P, K) if include_written else set()
        M = sm.mapped(P, K)
        mapped_paths = set()
        for rec in M.values():
            mapped_paths |= rec["paths"]
        extra = set()
        if include_written:
            # string fields naming variables
            extra = {p for p in _name_fields(P, K)}
        for p in sorted(D | W | extra):
            base = p[:-5] if p.endswith(".name") else p
            # lhs.aggregate.name is covered by mapping lhs
            ok = sm.covered(base, mapped_paths) or sm.covered(p, mapped_paths) \
                or any(sm.covered(q, {base}) for q in mapped_paths)
            run.ob(rule, K, K.node, ok,
                   construct=f"{K.name}: '{p}' is mapped by map_expressions "
                             f"(mapped: {sorted(mapped_paths)})",
                   why=f"a mapper that renames variables (fusion) or substitutes "
                       f"expressions (rewriting passes) leaves '{p}' behind: a renamed "
                       f"definition with an unrenamed use, or the reverse")


def _rhs_only(run, P):
    """map_expressions(mapper, include_lhs=False), as used by self-dependency
    elimination: everything except the names the statement writes is mapped."""
    from . import stmtmodel as sm
    for K in sm.statement_classes(P):
        raw = sm.raw_copy_values(P, K, include_lhs=False)
        W = {sm.head(p) for p in sm.written_set(P, K)}
        for field, (paths, fn, node) in sorted(raw.items()):
            left = set()
            for p_ in paths:
                if sm.head(p_) in W:
                    continue            # the written names: what include_lhs=False is for
                if p_.endswith("{k}"):
                    continue            # keys of a mapping are not expressions
                if p_.startswith("loops[*][0]"):
                    continue            # a loop identifier cannot be an assignee of its own statement
                left.add(p_)
            run.ob("C07.mapexpr", fn, node, not left,
                   construct=f"{K.name}.map_expressions(include_lhs=False): {field} is rebuilt "
                             f"through the mapper" + (f" (un-mapped: {sorted(left)})" if left else ""),
                   why="self-dependency elimination renames the variable it copies in every "
                       "field but the written names: a name list that is bound inside a "
                       "mapped field (the unknowns of an implicit solve) and stays behind "
                       "no longer matches the renamed occurrences")


def _append_only(run, P):
    """The list of statements a pass builds for one original statement only
    grows, by append: nothing in it is replaced, merged or removed afterwards."""
    run.rule("C07.grow", "the statement list a pass returns for one statement is built "
             "by appending only", minimum=3)
    m = P.module(MOD)
    n = 0
    for cname in sorted(m.classes):
        c = m.classes[cname]
        for mname in ("map_statement", "map_StatementWrapper"):
            f = c.methods.get(mname)
            if f is None or f.cls is not c:
                continue
            if mname == "map_statement":
                lists = stmt_list_names(f) - {"self.new_statements"}
            else:
                lists = {t.id for s_ in ast.walk(f.node) if isinstance(s_, ast.Assign)
                         and isinstance(s_.value, (ast.List, ast.ListComp))
                         for t in s_.targets if isinstance(t, ast.Name)}
            if not lists:
                continue
            _grow_one(run, cname, mname, f, lists)
            n += 1
    if n == 0:
        raise AnalysisError("C07.grow: no statement-level rewriter found")


def _grow_one(run, cname, mname, f, lists):
    if True:
        if True:
            pass
        bad = []
        for x in ast.walk(f.node):
            if isinstance(x, (ast.Assign, ast.Delete, ast.AugAssign)):
                tg = x.targets if isinstance(x, (ast.Assign, ast.Delete)) else [x.target]
                for t in tg:
                    if isinstance(t, ast.Subscript) and dotted(t.value) in lists:
                        bad.append(x)
            if isinstance(x, ast.Call) and isinstance(x.func, ast.Attribute) \
                    and dotted(x.func.value) in lists \
                    and x.func.attr in ("pop", "remove", "insert", "clear", "reverse", "sort"):
                bad.append(x)
        run.ob("C07.grow", f, bad[0] if bad else f.node, not bad,
               construct=f"{cname}.{mname}: {sorted(lists)} only grows by append"
                         + (f" (found {norm(bad[0], 60)})" if bad else ""),
               why="fusing or replacing statements after the fact re-derives a statement "
                   "from pieces (the assignee name without its subscript, say): 'a[i] <- f(x)' "
                   "comes back as 'a <- f(x)'; two guarded nodes fused into one if/else run "
                   "the else part when the common prefix of the guards is false")


def _flat_and(run, P):
    """flat_LogicalAnd keeps every operand: each child is either spliced (its
    own children) or appended, on every path through the loop body."""
    from ..engine.cfg import CFG, walk_fragment
    run.rule("C07.conj", "the guard conjunction keeps every operand (constants "
             "included): a dropped False turns a dead statement live", minimum=1)
    f = P.func(f"{MOD}.flat_LogicalAnd")
    g = CFG(f.node)
    loops = [n for n in g.nodes if n.kind == "for"]
    if len(loops) != 1 or not isinstance(loops[0].ast.target, ast.Name):
        raise AnalysisError("flat_LogicalAnd: loop over the operands not found")
    lp = loops[0]
    v = lp.ast.target.id
    va = f.node.args.vararg.arg if f.node.args.vararg else None
    keeps = [n for n in g.nodes if n.kind == "stmt" and n.ast is not None and any(
        isinstance(x, ast.Call) and isinstance(x.func, ast.Attribute)
        and x.func.attr in ("append", "extend") and x.args and any(
            isinstance(y, ast.Name) and y.id == v for y in ast.walk(x.args[0]))
        for x in walk_fragment(n.ast))]
    body_first = [t for t, lab in g.succ[lp] if lab == "T"]
    skip = lp in g.reachable(body_first, avoid=keeps, follow_exc=False, include_start=True) \
        if body_first else True
    ok = bool(keeps) and not skip and norm(lp.ast.iter) == va
    run.ob("C07.conj", f, lp.ast, ok,
           construct=f"flat_LogicalAnd: every operand is appended or spliced "
                     f"({len(keeps)} keeping statement(s)"
                     + (", some path through the loop body keeps nothing)" if skip else ")"),
           why="guards of introduced statements are built with this helper: dropping a "
               "constant operand drops a literal False guard, and the statements "
               "introduced for a dead statement then run and read a flag that is never set")


def _kwpair(run, P):
    """Wherever the passes rebuild a keyword-argument mapping, each name stays
    with (the transform of) its own value."""
    from .c14 import _seq_signature
    run.rule("C07.kwpair", "a rebuilt keyword mapping pairs every name with the "
             "transform of its own value", minimum=2)
    m = P.module(MOD)
    n = 0
    for f in m.functions.values():
        for x in ast.walk(f.node):
            # {k: g(v) for k, v in <...kw_parameters.items()>}
            if isinstance(x, ast.DictComp) and any("kw_parameters" in ast.unparse(g_.iter)
                                                   for g_ in x.generators):
                gen = x.generators[0]
                ok = isinstance(gen.target, ast.Tuple) and len(gen.target.elts) == 2 \
                    and all(isinstance(e, ast.Name) for e in gen.target.elts)
                if ok:
                    k, v = (e.id for e in gen.target.elts)
                    used = {y.id for y in ast.walk(x.value) if isinstance(y, ast.Name)}
                    ok = dotted(x.key) == k and v in used and k not in used \
                        and ".items()" in ast.unparse(gen.iter)
                n += 1
                run.ob("C07.kwpair", f, x, ok,
                       construct=f"{{name: <transform of its value> for name, value in "
                                 f"{norm(gen.iter, 60)}}}",
                       why="a keyword argument that ends up under another name changes "
                           "the call")
            # for k, v in <...kw_parameters.items()>: D[k] = <from v>
            if isinstance(x, ast.For) and "kw_parameters" in ast.unparse(x.iter) \
                    and isinstance(x.target, ast.Tuple) and len(x.target.elts) == 2 \
                    and all(isinstance(e, ast.Name) for e in x.target.elts):
                k, v = (e.id for e in x.target.elts)
                stores = [s_ for s_ in ast.walk(x) if isinstance(s_, ast.Assign)
                          and isinstance(s_.targets[0], ast.Subscript)]
                ok = bool(stores) and all(
                    dotted(s_.targets[0].slice) == k and any(
                        isinstance(y, ast.Name) and y.id == v for y in ast.walk(s_.value))
                    for s_ in stores)
                n += 1
                run.ob("C07.kwpair", f, x, ok,
                       construct=f"for name, value in {norm(x.iter, 60)}: <mapping>[name] = <from value>",
                       why="a keyword argument that ends up under another name changes "
                           "the call")
            # zip(<names>, <values>) built separately
            if isinstance(x, ast.Call) and dotted(x.func) == "zip" and len(x.args) == 2 \
                    and "kw_parameters" in ast.unparse(x) + "".join(
                        ast.unparse(_resolve_local_c07(f.node, a_)) for a_ in x.args):
                a = _seq_signature(f.node, x.args[0])
                b = _seq_signature(f.node, x.args[1])
                n += 1
                run.ob("C07.kwpair", f, x, a == b,
                       construct=f"zip(names from {a[0]}{' via ' + '/'.join(a[1]) if a[1] else ''}, "
                                 f"values from {b[0]}{' via ' + '/'.join(b[1]) if b[1] else ''})",
                       why="names and values are paired by position: ordering one sequence "
                           "and not the other gives f(alpha=B, beta=A) for f(beta=B, alpha=A)")
    if n < 2:
        raise AnalysisError("C07.kwpair: keyword mappings rebuilt by the passes not found")


def _resolve_local_c07(fn, expr):
    if isinstance(expr, ast.Name):
        defs = [s_.value for s_ in ast.walk(fn) if isinstance(s_, ast.Assign)
                and len(s_.targets) == 1 and isinstance(s_.targets[0], ast.Name)
                and s_.targets[0].id == expr.id]
        if len(defs) == 1:
            return defs[0]
    return expr


def _name_fields(P, K):
    out = set()
    if K.name == "Assign":
        out.add("loops[*][0]")
    return out


def check(run, P):
    run.do(_check_main, run, P)
    from . import generic
    generic.lints(run, P, "C07")
