"""C01 - interpreter and generated Python stepper both implement the written
program."""

from __future__ import annotations

import ast
import textwrap

from ..engine.cfg import CFG, walk_fragment
from ..engine.match import dotted, norm, func_body_stmts, string_value, kwarg, string_prefix
from ..engine.srcmodel import AnalysisError, Class, Func, const_str
from . import stmtmodel as sm

EXPLANATION = (
    "Sibling-agreement analysis between dagrt/exec_numpy.py + expression.py "
    "and dagrt/codegen/python.py (including the Python source held in its "
    "template strings, parsed with ast) + codegen/expressions.py + "
    "function_registry.py + builtins_python.py. Decides: every statement "
    "kind has a handler in both back ends (or in neither); the two driver "
    "loops (run) have the same protocol summary (t_end / max_steps tests, "
    "step, fail and transition handlers, StepCompleted fields, step counter) "
    "modulo a renaming table derived from the name manager; both advance "
    "next_phase to the default successor before running the phase body and "
    "the transition table is built from phase.next_phase and the emitted "
    "function names; event tuples agree position by position; every built-in "
    "is bound the same way (registry arg_names/defaults == Python signature, "
    "pattern calls the same function chain); every statement field the "
    "interpreter evaluates is printed by the emitter; store deletions are "
    "absence tolerant and variable lookup is total; the interpreter keeps "
    "exactly the names is_state_variable classifies as persistent; printer "
    "precedences (conditional expression, power base, signed constants) "
    "force the parentheses Python needs; every generated phase function is "
    "a generator (per-phase reset of the yield flag); the builder's guard "
    "bookkeeping (shared with C02). Does not decide: equality of computed "
    "values, events and state for arbitrary programs.")

ASSUMPTIONS = [
    "template strings in python.py are the arguments of emit(\"\"\"...\"\"\") calls and parse as Python after dedent",
    "pymbolic's StringifyMapper is otherwise correct (only the overridden / precedence-sensitive handlers are examined)",
]

PY = "dagrt.codegen.python"
PYGEN = f"{PY}.CodeGenerator"
INTERP = "dagrt.exec_numpy.NumpyInterpreter"


def _check_main(run, P):
    run.rule("C01.handlers", "every statement kind is handled by the interpreter "
             "and by the Python (and Fortran) emitter, or by none", minimum=8)
    run.rule("C01.driver", "NumpyInterpreter.run and the generated run() have the "
             "same protocol summary modulo the name correspondence", minimum=1)
    run.rule("C01.step", "both back ends set next_phase to the default successor "
             "before the phase body runs; the transition table agrees with the "
             "emitted phase functions", minimum=4)
    run.rule("C01.events", "event tuples agree position by position", minimum=3)
    run.rule("C01.binding", "built-ins: registry identifier, arg_names and defaults "
             "equal the Python implementation's signature; the Python pattern "
             "calls the same function chain", minimum=26)
    run.rule("C01.fields", "every statement field the interpreter evaluates is "
             "printed by the Python emitter for that kind", minimum=6)
    run.rule("C01.store", "store deletions are absence tolerant; variable lookup "
             "is total (returns or raises on every path)", minimum=2)
    run.rule("C01.persist", "the interpreter keeps exactly the names "
             "is_state_variable classifies persistent, which is what the name "
             "managers dispatch on", minimum=3)
    run.rule("C01.prec", "printer precedences force the parentheses the target "
             "needs (conditional expression, power base, signed constant)", minimum=5)
    run.rule("C01.genfunc", "every generated phase function is a generator: the "
             "yield flag is reset per phase and consulted by every exit", minimum=4)
    run.rule("C01.effects", "every statement kind has its effect on every path through "
             "its handler, in the interpreter and in the Python generator: the call "
             "is made, the value stored, the event produced, the exception raised",
             minimum=12)
    run.do(_effects, run, P)
    run.rule("C01.arrays", "array constants have the element type the interpreter gives "
             "them; the bounds of an inner array loop are evaluated inside the outer "
             "loop, in both back ends", minimum=3)
    run.do(_arrays, run, P)
    run.rule("C01.builder", "builder bookkeeping: guards, fresh names and the "
             "dependency edges that make every admissible order equal the written order "
             "(shared with C02)", minimum=25)

    run.rule("C01.calls", "a call inside an expression: the interpreter takes the callee "
             "from the function table only (shared with C08.reads), evaluates every "
             "positional argument in order and every keyword argument under its own name; "
             "the Python printer prints them likewise", minimum=5)
    run.do(_calls, run, P)
    run.rule("C01.setup", "set_up: both back ends start from the same store - t and dt from "
             "the arguments, every entry X of the context as <state>X", minimum=5)
    run.do(_setup, run, P)
    run.do(_handlers, run, P)
    run.do(_driver, run, P)
    run.do(_step, run, P)
    run.do(_events, run, P)
    run.do(_binding, run, P)
    run.do(_selfcontained, run, P)
    run.rule("C01.names", "generated identifiers are the same on every look-up within a phase "
             "function and are not remembered across phase functions (shared with C13.memo)",
             minimum=5)
    from . import c13 as _c13
    _alias(run, "C13.memo", "C01.names", lambda: _c13._memo(run, P))
    _alias(run, "C13.memo", "C01.names", lambda: _c13._no_consumer_cache(run, P))
    from . import c09 as _c09
    run.do(_c09.resolve_rule, run, P, "C01.binding")
    run.do(_fields, run, P)
    run.do(_store, run, P)
    run.do(_persist, run, P)
    run.do(_prec, run, P)
    run.do(_genfunc, run, P)
    # lowering and plan execution are part of both back ends' contract
    run.rule("C01.lower", "the lowering keeps order, loops and guards (shared with "
             "C05.topo / C05.wrap / C05.table / C05.walker and the clauses of C06)", minimum=30)
    run.rule("C01.plan", "the interpreter's plan execution (shared with C04.post / "
             "C04.front / C04.mark / C04.dispatch / C04.reset / C04.sinks / "
             "C04.guardeval)", minimum=15)
    run.rule("C01.wrap", "line wrapping keeps tokens (shared with C20.lexer)", minimum=1)
    from . import c04, c05, c20
    for src_rule, fn in (("C05.topo", None), ("C05.wrap", None)):
        run.rule_docs[src_rule] = ""
        run.minimum[src_rule] = 0
    n0 = len(run.obs)
    run.do(c05._topo_wrap, run, P)
    for o in run.obs[n0:]:
        o.rule = "C01.lower"
    for src_rule in ("C05.topo", "C05.wrap"):
        del run.rule_docs[src_rule]
        del run.minimum[src_rule]
    run.do(c05.lowering_table, run, P, "C01.lower")
    _alias(run, "C05.walker", "C01.lower", lambda: c05._walker(run, P))
    # the simplifier sits between the lowering and the walker of the Python generator
    c05.simplifier_clauses(run, P, "C01.lower")
    C = P.cls(c04.EC)
    _alias(run, "C04.post", "C01.plan", lambda: c04._post(run, P, C))
    _alias(run, "C04.post", "C01.plan", lambda: c04._skipsets(run, P, C))
    _alias(run, "C04.front", "C01.plan", lambda: c04._front(run, P, C))
    for src_rule in ("C04.mark", "C04.dispatch"):
        run.rule_docs[src_rule] = ""
        run.minimum[src_rule] = 0
    n0 = len(run.obs)
    run.do(c04._mark, run, P, C)
    for o in run.obs[n0:]:
        o.rule = "C01.plan"
    for src_rule in ("C04.mark", "C04.dispatch"):
        del run.rule_docs[src_rule]
        del run.minimum[src_rule]
    _alias(run, "C04.reset", "C01.plan", lambda: c04._reset(run, P, C))
    _alias(run, "C04.sinks", "C01.plan", lambda: c04._sinks(run, P))
    _alias(run, "C04.guardeval", "C01.plan", lambda: c04._guardeval(run, P))
    _alias(run, "C20.lexer", "C01.wrap",
           lambda: c20._lexer(run, P, P.func("dagrt.codegen.utils.wrap_line_base")))

    from . import c02
    f = P.func("dagrt.language.CodeBuilder._add_statement")
    _alias(run, "C02.cond", "C01.builder", lambda: c02._condition(run, P, f))
    _alias(run, "C02.guard", "C01.builder", lambda: c02._guard(run, P))
    _alias(run, "C02.fresh", "C01.builder", lambda: c02._fresh(run, P))
    # the edges that make every admissible order equal to the written order
    for r_ in ("C02.raw_waw", "C02.war", "C02.order", "C02.maps", "C02.stored", "C02.barrier"):
        run.rule_docs.setdefault(r_, "")
        run.minimum.setdefault(r_, 0)
    n0_ = len(run.obs)
    c02.edges(run, P)
    for o_ in run.obs[n0_:]:
        if o_.rule.startswith("C02."):
            o_.rule = "C01.builder"
    for r_ in ("C02.raw_waw", "C02.war", "C02.order", "C02.maps", "C02.stored", "C02.barrier"):
        run.rule_docs.pop(r_, None)
        run.minimum.pop(r_, None)


def store_helpers(P):
    """Methods of the interpreter that bind <first parameter> to <second parameter> in the
    variable store (and may keep books about it): a call of one is a store."""
    C = P.cls(INTERP)
    out = set()
    for name, m in C.methods.items():
        ps = m.params[1:]
        if len(ps) < 2:
            continue
        for x in ast.walk(m.node):
            if isinstance(x, ast.Assign) and any(
                    isinstance(t, ast.Subscript) and dotted(t.value) == "self.context"
                    and dotted(t.slice) == ps[0] for t in x.targets) and dotted(x.value) == ps[1]:
                out.add(f"self.{name}")
    return out


def _alias(run, src_rule, dst_rule, thunk):
    """Evaluate a rule function of another property under this property's id."""
    had = src_rule in run.rule_docs
    if not had:
        run.rule_docs[src_rule] = ""
        run.minimum[src_rule] = 0
    n0 = len(run.obs)
    run.do(thunk)
    for o in run.obs[n0:]:
        if o.rule == src_rule:
            o.rule = dst_rule
    if not had:
        del run.rule_docs[src_rule]
        del run.minimum[src_rule]


# {{{ arrays and loop nests

def _arrays(run, P):
    ev = P.cls("pymbolic.mapper.evaluator.EvaluationMapper")
    ma = P.method(ev, "map_numpy_array")
    lib_object = ma is not None and "dtype=object" in ast.unparse(ma.node)
    gm = P.func("dagrt.codegen.expressions.PythonExpressionMapper.map_numpy_array")
    tmpl = [string_value(x.func.value) for x in ast.walk(gm.node)
            if isinstance(x, ast.Call) and isinstance(x.func, ast.Attribute) and x.func.attr == "format"
            and string_value(x.func.value)]
    gen_object = any("dtype='object'" in t or "dtype=object" in t for t in tmpl if t)
    run.ob("C01.arrays", gm, gm.node, lib_object and gen_object,
           construct=f"array constant: interpreter builds dtype=object ({lib_object}); generated text "
                     f"says {'dtype=object' if gen_object else 'no dtype'}",
           why="an all-integer constant becomes an int64 array in generated code: later "
               "element stores of fractions are truncated there and nowhere else")
    # interpreter: bounds of loop k are evaluated while loops 0..k-1 are bound
    ea = P.func(f"{INTERP}.exec_Assign")
    early = [x for x in ast.walk(ea.node) if isinstance(x, (ast.ListComp, ast.GeneratorExp, ast.SetComp))
             and any("loops" in ast.unparse(g_.iter) for g_ in x.generators)
             and any(isinstance(y, ast.Call) and dotted(y.func) == "self.eval_mapper" for y in ast.walk(x.elt))]
    nested = [g_ for g_ in ea.nested.values() if any(
        isinstance(y, ast.Call) and isinstance(y.func, ast.Name) and y.func.id == g_.name
        for y in ast.walk(g_.node))]
    rec_in_loop = False
    for g_ in nested:
        for lp in [n for n in ast.walk(g_.node) if isinstance(n, ast.For)]:
            evals = any(isinstance(y, ast.Call) and dotted(y.func) == "self.eval_mapper"
                        for y in ast.walk(lp.iter))
            recs = any(isinstance(y, ast.Call) and isinstance(y.func, ast.Name) and y.func.id == g_.name
                       for b in lp.body for y in ast.walk(b))
            binds = any(isinstance(y, ast.Assign) and any(
                isinstance(t, ast.Subscript) and dotted(t.value) == "self.context" for t in y.targets)
                for b in lp.body for y in ast.walk(b)) or any(
                isinstance(y, ast.Call) and dotted(y.func) in store_helpers(P)
                for b in lp.body for y in ast.walk(b))
            if evals and recs and binds:
                rec_in_loop = True
    run.ob("C01.arrays", ea, early[0] if early else ea.node, rec_in_loop and not early,
           construct="interpreter: each loop evaluates its own bounds, binds its identifier, then "
                     "enters the remaining loops" + ("; found all bounds evaluated up front" if early else ""),
           why="bounds evaluated before any identifier is bound: a triangular nest "
               "[(i,0,n),(j,0,i+1)] raises UnknownVariableError in the interpreter while "
               "generated code runs it")
    gl = P.func("dagrt.codegen.dag_ast.loop_to_ast_node")
    src = ast.unparse(gl.node)
    run.ob("C01.arrays", gl, gl.node, "loops[0]" in src and "loops[1:]" in src and "lbound" in src,
           construct="generated code: one ForLoop node per loop, outermost first, bounds kept as "
                     "expressions of the node (C05.table has the details)",
           why="the emitted nest evaluates inner bounds inside the outer loop")

# }}}


# {{{ effects

def _must_pass(g, effect_nodes):
    """No normal exit is reachable from the entry without passing an effect node."""
    if not effect_nodes:
        return False
    reach = g.reachable([g.entry], avoid=effect_nodes, follow_exc=False, include_start=True)
    return g.exit not in reach


def _effects(run, P):
    from ..engine.cfg import CFG, walk_fragment, own_fragments
    I = P.cls(INTERP)
    G = P.cls(PYGEN)

    def nodes(g, pred):
        out = []
        for n in g.nodes:
            if n.ast is None:
                continue
            frs = own_fragments(n)
            if n.kind == "stmt" and pred(n.ast, [x for fr in frs for x in walk_fragment(fr)]):
                out.append(n)
        # a loop whose body always has the effect counts (zero-trip loops aside)
        def block_has(block):
            for s_ in block:
                if isinstance(s_, ast.If):
                    if block_has(s_.body) and block_has(s_.orelse):
                        return True
                elif isinstance(s_, (ast.For, ast.While)):
                    if block_has(s_.body):
                        return True
                elif not isinstance(s_, (ast.FunctionDef, ast.ClassDef)) \
                        and pred(s_, list(ast.walk(s_))):
                    return True
            return False

        for n in g.nodes:
            if n.kind == "for" and block_has(n.ast.body):
                out.append(n)
        return out

    def is_raise(exc_part):
        return lambda st, xs: isinstance(st, ast.Raise) and st.exc is not None \
            and exc_part in ast.unparse(st.exc)

    def emits(prefixes):
        def pred(st, xs):
            for x in xs:
                if isinstance(x, ast.Call) and dotted(x.func) in ("self._emit", "self._emitter", "emitter") \
                        and x.args:
                    a = x.args[0]
                    if isinstance(a, ast.Call) and isinstance(a.func, ast.Attribute) and a.func.attr == "format":
                        a = a.func.value
                    txt = string_prefix(a)
                    if txt is not None and any(txt.startswith(p_) or p_ in txt for p_ in prefixes):
                        return True
            return False
        return pred

    def user_call(st, xs):
        fnames = set()
        return any(isinstance(x, ast.Call) and isinstance(x.func, ast.Name)
                   and any(isinstance(k, ast.Starred) for k in x.args) for x in xs)

    helpers_ = store_helpers(P)

    def store(st, xs):
        return (isinstance(st, ast.Assign) and any(
            isinstance(t, ast.Subscript) and (dotted(t.value) == "self.context" or (
                isinstance(t.value, ast.Subscript) and dotted(t.value.value) == "self.context"))
            for t in st.targets)) or (
            isinstance(st, ast.Expr) and isinstance(st.value, ast.Call)
            and dotted(st.value.func) in helpers_)

    def returns_event(st, xs):
        return isinstance(st, ast.Return) and st.value is not None \
            and any(isinstance(x, ast.Call) and (dotted(x.func) or "").endswith("StateComputed")
                    for x in xs)

    table = [
        ("AssignFunctionCall", user_call, "calls the looked-up function",
         emits(["{assign_code}{expr}", "{expr}"]), "emits the call"),
        ("Assign", store, "stores into the variable store",
         emits(["{name}{sub} = {expr}", " = "]), "emits the assignment"),
        ("YieldState", returns_event, "returns a StateComputed event",
         emits(["yield self.StateComputed("]), "emits the yield"),
        ("Raise", is_raise("error_condition"), "raises the statement's error",
         emits(["raise self.StepError("]), "emits the raise"),
        ("FailStep", is_raise("FailStepException"), "raises FailStepException",
         emits(["raise self.FailStepException("]), "emits the raise"),
        ("SwitchPhase", is_raise("TransitionEvent"), "raises TransitionEvent",
         emits(["raise self.TransitionEvent("]), "emits the raise"),
    ]
    for kind, ipred, idesc, gpred, gdesc in table:
        fi = P.method(I, f"exec_{kind}")
        fg = P.method(G, f"emit_inst_{kind}")
        if fi is None or fg is None:
            raise AnalysisError(f"exec_{kind} / emit_inst_{kind} not found")
        g1 = CFG(fi.node)
        n1 = nodes(g1, ipred)
        raising = kind in ("Raise", "FailStep", "SwitchPhase")
        ok = bool(n1) and (g1.exit not in g1.reachable([g1.entry], follow_exc=False, include_start=True)
                           if raising else _must_pass(g1, n1))
        run.ob("C01.effects", fi, n1[0].ast if n1 else fi.node, ok,
               construct=f"interpreter exec_{kind}: {idesc} on every path",
               why="a handler that returns early (no assignees -> nothing to do) skips "
                   "an effect the generated code still has, or the reverse")
        g2 = CFG(fg.node)
        n2 = nodes(g2, gpred)
        run.ob("C01.effects", fg, n2[0].ast if n2 else fg.node, _must_pass(g2, n2),
               construct=f"generated emit_inst_{kind}: {gdesc} on every path",
               why="the emitted code must have the effect the interpreter has")

# }}}


# {{{ handlers

def _raises_only(f: Func):
    body = [s for s in f.node.body if not (isinstance(s, ast.Expr)
                                           and isinstance(s.value, ast.Constant))]
    return len(body) == 1 and isinstance(body[0], ast.Raise) \
        and body[0].exc is not None \
        and "NotImplementedError" in ast.unparse(body[0].exc)


def _handlers(run, P):
    I = P.cls(INTERP)
    G = P.cls(PYGEN)
    F = P.cls("dagrt.codegen.fortran.CodeGenerator")
    lower = P.func("dagrt.codegen.dag_ast.create_ast_from_phase")
    dropped = set()
    for n in ast.walk(lower.node):
        if isinstance(n, ast.If) and isinstance(n.test, ast.Call) \
                and dotted(n.test.func) == "isinstance" \
                and n.body and isinstance(n.body[0], ast.Continue):
            c = n.test.args[1]
            for e in (c.elts if isinstance(c, ast.Tuple) else [c]):
                dropped.add(dotted(e))
    # the same filter written into a comprehension: [... for s in ... if not isinstance(s, Nop)]
    for n in ast.walk(lower.node):
        if isinstance(n, ast.comprehension):
            for t_ in n.ifs:
                if isinstance(t_, ast.UnaryOp) and isinstance(t_.op, ast.Not) \
                        and isinstance(t_.operand, ast.Call) and dotted(t_.operand.func) == "isinstance" \
                        and len(t_.operand.args) == 2:
                    c = t_.operand.args[1]
                    for e in (c.elts if isinstance(c, ast.Tuple) else [c]):
                        dropped.add(dotted(e))
    for K in sm.statement_classes(P):
        ex = sm.exec_method_name(P, K)
        fi = P.method(I, ex)
        i_ok = fi is not None and not _raises_only(fi)
        for gen, label in ((G, "python"), (F, "fortran")):
            fe = P.method(gen, "emit_inst_" + K.name)
            g_ok = (fe is not None and not _raises_only(fe)) or K.name in dropped
            if ex != "exec_" + K.name:
                ok = False
                why = f"exec_method {ex!r} does not follow the exec_<Class> convention"
            else:
                ok = i_ok == g_ok or (label == "fortran" and i_ok and not g_ok and False)
                why = (f"{K.name}: interpreter "
                       f"{'handles' if i_ok else 'rejects'} it, {label} generator "
                       f"{'handles' if g_ok else 'rejects'} it"
                       f"{' (dropped by the lowering)' if K.name in dropped else ''}")
            run.ob("C01.handlers", fi if fi is not None else I, None, ok,
                   construct=f"{K.name}: {ex} / {label}.emit_inst_{K.name}",
                   why=why + "; a kind handled by one back end only makes the other raise")

# }}}


# {{{ driver protocol

RENAME = {
    'self.context["<t>"]': "T", "self.context['<t>']": "T", "self.t": "T",
    'self.context["<dt>"]': "DT", "self.context['<dt>']": "DT", "self.dt": "DT",
    "self.FailStepException": "FailStepException", "self.TransitionEvent": "TransitionEvent",
    "self.StepFailed": "StepFailed", "self.StepCompleted": "StepCompleted",
    "self.StateComputed": "StateComputed",
}
KW_RENAME = {"current_phase": "current", "current_state": "current"}


class _Norm(ast.NodeTransformer):
    def visit_Attribute(self, node):
        s = ast.unparse(node)
        if s in RENAME:
            return ast.Name(id=RENAME[s], ctx=ast.Load())
        return self.generic_visit(node)

    def visit_Subscript(self, node):
        s = ast.unparse(node)
        if s in RENAME:
            return ast.Name(id=RENAME[s], ctx=ast.Load())
        return self.generic_visit(node)

    def visit_Name(self, node):
        if node.id in RENAME:
            return ast.Name(id=RENAME[node.id], ctx=ast.Load())
        return node

    def visit_keyword(self, node):
        node = self.generic_visit(node)
        if node.arg in KW_RENAME:
            node.arg = KW_RENAME[node.arg]
        return node


def _n(e):
    import copy
    return ast.unparse(_Norm().visit(copy.deepcopy(e)))


def _summary(stmts):
    out = []
    for s in stmts:
        if isinstance(s, ast.Expr) and isinstance(s.value, ast.Constant):
            continue
        if isinstance(s, ast.If):
            out.append(("if", _n(s.test), tuple(_summary(s.body)), tuple(_summary(s.orelse))))
        elif isinstance(s, ast.While):
            out.append(("while", _n(s.test), tuple(_summary(s.body))))
        elif isinstance(s, ast.For):
            # for x in E: yield x   ==   yield from E
            if len(s.body) == 1 and isinstance(s.body[0], ast.Expr) \
                    and isinstance(s.body[0].value, ast.Yield) \
                    and dotted(s.body[0].value.value) == dotted(s.target) and not s.orelse:
                out.append(("yieldfrom", _n(s.iter)))
            else:
                out.append(("for", _n(s.target), _n(s.iter), tuple(_summary(s.body))))
        elif isinstance(s, ast.Try):
            out.append(("try", tuple(_summary(s.body)),
                        tuple((_n(h.type) if h.type else "", "E" if h.name else "",
                               tuple(_summary(_rename_exc(h))))
                              for h in s.handlers),
                        tuple(_summary(s.orelse)), tuple(_summary(s.finalbody))))
        elif isinstance(s, ast.Return):
            out.append(("return", _n(s.value) if s.value else ""))
        elif isinstance(s, ast.Continue):
            out.append(("continue",))
        elif isinstance(s, ast.Break):
            out.append(("break",))
        elif isinstance(s, ast.Assign):
            out.append(("assign", tuple(_n(t) for t in s.targets), _n(s.value)))
        elif isinstance(s, ast.AugAssign):
            out.append(("aug", _n(s.target), type(s.op).__name__, _n(s.value)))
        elif isinstance(s, ast.Expr) and isinstance(s.value, ast.Yield):
            out.append(("yield", _call_summary(s.value.value)))
        elif isinstance(s, ast.Expr) and isinstance(s.value, ast.YieldFrom):
            out.append(("yieldfrom", _n(s.value.value)))
        elif isinstance(s, ast.Expr):
            out.append(("expr", _n(s.value)))
        elif isinstance(s, ast.Pass):
            pass
        else:
            out.append((type(s).__name__, _n(s)))
    return out


def _rename_exc(h):
    """Normalise the exception variable name to E inside a handler."""
    if not h.name:
        return h.body
    import copy
    body = copy.deepcopy(h.body)
    for s in body:
        for x in ast.walk(s):
            if isinstance(x, ast.Name) and x.id == h.name:
                x.id = "E"
    return body


def _call_summary(v):
    """Constructor call with keyword order normalised to positional order of
    appearance is kept (events are compared positionally elsewhere); here
    keywords are compared as a sorted mapping."""
    if isinstance(v, ast.Call):
        import copy
        kws = sorted((KW_RENAME.get(k.arg, k.arg), _n(k.value)) for k in v.keywords if k.arg)
        return (_n(v.func), tuple(_n(a) for a in v.args), tuple(kws))
    return _n(v) if v is not None else ""


def template_of(P, meth_name):
    """Parse the Python source in the template string of CodeGenerator.<meth>."""
    f = P.func(f"{PYGEN}.{meth_name}")
    strs = []
    emitters = set()
    for n in ast.walk(f.node):
        if isinstance(n, ast.Assign) and isinstance(n.value, ast.Call) \
                and (dotted(n.value.func) or "").endswith("Emitter"):
            emitters |= {t.id for t in n.targets if isinstance(t, ast.Name)}
    for n in ast.walk(f.node):
        if isinstance(n, ast.Call) and dotted(n.func) in emitters and n.args:
            s = string_value(n.args[0])
            if s is not None and "\n" in s:
                strs.append((n, s))
    if len(strs) != 1:
        raise AnalysisError(f"{f.fq}: expected one multi-line template, found {len(strs)}")
    node, src = strs[0]
    try:
        tree = ast.parse(textwrap.dedent(src))
    except SyntaxError as e:
        raise AnalysisError(f"{f.fq}: template does not parse: {e}")
    from ..engine.srcmodel import _canonicalise
    _canonicalise(tree)
    return f, node, tree


def _canon_locals(stmts, params=()):
    """Rename locals (names stored anywhere in the statements) to l0, l1, ...
    in order of first store, so that summaries are invariant under renaming."""
    import copy
    stmts = copy.deepcopy(list(stmts))
    # dead stores of constants (a name bound to a literal and never read) are
    # unobservable: drop them before comparing the two drivers
    loaded = {x.id for s_ in stmts for x in ast.walk(s_)
              if isinstance(x, ast.Name) and isinstance(x.ctx, ast.Load)}

    def dead(s_):
        return isinstance(s_, ast.Assign) and isinstance(s_.value, ast.Constant) \
            and all(isinstance(t, ast.Name) and t.id not in loaded for t in s_.targets)

    def prune(block):
        kept = [s_ for s_ in block if not dead(s_)]
        block[:] = kept or [ast.Pass()]

    for s_ in [ast.Module(body=stmts, type_ignores=[])] + [x for s0 in stmts for x in ast.walk(s0)]:
        for fld in ("body", "orelse", "finalbody"):
            blk = getattr(s_, fld, None)
            if isinstance(blk, list) and blk and isinstance(blk[0], ast.stmt):
                prune(blk)
    order = []
    for s_ in stmts:
        for x in ast.walk(s_):
            if isinstance(x, ast.Name) and isinstance(x.ctx, ast.Store) \
                    and x.id not in order and x.id not in params and x.id not in RENAME:
                order.append(x.id)
            if isinstance(x, ast.ExceptHandler) and x.name and x.name not in order:
                order.append(x.name)
    # names with a fixed role keep it
    ren = {n: f"l{i}" for i, n in enumerate(order)}
    for s_ in stmts:
        for x in ast.walk(s_):
            if isinstance(x, ast.Name) and x.id in ren and x.id not in RENAME:
                x.id = ren[x.id]
            if isinstance(x, ast.ExceptHandler) and x.name in ren:
                x.name = ren[x.name]
    return stmts


def _driver(run, P):
    from .util import nodoc
    fi = P.func(f"{INTERP}.run")
    fg, node, tree = template_of(P, "_emit_run")
    # cur_state / cur_phase keep their role through RENAME; other locals are canonicalised
    a = _summary(_canon_locals(nodoc(fi.node.body), fi.params))
    b = _summary(_canon_locals(nodoc(tree.body), fi.params))
    ok = a == b
    detail = ""
    if not ok:
        detail = _first_diff(a, b)
    run.ob("C01.driver", fg, node, ok,
           construct="protocol summary of NumpyInterpreter.run == generated run()",
           why="the two driver loops differ; the event stream / step counting / "
               "phase hand-over then differs for some run length, failing step or "
               "phase switch", detail=detail)
    # signature agreement
    emit_ctor = [n for n in ast.walk(fg.node) if isinstance(n, ast.Call)
                 and dotted(n.func) == "PythonFunctionEmitter"]
    sig_ok = False
    if emit_ctor and len(emit_ctor[0].args) >= 2 and isinstance(emit_ctor[0].args[1], ast.Tuple):
        gen_args = [string_value(e) for e in emit_ctor[0].args[1].elts]
        a_ = fi.node.args
        names = [x.arg for x in a_.args]
        defaults = [None] * (len(names) - len(a_.defaults)) + [ast.unparse(d) for d in a_.defaults]
        int_args = [n if d is None else f"{n}={d}" for n, d in zip(names, defaults)]
        sig_ok = gen_args == int_args
    run.ob("C01.driver", fg, emit_ctor[0] if emit_ctor else fg.node, sig_ok,
           construct="run(self, t_end=None, max_steps=None) in both",
           why="callers bound a run by keyword")


def _first_diff(a, b, path="run"):
    if type(a) != type(b):
        return f"{path}: {a!r} vs {b!r}"
    if isinstance(a, (list, tuple)):
        for i, (x, y) in enumerate(zip(a, b)):
            if x != y:
                return _first_diff(x, y, f"{path}[{i}]")
        if len(a) != len(b):
            return f"{path}: lengths {len(a)} vs {len(b)}; extra {list(a[len(b):]) or list(b[len(a):])!r}"
        return ""
    return f"{path}: interpreter {a!r} vs generated {b!r}"

# }}}


def _step(run, P):
    fi = P.func(f"{INTERP}.run_single_step")
    g = CFG(fi.node)
    assigns = [n for n in g.nodes if n.kind == "stmt" and isinstance(n.ast, ast.Assign)
               and any(dotted(t) == "self.next_phase" for t in n.ast.targets)]
    body = [n for n in g.nodes if n.kind == "stmt" and any(
        isinstance(x, ast.Call) and dotted(x.func) == "self.exec_controller"
        for x in walk_fragment(n.ast))]
    if not body:
        raise AnalysisError("run_single_step: execution of the phase body not found")
    ok = len(assigns) == 1 and not g.always_preceded(body, assigns) \
        and isinstance(assigns[0].ast.value, ast.Attribute) \
        and assigns[0].ast.value.attr == "next_phase"
    # the phase whose successor is taken is the one that is run
    if ok:
        ph = dotted(assigns[0].ast.value.value)
        call = [x for x in walk_fragment(body[0].ast) if isinstance(x, ast.Call)
                and dotted(x.func) == "self.exec_controller"][0]
        ok = dotted(call.args[0]) == ph
        src = [s for s in func_body_stmts(fi.node) if isinstance(s, ast.Assign)
               and any(dotted(t) == ph for t in s.targets)]
        ok = ok and len(src) == 1 and norm(src[0].value) == "self.code.phases[self.next_phase]"
    run.ob("C01.step", fi, assigns[0].ast if assigns else fi.node, ok,
           construct="self.next_phase = <phase>.next_phase before the body of <phase> runs",
           why="a failing or raising step must leave next_phase at the default "
               "successor in both back ends; assigned after the body, the "
               "interpreter stays in the failed phase")
    fg, node, tree = template_of(P, "_emit_run_single_step")
    gt = CFG(ast.parse("def f(self):\n" + textwrap.indent(ast.unparse(tree), "    ")).body[0])
    tup = [n for n in gt.nodes if n.kind == "stmt" and isinstance(n.ast, ast.Assign)
           and "self.phase_transition_table[self.next_phase]" in ast.unparse(n.ast.value)]
    ok = False
    if len(tup) == 1 and isinstance(tup[0].ast.targets[0], ast.Tuple):
        elts = [dotted(e) for e in tup[0].ast.targets[0].elts]
        if len(elts) == 2 and elts[0] == "self.next_phase":
            fn = elts[1]
            calls = [n for n in gt.nodes if any(
                isinstance(x, ast.Call) and dotted(x.func) == fn
                for fr in __import__("verif.engine.cfg", fromlist=["own_fragments"]).own_fragments(n)
                for x in walk_fragment(fr))]
            ok = bool(calls) and not gt.always_preceded(calls, tup)
    run.ob("C01.step", fg, node, ok,
           construct="self.next_phase, phase_func = table[self.next_phase] before phase_func()",
           why="same hand-over as the interpreter, including failed steps")
    # the table literal
    fc = P.func(f"{PYGEN}._emit_constructor")
    comps = [n for n in ast.walk(fc.node) if isinstance(n, ast.DictComp)]
    ok = False
    prefix = None
    if len(comps) == 1:
        c = comps[0]
        gen = c.generators[0]
        it_ = gen.iter
        if isinstance(it_, ast.Call) and dotted(it_.func) in ("sorted", "list", "tuple") \
                and len(it_.args) == 1 and not it_.keywords:
            it_ = it_.args[0]
        if isinstance(gen.target, ast.Tuple) and len(gen.target.elts) == 2 \
                and norm(it_) == f"{fc.arg(0)}.phases.items()" and not gen.ifs:
            kname, pname = (e.id for e in gen.target.elts)
            v = c.value
            if isinstance(c.key, ast.Name) and c.key.id == kname and isinstance(v, ast.Tuple) \
                    and len(v.elts) == 2 and dotted(v.elts[0]) == f"{pname}.next_phase" \
                    and isinstance(v.elts[1], ast.Call) and v.elts[1].args:
                arg = v.elts[1].args[0]
                if isinstance(arg, ast.BinOp) and dotted(arg.right) == kname:
                    prefix = string_value(arg.left)
                    ok = prefix is not None and prefix.startswith("self.")
    # the method name made by a helper of the generator, in the table and at the def alike
    G_ = fc.cls
    helper_calls = [x for x in ast.walk(comps[0]) if isinstance(x, ast.Call)
                    and (dotted(x.func) or "").startswith("self.") and dotted(x.func).count(".") == 1
                    and dotted(x.func)[5:] in G_.methods and len(x.args) == 1] if (not ok and comps) else []
    if helper_calls:
        hname = dotted(helper_calls[0].func)[5:]
        fd_ = P.func(f"{PYGEN}.emit_def_begin")
        at_def = any(isinstance(n, ast.Call) and dotted(n.func) == "PythonFunctionEmitter" and n.args
                     and isinstance(n.args[0], ast.Call) and dotted(n.args[0].func) == f"self.{hname}"
                     for n in ast.walk(fd_.node))
        h = G_.methods[hname]
        rets_ = [r.value for r in ast.walk(h.node) if isinstance(r, ast.Return) and r.value is not None]
        unique_maps = {t_.attr for m_ in G_.methods.values() for a_ in ast.walk(m_.node)
                       if isinstance(a_, ast.Assign) and isinstance(a_.value, ast.Call)
                       and (dotted(a_.value.func) or "").endswith("KeyToUniqueNameMap")
                       for t_ in a_.targets if isinstance(t_, ast.Attribute) and dotted(t_.value) == "self"}
        injective = bool(rets_) and all(
            isinstance(r, ast.Call) and isinstance(r.func, ast.Attribute)
            and r.func.attr == "get_or_make_name_for_key" and isinstance(r.func.value, ast.Attribute)
            and r.func.value.attr in unique_maps and len(r.args) == 1
            and dotted(r.args[0]) == h.arg(0) for r in rets_)
        lossy = any(isinstance(c_, ast.Call) and (dotted(c_.func) or "").endswith("make_identifier_from_name")
                    for r in rets_ for c_ in ast.walk(r)) and not injective
        if not (injective or lossy) or not at_def:
            raise AnalysisError(f"_emit_constructor: phase method names come from {hname}(); how it names "
                                "them is not read")
        run.ob("C01.step", h, h.node, injective,
               construct=f"{hname}: distinct phase names get distinct method names (a map of unique names), "
                         f"used for the table and for the def",
               why="a sanitised name is not unique: 'stage-1' and 'stage_1' get one method, the second "
                   "def replaces the first and the class runs the wrong phase body")
        run.ob("C01.step", fd_, fd_.node, at_def,
               construct=f"emit_def_begin names the method by {hname}() as the table does",
               why="the table must refer to the functions that are emitted")
        return
    if not ok and comps and any(isinstance(x, ast.Call) and (dotted(x.func) or "").startswith("self._name_manager.")
                                for x in ast.walk(comps[0])):
        # the method names come from the name manager (phase names that are no identifiers):
        # that they are distinct and agree with the emitted defs is C13's kind of question
        raise AnalysisError("_emit_constructor: phase method names come from the name manager; "
                            "the table clause does not read that form")
    run.ob("C01.step", fc, comps[0] if comps else fc.node, ok,
           construct="phase_transition_table = {name: (phase.next_phase, self.phase_<name>)}",
           why="the default successor and the function run must belong to the same phase")
    fd = P.func(f"{PYGEN}.emit_def_begin")
    dprefix = None
    for n in ast.walk(fd.node):
        if isinstance(n, ast.Call) and dotted(n.func) == "PythonFunctionEmitter" and n.args:
            a = n.args[0]
            if isinstance(a, ast.BinOp):
                dprefix = string_value(a.left)
    run.ob("C01.step", fd, fd.node, prefix is not None and dprefix is not None
           and prefix == "self." + dprefix,
           construct=f"emitted function name prefix {dprefix!r} == table prefix {prefix!r}",
           why="the table must refer to the functions that are emitted")


def _namedtuples(tree):
    out = {}
    for n in ast.walk(tree):
        if isinstance(n, ast.ClassDef):
            for b in n.bases:
                if isinstance(b, ast.Call) and dotted(b.func) == "namedtuple" and len(b.args) == 2:
                    flds = b.args[1]
                    if isinstance(flds, (ast.List, ast.Tuple)):
                        out[n.name] = [string_value(e) for e in flds.elts]
    return out


def _events(run, P):
    mi = P.module("dagrt.exec_numpy")
    a = _namedtuples(mi.tree)
    mp = P.module(PY)
    src = mp.assigns.get("_inner_class_code")
    s = string_value(src) if src is not None else None
    if s is None:
        raise AnalysisError("python._inner_class_code not found")
    b = _namedtuples(ast.parse(s))
    for name in ("StateComputed", "StepCompleted", "StepFailed"):
        fa, fb = a.get(name), b.get(name)
        ok = fa is not None and fb is not None and len(fa) == len(fb) and all(
            KW_RENAME.get(x, x) == KW_RENAME.get(y, y) for x, y in zip(fa, fb))
        run.ob("C01.events", mp, None, ok,
               construct=f"{name}: interpreter {fa} vs generated {fb}",
               why="events are compared positionally by callers")
    # control exceptions exist in the generated class
    for exc in ("FailStepException", "TransitionEvent"):
        pass


# {{{ built-in binding

def _binding(run, P):
    mb = P.module("dagrt.builtins_python")
    table = mb.assigns.get("builtins")
    if not isinstance(table, ast.Dict):
        raise AnalysisError("builtins_python.builtins dict not found")
    py = {}
    for k, v in zip(table.keys, table.values):
        py[string_value(k)] = dotted(v)
    mr = P.module("dagrt.function_registry")
    base = P.cls("dagrt.function_registry.Function")
    reg = {}
    for c in P.subclasses(base, modules={"dagrt.function_registry"}):
        ident = c.attrs.get("identifier")
        ident = string_value(ident) if ident is not None else None
        if ident and ident.startswith("<builtin>") and not c.name.startswith("_"):
            reg[ident] = c
    # patterns
    bfr = P.func("dagrt.function_registry._make_bfr")
    patterns = {}
    for n in ast.walk(bfr.node):
        if isinstance(n, ast.Tuple) and len(n.elts) == 2 and isinstance(n.elts[0], ast.Call) \
                and isinstance(n.elts[1], ast.Constant) and isinstance(n.elts[1].value, str):
            cname = dotted(n.elts[0].func)
            patterns[cname] = (n, n.elts[1].value)
    ok = set(py) == set(reg)
    run.ob("C01.binding", mr, None, ok,
           construct=f"identifier sets: python {sorted(set(py) - set(reg))} only / "
                     f"registry {sorted(set(reg) - set(py))} only",
           why="a built-in known to one back end only")
    for ident in sorted(set(py) & set(reg)):
        c = reg[ident]
        fn = mb.functions.get(py[ident])
        if fn is None:
            raise AnalysisError(f"{py[ident]} not defined in builtins_python")
        hit = P.lookup(c, "arg_names")
        an = hit[1] if hit else None
        if isinstance(an, ast.Tuple):
            arg_names = [string_value(e) for e in an.elts]
        elif isinstance(an, ast.Constant) and isinstance(an.value, str):
            arg_names = list(an.value)       # ("x") is the string "x"
        else:
            raise AnalysisError(f"{c.fq}.arg_names not a literal")
        ok = arg_names == fn.params
        run.ob("C01.binding", fn, fn.node, ok,
               construct=f"{ident}: registry arg_names {arg_names} vs def {fn.name}({', '.join(fn.params)})",
               why="the interpreter binds arguments by Python call, generated code "
                   "by resolve_args(arg_names, ...): a keyword call binds "
                   "differently when the names differ")
        # defaults
        hit = P.lookup(c, "default_dict")
        dd = hit[1] if hit else None
        n_def = len(dd.keys) if isinstance(dd, ast.Dict) else None
        ok = n_def is not None and n_def == len(fn.node.args.defaults)
        run.ob("C01.binding", fn, fn.node, ok,
               construct=f"{ident}: {n_def} registry defaults vs {len(fn.node.args.defaults)} Python defaults",
               why="an argument optional in one back end only")
        # pattern
        if c.name not in patterns:
            run.ob("C01.binding", bfr, bfr.node, False,
                   construct=f"{ident}: no Python pattern registered for {c.name}",
                   why="generated code cannot call the built-in")
            continue
        pnode, pat = patterns[c.name]
        short = ident[len("<builtin>"):]
        if pat.startswith("self._builtin_"):
            ok = pat == f"self._builtin_{short}({{args}})" and fn.name == f"builtin_{short}"
            desc = f"copied implementation _builtin_{short}"
        else:
            # {numpy}.f({args}).g()  vs  return np.f(x).g()
            chain_p = _chain_of_pattern(pat)
            chain_b = _chain_of_body(fn)
            ok = chain_p is not None and chain_p == chain_b
            desc = f"pattern chain {chain_p} vs implementation chain {chain_b}"
            body_ = [s_ for s_ in fn.node.body if not isinstance(s_, (ast.Import, ast.ImportFrom))
                     and not (isinstance(s_, ast.Expr) and isinstance(s_.value, ast.Constant))]
            if not ok and (chain_p is None or chain_b is None or len(body_) != 1):
                # a pattern that goes through a helper of the generated class, or an
                # implementation with more than one statement (a fast path in front of the
                # same computation, say): agreement is not a matter of comparing two chains
                raise AnalysisError(f"{ident}: pattern {pat!r} and {fn.name} are not of the "
                                    f"comparable one-expression form; not decided")
        run.ob("C01.binding", bfr, pnode, ok,
               construct=f"{ident}: {pat!r} ({desc})",
               why="the pattern must call the same function, on all the arguments, "
                   "as the implementation the interpreter uses")
    # the copy mechanism renames builtin -> _builtin
    ic = P.func(f"{PYGEN}._emit_inner_classes")
    src = ast.unparse(ic.node)
    ok = "replace('builtin', '_builtin')" in src and "@staticmethod" in src \
        and "startswith('def builtin')" in src
    run.ob("C01.binding", ic, ic.node, ok,
           construct="builtins_python source is copied with builtin -> _builtin as staticmethods",
           why="self._builtin_<name> must be the interpreter's implementation")


def _chain_of_pattern(pat):
    try:
        e = ast.parse(pat.replace("{numpy}", "NP").replace("{args}", "ARGS"), mode="eval").body
    except SyntaxError:
        return None
    return _chain(e, "NP", args_marker="ARGS")


def _chain_of_body(fn: Func):
    rets = [s for s in func_body_stmts(fn.node) if isinstance(s, ast.Return)]
    if len(rets) != 1 or rets[0].value is None:
        return None
    np_names = {"np", "numpy"}
    e = rets[0].value
    root = None
    x = e
    while True:
        if isinstance(x, ast.Call):
            x = x.func
        elif isinstance(x, ast.Attribute):
            x = x.value
        else:
            break
    if isinstance(x, ast.Name) and x.id in np_names:
        root = x.id
    if root is None:
        return None
    return _chain(e, root, params=fn.params)


def _chain(e, root, args_marker=None, params=None):
    """['isnan(ARGS)', 'any()'] for NP.isnan(ARGS).any()"""
    out = []
    x = e
    while True:
        if isinstance(x, ast.Call) and isinstance(x.func, ast.Attribute):
            if args_marker is not None:
                a = "ARGS" if (len(x.args) == 1 and isinstance(x.args[0], ast.Name)
                               and x.args[0].id == args_marker) else \
                    ",".join(ast.unparse(y) for y in x.args)
            else:
                names = [y.id if isinstance(y, ast.Name) else ast.unparse(y) for y in x.args]
                a = "ARGS" if names == list(params) else ",".join(names)
            out.append(f"{x.func.attr}({a})")
            x = x.func.value
        elif isinstance(x, ast.Attribute):
            out.append(x.attr)
            x = x.value
        elif isinstance(x, ast.Name) and x.id == root:
            break
        else:
            return None
    return out[::-1]

# }}}


def _fields(run, P):
    """Fields evaluated by exec_K (minus guard and loops, which the lowering
    turns into structure) are printed by emit_inst_K."""
    G = P.cls(PYGEN)
    from ..engine import dataflow as df
    for K in sm.statement_classes(P):
        fe = P.method(G, "emit_inst_" + K.name)
        if fe is None:
            continue
        evals, _ = sm.exec_paths(P, K)
        E = set()
        for _, _, paths in evals:
            E |= paths
        E = {p for p in E if not p.startswith("condition") and not p.startswith("loops")}
        if len(fe.params) < 2:
            raise AnalysisError(f"{fe.fq}: (self, inst) expected")
        found = []

        def on_call(call, env, f_):
            d = dotted(call.func)
            if d in ("self._expr", "self._expr_mapper", "self._expr_mapper.rec"):
                for a in call.args:
                    found.append(df.flat(df.prov(a, env)))
            elif d == "self._expr_mapper.map_generic_call":
                for a in call.args[1:]:
                    found.append(df.flat(df.prov(a, env)))

        df.Scanner(P, fe, {fe.params[1]: ""}, on_call).run()
        printed = set()
        for p in found:
            printed |= sm.expand(P, K, p)
        for p in sorted(E):
            ok = sm.covered(p, printed) or any(sm.covered(q, {p.replace("[*]", "").replace("{v}", "")})
                                               for q in printed)
            run.ob("C01.fields", fe, fe.node, ok,
                   construct=f"{K.name}: interpreter evaluates stmt.{p}; emitter prints {sorted(printed)}",
                   why=f"the Python emitter never prints stmt.{p}, so generated code "
                       f"ignores a part of the statement the interpreter evaluates")
    # event fields of YieldState
    fy = P.method(G, "emit_inst_YieldState")
    iy = P.func(f"{INTERP}.exec_YieldState")
    tmpl = None
    fmt = None
    for n in ast.walk(fy.node):
        if isinstance(n, ast.Call) and isinstance(n.func, ast.Attribute) \
                and n.func.attr == "format":
            s = string_value(n.func.value)
            if s and "StateComputed" in s:
                tmpl, fmt = s, n
    ok = False
    detail = ""
    if tmpl is not None:
        gen_map = {}
        glocals = _single_locals(fy.node)
        for k in fmt.keywords:
            gen_map[k.arg] = _attr_of(k.value, glocals)
        # template: field={name}
        import re
        pairs = dict(re.findall(r"(\w+)=\{(\w+)\}", tmpl))
        gen_fields = {fld: gen_map.get(ph) for fld, ph in pairs.items()}
        ic = [n for n in ast.walk(iy.node) if isinstance(n, ast.Call)
              and dotted(n.func) == "StateComputed"]
        ilocals = _single_locals(iy.node)
        int_fields = {k.arg: _attr_of(k.value, ilocals) for k in ic[0].keywords} if ic else {}
        ok = gen_fields == int_fields and len(gen_fields) == 4
        detail = f"interpreter {int_fields} vs generated {gen_fields}"
    run.ob("C01.fields", fy, fmt if fmt is not None else fy.node, ok,
           construct="StateComputed(t, time_id, component_id, state_component) sources agree",
           why="a yielded event carries different fields in the two back ends",
           detail=detail)


def _single_locals(fn):
    """locals of a function that are assigned exactly once, by a plain assignment"""
    seen = {}
    for s_ in ast.walk(fn):
        if isinstance(s_, ast.Assign) and len(s_.targets) == 1 and isinstance(s_.targets[0], ast.Name):
            seen.setdefault(s_.targets[0].id, []).append(s_.value)
        elif isinstance(s_, (ast.AugAssign, ast.For, ast.NamedExpr)):
            for n_ in ast.walk(s_.target):
                if isinstance(n_, ast.Name):
                    seen.setdefault(n_.id, []).extend([None, None])
    return {k: v[0] for k, v in seen.items() if len(v) == 1 and v[0] is not None}


def _attr_of(v, local=None):
    """inst.time from self._expr(inst.time) / repr(inst.time_id) / stmt.time"""
    for _ in range(6):
        while isinstance(v, ast.Call) and v.args:
            v = v.args[0]
        if local and isinstance(v, ast.Name) and v.id in local:
            v = local[v.id]
            continue
        break
    if isinstance(v, ast.Attribute):
        return v.attr
    return ast.unparse(v)


def _store(run, P):
    I = P.cls(INTERP)
    n = 0
    for name, f in sorted(I.methods.items()):
        if not name.startswith("exec_"):
            continue
        g = CFG(f.node)
        for s in ast.walk(f.node):
            if isinstance(s, ast.Delete):
                for t in s.targets:
                    if isinstance(t, ast.Subscript) and dotted(t.value) == "self.context":
                        n += 1
                        ok = _del_tolerant(f, g, s, t)
                        run.ob("C01.store", f, s, ok,
                               why="the key is only stored inside a loop that may "
                                   "run zero times; the interpreter then raises "
                                   "KeyError where generated code completes")
            if isinstance(s, ast.Call) and dotted(s.func) == "self.context.pop":
                n += 1
                ok = len(s.args) == 2
                run.ob("C01.store", f, s, ok,
                       why="pop without default raises KeyError for an absent key")
    if n == 0:
        raise AnalysisError("no store deletion found in exec_* methods")
    run.do(_generated_del, run, P)
    f = P.func("dagrt.expression.EvaluationMapper.map_variable")
    g = CFG(f.node)
    live = g.reachable([g.entry], include_start=True)
    falls = [(a, lab) for a, lab in g.pred[g.exit]
             if (lab == "fall" or lab in ("T", "F")) and a in live]
    bare = [s for s in func_body_stmts(f.node) if isinstance(s, ast.Return) and s.value is None]
    run.ob("C01.store", f, f.node, not falls and not bare,
           construct="map_variable returns a value or raises on every path",
           why="reading a never-assigned temporary silently yields None in the "
               "interpreter and raises NameError in generated code")


def _emitted_text(call):
    """template text of an emission: constants kept, interpolations as {<source>}"""
    if not call.args:
        return None
    a = call.args[0]
    if isinstance(a, ast.Constant) and isinstance(a.value, str):
        return a.value
    if isinstance(a, ast.JoinedStr):
        return "".join(v.value if isinstance(v, ast.Constant) else "{" + norm(v.value, 60) + "}"
                       for v in a.values)
    if isinstance(a, ast.Call) and isinstance(a.func, ast.Attribute) and a.func.attr == "format":
        return string_value(a.func.value)
    return None


def _generated_del(run, P):
    """The counterpart of the tolerant deletion in generated code: a loop that runs no
    iteration never binds its variable, so `del <loop variable>` after a loop is emitted
    only behind a statement that binds it."""
    G = P.cls("dagrt.codegen.python.CodeGenerator")
    n_del = 0
    for name, f in sorted(G.methods.items()):
        if not name.startswith("emit_"):
            continue
        local = _single_locals(f.node)
        ems = [x for x in ast.walk(f.node) if isinstance(x, ast.Call)
               and dotted(x.func) in ("self._emit", "emitter", "self._emitter")]
        ems.sort(key=lambda x: (x.lineno, x.col_offset))
        texts = [(_emitted_text(x), x) for x in ems]
        # the loops of a statement are turned into ForLoop nodes by the lowering (the table
        # clause of C05 decides that): a printer's own walk over <inst>.loops meets none
        own_walk = {id(y) for l_ in ast.walk(f.node) if isinstance(l_, ast.For)
                    and isinstance(l_.iter, ast.Attribute) and l_.iter.attr == "loops"
                    and isinstance(l_.iter.value, ast.Name) and l_.iter.value.id in f.params
                    for y in ast.walk(l_)}
        for i, (t, x) in enumerate(texts):
            if not t or not t.startswith("del ") or id(x) in own_walk:
                continue
            what = t[4:].strip()
            n_del += 1
            prev = texts[i - 1][0] if i else None
            ok = prev is not None and prev.startswith(what + " = ")
            run.ob("C01.store", f, x, ok,
                   construct=f"{name}: emitted 'del {what}' follows an emitted binding of the same name",
                   why="a loop over an empty range binds nothing: the generated step raises "
                       "UnboundLocalError where the interpreter (pop with a default) goes on")
    run.ob("C01.store", G, None, True,
           construct=f"Python generator: {n_del} emitted del statement(s) examined",
           why="scan summary")


def _del_tolerant(f, g, s, t):
    # accepted idioms: `if k in D: del D[k]`, try/except KeyError around it
    for n in ast.walk(f.node):
        if isinstance(n, ast.If) and any(x is s for b in n.body for x in ast.walk(b)):
            tt = ast.unparse(n.test)
            if "in self.context" in tt and "not in" not in tt:
                return True
        if isinstance(n, ast.Try) and any(x is s for b in n.body for x in ast.walk(b)):
            if any(h.type is not None and "KeyError" in ast.unparse(h.type) for h in n.handlers):
                return True
    return False


def _persist(run, P):
    f = P.func(f"{INTERP}.run_single_step")
    tries = [n for n in ast.walk(f.node) if isinstance(n, ast.Try) and n.finalbody]
    if not tries:
        raise AnalysisError("run_single_step: finally clause not found")
    fin = tries[0].finalbody
    dels = [s for b in fin for s in ast.walk(b) if isinstance(s, ast.Delete)
            or (isinstance(s, ast.Call) and dotted(s.func) == "self.context.pop")]
    ok = False
    site = fin[0]
    for b in fin:
        for n in ast.walk(b):
            if isinstance(n, ast.If) and any(isinstance(x, ast.Delete) or (
                    isinstance(x, ast.Call) and dotted(x.func) == "self.context.pop")
                    for s in n.body for x in ast.walk(s)):
                site = n
                t = n.test
                if isinstance(t, ast.UnaryOp) and isinstance(t.op, ast.Not) \
                        and isinstance(t.operand, ast.Call):
                    tgt = P.resolve_name(f, dotted(t.operand.func) or "")
                    ok = isinstance(tgt, Func) and tgt.fq == "dagrt.utils.is_state_variable"
    if not ok and dels:
        # (a cleanup over a tracked set that still tests is_state_variable in the loop is the
        # first form above)
        from .c11 import tracked_set_of_cleanup, tracked_entries
        tr = tracked_set_of_cleanup(P)
        if tr:
            ents = tracked_entries(P, tr)
            if not ents:
                raise AnalysisError(f"run_single_step: nothing is entered into {tr}")
            bad_ = [e_ for e_ in ents if not e_[2]]
            run.ob("C01.persist", bad_[0][0] if bad_ else f, bad_[0][1] if bad_ else site, not bad_,
                   construct=f"finally: delete what is in {tr}; only names that are no state variables "
                             f"enter it ({len(ents)} site(s))",
                   why="a name kept by one back end and dropped by the other differs in "
                       "the second step")
            ok = None
    if ok is not None:
      run.ob("C01.persist", f, site, ok and bool(dels),
           construct=f"finally: delete name unless {norm(site.test) if isinstance(site, ast.If) else '?'}",
           why="a name kept by one back end and dropped by the other differs in "
               "the second step")
    for fq in (f"{PY}.PythonNameManager.__getitem__",
               "dagrt.codegen.fortran.FortranNameManager.__getitem__"):
        gfn = P.func(fq)
        from .util import split_by

        def is_isv(t):
            try:
                e_ = ast.parse(t, mode="eval").body
            except SyntaxError:
                return False
            if not isinstance(e_, ast.Call):
                return False
            tgt = P.resolve_name(gfn, dotted(e_.func) or "")
            return isinstance(tgt, Func) and tgt.fq == "dagrt.utils.is_state_variable"

        _, wt, wf = split_by(gfn.node, is_isv)
        b = "\n".join(ast.unparse(s_) for s_ in wt)
        o = "\n".join(ast.unparse(s_) for s_ in wf)
        ok = "name_global" in b and "name_local" not in b \
            and "name_local" in o and "name_global" not in o
        run.ob("C01.persist", gfn, gfn.node, ok,
               construct="is_state_variable(name) -> global storage, else local storage",
               why="persistent variables live in instance/state storage, per-step "
                   "ones in locals")


def prec_constants(P):
    m = P.module("pymbolic.mapper.stringifier")
    out = {}
    for k, v in m.assigns.items():
        if k.startswith("PREC_") and isinstance(v, ast.Constant):
            out[k] = v.value
    e = P.module("dagrt.expression")
    v = e.assigns.get("PREC_IFTHENELSE")
    if v is not None:
        out["PREC_IFTHENELSE"] = _eval_prec(v, out)
    return out


def _eval_prec(v, consts):
    if isinstance(v, ast.Constant):
        return v.value
    if isinstance(v, ast.Name):
        return consts.get(v.id)
    if isinstance(v, ast.BinOp) and isinstance(v.op, (ast.Add, ast.Sub)):
        a, b = _eval_prec(v.left, consts), _eval_prec(v.right, consts)
        if a is None or b is None:
            return None
        return a + b if isinstance(v.op, ast.Add) else a - b
    return None


def power_rule(run, P, rule, cls_fq):
    consts = prec_constants(P)
    C = P.cls(cls_fq)
    f = P.method(C, "map_power")
    if f is None:
        raise AnalysisError(f"{cls_fq}: map_power not resolved")
    base_prec = None
    for n in ast.walk(f.node):
        if isinstance(n, ast.Call) and dotted(n.func) == "self.rec" and len(n.args) >= 2 \
                and isinstance(n.args[0], ast.Attribute) and n.args[0].attr == "base":
            base_prec = _eval_prec(n.args[1], consts)
    ok = base_prec is not None and base_prec > consts["PREC_POWER"]
    run.ob(rule, f, f.node, ok,
           construct=f"{C.name}.map_power (from {f.cls.name}): base printed with "
                     f"precedence {base_prec}, '**' has {consts['PREC_POWER']}",
           why="'**' associates to the right in the target: (a**b)**c printed as "
               "a**b**c evaluates a**(b**c)")


def _selfcontained(run, P):
    """The Python generator copies the source of the built-ins into the body of the
    generated class (as static methods): inside them only parameters, locals,
    names imported there and Python's own built-ins mean anything."""
    import builtins as _b
    mb = P.module("dagrt.builtins_python")
    module_names = set(mb.assigns) | {f_.name for f_ in mb.functions.values() if f_.parent is None
                                      and f_.cls is None} | set(mb.classes)
    n = 0
    for f in sorted(mb.functions.values(), key=lambda f_: f_.name):
        if f.parent is not None or f.cls is not None:
            continue
        bound = set(f.params)
        for x in ast.walk(f.node):
            if isinstance(x, ast.Name) and isinstance(x.ctx, (ast.Store, ast.Del)):
                bound.add(x.id)
            elif isinstance(x, (ast.Import, ast.ImportFrom)):
                bound |= {(a.asname or a.name).split(".")[0] for a in x.names}
            elif isinstance(x, (ast.FunctionDef, ast.ClassDef)) and x is not f.node:
                bound.add(x.name)
            elif isinstance(x, ast.arg):
                bound.add(x.arg)
            elif isinstance(x, ast.ExceptHandler) and x.name:
                bound.add(x.name)
        free = sorted({x.id for x in ast.walk(f.node) if isinstance(x, ast.Name)
                       and isinstance(x.ctx, ast.Load) and x.id not in bound and not hasattr(_b, x.id)})
        outside = [v for v in free if v in module_names]
        n += 1
        if free and set(free) <= module_names:
            # module-level helpers of builtins_python: in scope in the generated module if
            # the generator copies them as well (in front of the class) - whether it does
            # is in how _emit_inner_classes takes the source apart, not decided here
            ic_ = P.func(f"{PYGEN}._emit_inner_classes")
            copies_more = sum(1 for c_ in ast.walk(ic_.node) if isinstance(c_, ast.Constant)
                              and isinstance(c_.value, str) and c_.value.startswith("def ")) > 1
            if copies_more:
                raise AnalysisError(f"{f.name} uses the module-level {free} and the generator copies "
                                    f"more than the built-ins; not decided")
        run.ob("C01.binding", f, f.node, not free,
               construct=f"{f.name} uses only its parameters, locals, its own imports and Python "
                         f"built-ins" + (f" (also: {free})" if free else ""),
               why="in the generated class the copied function is a static method: a helper or "
                   "constant defined next to it in builtins_python is not in scope there "
                   "(NameError) while the interpreter, which calls the module's function, works")
    if n < 10:
        raise AnalysisError("builtins_python: fewer than ten functions found")


def _setup(run, P):
    f = P.func(f"{INTERP}.set_up")
    ctx = f.params[3]
    stores = {}
    for s_ in ast.walk(f.node):
        if isinstance(s_, ast.Assign) and len(s_.targets) == 1 and isinstance(s_.targets[0], ast.Subscript) \
                and dotted(s_.targets[0].value) == "self.context":
            stores[norm(s_.targets[0].slice)] = s_
    for key, param in (("'<t>'", f.params[1]), ("'<dt>'", f.params[2])):
        s_ = stores.get(key)
        run.ob("C01.setup", f, s_ if s_ is not None else f.node,
               s_ is not None and dotted(s_.value) == param,
               construct=f"interpreter: self.context[{key}] = {param}",
               why="the starting time / step size of the run")
    loops = [lp for lp in ast.walk(f.node) if isinstance(lp, ast.For)
             and norm(lp.iter) == f"{ctx}.items()" and isinstance(lp.target, ast.Tuple)
             and len(lp.target.elts) == 2]
    ok = False
    site = f.node
    if loops:
        k, v = (e.id for e in loops[0].target.elts)
        for s_ in ast.walk(loops[0]):
            if isinstance(s_, ast.Assign) and isinstance(s_.targets[0], ast.Subscript) \
                    and dotted(s_.targets[0].value) == "self.context":
                site = s_
                sl = s_.targets[0].slice
                ok = isinstance(sl, ast.BinOp) and isinstance(sl.op, ast.Add) \
                    and string_value(sl.left) == "<state>" and dotted(sl.right) == k \
                    and dotted(s_.value) == v
    run.ob("C01.setup", f, site, ok,
           construct=f"interpreter: for key, val in {ctx}.items(): self.context['<state>' + key] = val",
           why="every component the caller supplies becomes the persistent variable of that name")
    g = P.func(f"{PYGEN}._emit_set_up")
    tmpl = [x for x in ast.walk(g.node) if isinstance(x, ast.Call) and isinstance(x.func, ast.Attribute)
            and x.func.attr == "format" and isinstance(x.func.value, ast.Constant)
            and "context.get" in str(x.func.value.value)]
    ok = False
    detail = "?"
    if tmpl:
        t = tmpl[0]
        text = t.func.value.value
        kws = {k_.arg: k_.value for k_ in t.keywords}
        import re as _re
        m_ = _re.fullmatch(r"\{(\w+)\} = context\.get\(\"\{(\w+)\}\"\)", text)
        detail = text
        if m_:
            comp, cid = kws.get(m_.group(1)), kws.get(m_.group(2))
            # the key is the variable name without its '<state>' tag, the target the managed global
            lp = [x for x in ast.walk(g.node) if isinstance(x, ast.For) and any(t is y for y in ast.walk(x))]
            lv = lp[0].target.id if lp and isinstance(lp[0].target, ast.Name) else None
            src = ast.unparse(lp[0]) if lp else ""
            strip_ok = (f"{lv}[7:]" in src or f"{lv}[len('<state>'):]" in src
                        or f"{lv}.removeprefix('<state>')" in src) and f"{lv}.startswith('<state>')" in src
            comp_ok = comp is not None and "name_global" in ast.unparse(
                comp if not isinstance(comp, ast.Name) else
                next((s_.value for s_ in ast.walk(g.node) if isinstance(s_, ast.Assign)
                      and dotted(s_.targets[0]) == comp.id), comp))
            ok = strip_ok and comp_ok and cid is not None
    run.ob("C01.setup", g, tmpl[0] if tmpl else g.node, ok,
           construct=f"generated: <managed name of <state>X> = context.get(\"X\") for every "
                     f"<state> variable ({detail})",
           why="the generated stepper must read the same entry of the context the interpreter "
               "stores under <state>X")
    tz = [x for x in ast.walk(g.node) if isinstance(x, ast.Constant) and x.value in ("self.t = t_start",
                                                                                  "self.dt = dt_start")]
    run.ob("C01.setup", g, g.node, len(tz) == 2,
           construct="generated: self.t = t_start, self.dt = dt_start",
           why="the starting time / step size of the run")


def _calls(run, P):
    from . import c08
    _alias(run, "C08.reads", "C01.calls", lambda: c08._callee_lookup(run, P))
    for fq, pos, kw in (
            ("dagrt.expression.EvaluationMapper.map_generic_call", 2, 3),
            ("dagrt.codegen.expressions.PythonExpressionMapper.map_generic_call", 2, 3),
            (f"{INTERP}.exec_AssignFunctionCall", None, None)):
        f = P.func(fq)
        if pos is not None:
            pos_src, kw_src = {f.params[pos]}, {f.params[kw]}
        else:
            pos_src, kw_src = {f"{f.params[1]}.parameters"}, {f"{f.params[1]}.kw_parameters"}
        comps = [x for x in ast.walk(f.node)
                 if isinstance(x, (ast.ListComp, ast.GeneratorExp, ast.DictComp, ast.SetComp, ast.For))]
        n_pos = n_kw = 0
        for c in comps:
            gens = c.generators if not isinstance(c, ast.For) else None
            it = gens[0].iter if gens else c.iter
            tgt = gens[0].target if gens else c.target
            ifs = gens[0].ifs if gens else []
            base = it
            wrapped = None
            if isinstance(base, ast.Call) and isinstance(base.func, ast.Name) and base.args:
                wrapped = base.func.id
                base = base.args[0]
            if isinstance(base, ast.Call) and isinstance(base.func, ast.Attribute) \
                    and base.func.attr == "items" and dotted(base.func.value) in kw_src:
                n_kw += 1
                ok = wrapped in (None, "sorted", "list", "tuple") and not ifs \
                    and isinstance(tgt, ast.Tuple) and len(tgt.elts) == 2 \
                    and all(isinstance(e, ast.Name) for e in tgt.elts)
                detail = "iterated whole"
                if ok:
                    k, v = tgt.elts[0].id, tgt.elts[1].id
                    if isinstance(c, ast.DictComp):
                        ok = isinstance(c.key, ast.Name) and c.key.id == k and any(
                            isinstance(y, ast.Name) and y.id == v for y in ast.walk(c.value)) \
                            and not any(isinstance(y, ast.Name) and y.id == k for y in ast.walk(c.value))
                        detail = f"{{{norm(c.key)}: {norm(c.value, 40)}}}"
                    elif isinstance(c, ast.For):
                        stores = [s_ for s_ in ast.walk(c) if isinstance(s_, ast.Assign)
                                  and isinstance(s_.targets[0], ast.Subscript)]
                        ok = bool(stores) and all(
                            dotted(s_.targets[0].slice) == k and any(
                                isinstance(y, ast.Name) and y.id == v for y in ast.walk(s_.value))
                            for s_ in stores)
                        detail = "; ".join(norm(s_, 50) for s_ in stores)
                    else:
                        # "{name}={expr}".format(name=k, expr=...v...)
                        ok = any(isinstance(y, ast.Name) and y.id == k for y in ast.walk(c.elt)) \
                            and any(isinstance(y, ast.Name) and y.id == v for y in ast.walk(c.elt))
                        detail = norm(c.elt, 60)
                run.ob("C01.calls", f, c, ok,
                       construct=f"{f.name}: keyword arguments, each under its own name, none "
                                 f"left out ({detail})",
                       why="a keyword argument evaluated under another name, or skipped, calls "
                           "the user function with other arguments than the program says")
            elif dotted(base) in pos_src:
                n_pos += 1
                ok = wrapped in (None, "enumerate", "list", "tuple") and not ifs
                if ok and wrapped == "enumerate":
                    ok = len(it.args) == 1 and not it.keywords and isinstance(tgt, ast.Tuple) \
                        and len(tgt.elts) == 2
                    if ok and isinstance(c, ast.For):
                        i_, a_ = tgt.elts[0].id, tgt.elts[1].id
                        stores = [s_ for s_ in ast.walk(c) if isinstance(s_, ast.Assign)
                                  and isinstance(s_.targets[0], ast.Subscript)]
                        ok = bool(stores) and all(
                            dotted(s_.targets[0].slice) == i_ and any(
                                isinstance(y, ast.Name) and y.id == a_ for y in ast.walk(s_.value))
                            for s_ in stores)
                run.ob("C01.calls", f, c, ok,
                       construct=f"{f.name}: positional arguments taken in order, all of them, "
                                 f"numbered from 0 ({norm(it, 40)})",
                       why="a positional argument skipped, reversed or numbered from 1 binds "
                           "the values to other parameters of the user function")
        if not n_pos or not n_kw:
            raise AnalysisError(f"{fq}: walks over the positional / keyword arguments not found")
        # the call receives both
        if pos is not None and f.name == "map_generic_call" and "Evaluation" in fq:
            calls = [x for x in ast.walk(f.node) if isinstance(x, ast.Call)
                     and any(isinstance(a, ast.Starred) for a in x.args)]
            ok = len(calls) == 1 and len(calls[0].args) == 1 and len(calls[0].keywords) == 1 \
                and calls[0].keywords[0].arg is None
            run.ob("C01.calls", f, calls[0] if calls else f.node, ok,
                   construct="the user function is called with (*positional, **keyword)",
                   why="arguments that are evaluated but not passed on")


FORCED_HELPERS = ("join_rec_with_parens_around_types", "rec_with_parens_around_types",
                  "rec_with_force_parens_around")


def _forced_types(P, f, _depth=0):
    """Operand classes a printer handler puts in parentheses regardless of
    precedence: {class short name}, or None if the handler forces none.
    Recognised: pymbolic's *_with_parens_around_types helpers (the tuple of
    types, also through a class attribute), an isinstance test on an operand
    next to a '(%s)' wrapping, and delegation to super()."""
    out = set()
    found = False

    def names_of(e):
        if isinstance(e, ast.Tuple):
            r = set()
            for x in e.elts:
                r |= names_of(x)
            return r
        d = dotted(e)
        if d and d.startswith("self.") and f.cls is not None:
            hit = P.lookup(f.cls, d[5:])
            if hit:
                return names_of(hit[1])
            return set()
        return {d.split(".")[-1]} if d else set()

    for x in ast.walk(f.node):
        if isinstance(x, ast.Call) and isinstance(x.func, ast.Attribute) \
                and x.func.attr in FORCED_HELPERS:
            found = True
            for a in list(x.args) + [k.value for k in x.keywords]:
                if isinstance(a, ast.Tuple) or (dotted(a) or "").startswith("self."):
                    out |= names_of(a)
        if isinstance(x, ast.If) and any(
                isinstance(y, ast.Call) and dotted(y.func) == "isinstance" for y in ast.walk(x.test)) \
                and any(isinstance(y, ast.Constant) and isinstance(y.value, str) and "(" in y.value
                        and ")" in y.value for b in x.body for y in ast.walk(b)):
            for y in ast.walk(x.test):
                if isinstance(y, ast.Call) and dotted(y.func) == "isinstance" and len(y.args) == 2:
                    found = True
                    out |= names_of(y.args[1])
        if isinstance(x, ast.Call) and isinstance(x.func, ast.Attribute) \
                and isinstance(x.func.value, ast.Call) and dotted(x.func.value.func) == "super" \
                and x.func.attr == f.name:
            return "super"
        # a helper of the class that wraps operands of the types it is handed
        if isinstance(x, ast.Call) and isinstance(x.func, ast.Attribute) \
                and isinstance(x.func.value, ast.Name) and x.func.value.id == "self" \
                and f.cls is not None and x.func.attr not in FORCED_HELPERS and _depth < 2:
            h = None
            for k in [f.cls] + [c_ for c_ in P.subclasses(f.cls)]:
                h = h or P.method(k, x.func.attr)
            if h is None or h.module.trusted or h is f:
                continue
            params = h.params[1:] if h.params and h.params[0] == "self" else h.params
            tparams = set()
            for t_ in ast.walk(h.node):
                if isinstance(t_, ast.If) and any(
                        isinstance(y, ast.Constant) and isinstance(y.value, str) and "(" in y.value
                        and ")" in y.value for b in t_.body for y in ast.walk(b)):
                    for y in ast.walk(t_.test):
                        if isinstance(y, ast.Call) and dotted(y.func) == "isinstance" and len(y.args) == 2 \
                                and isinstance(y.args[1], ast.Name) and y.args[1].id in params:
                            tparams.add(y.args[1].id)
            for tp in tparams:
                i_ = params.index(tp)
                arg = x.args[i_] if i_ < len(x.args) else next(
                    (k_.value for k_ in x.keywords if k_.arg == tp), None)
                if arg is not None:
                    found = True
                    out |= names_of(arg)
    return out if found else None


def forced_parens_rule(run, P, rule, cls_fq):
    """A handler of our printer that replaces a pymbolic handler keeps the
    parentheses pymbolic forces around certain operand types."""
    C = P.cls(cls_fq)
    base = P.cls("pymbolic.mapper.stringifier.StringifyMapper")
    n = 0
    seen = set()
    for c in P.mro(C):
        if c.module.trusted:
            continue
        for name, f in sorted(c.methods.items()):
            if not name.startswith("map_") or name in seen or P.method(C, name) is not f:
                continue
            seen.add(name)
            bf = P.method(base, name)
            if bf is None:
                continue
            want = _forced_types(P, bf)
            if not want or want == "super":
                continue
            have = _forced_types(P, f)
            ok = have == "super" or (have is not None and want <= have)
            n += 1
            run.ob(rule, f, f.node, ok,
                   construct=f"{C.name}.{name} (from {c.name}) keeps the parentheses pymbolic's "
                             f"{name} forces around {sorted(want)} operands "
                             f"(forces: {sorted(have) if isinstance(have, set) else have})",
                   why="'a*(b/c)' printed as 'a*b/c' is '(a*b)/c' in the target language: a "
                       "different rounding, an overflow for large operands and another value "
                       "for integer or remainder operands")
    # the grouping of a nested sum / product is part of its floating-point value
    for hname, own in (("map_sum", "Sum"), ("map_product", "Product")):
        f = P.method(C, hname)
        have = _forced_types(P, f) if f is not None and not f.module.trusted else None
        ok = isinstance(have, set) and own in have
        n += 1
        run.ob(rule, f if f is not None and not f.module.trusted else C, None, ok,
               construct=f"{C.name}.{hname} puts a nested {own} operand in parentheses "
                         f"(forces: {sorted(have) if isinstance(have, set) else have})",
               why="'a + (b + c)' printed as 'a + b + c' is evaluated left to right by the "
                   "target while the interpreter evaluates the tree: with 0.1, 0.2, 0.3 one is "
                   "0.6 and the other 0.6000000000000001, and a guard '> 0.6' goes two ways")
    return n


def comparison_rule(run, P, rule, cls_fq):
    """The operands of a comparison are printed above the precedence of a comparison, so
    that an operand that is itself a comparison comes out in parentheses."""
    C = P.cls(cls_fq)
    f = P.method(C, "map_comparison")
    if f is None:
        raise AnalysisError(f"{C.name}: no map_comparison in the class or its bases")
    recs = [x for x in ast.walk(f.node) if isinstance(x, ast.Call) and dotted(x.func) == "self.rec"
            and len(x.args) >= 2 and isinstance(x.args[0], ast.Attribute)
            and x.args[0].attr in ("left", "right")]
    if len(recs) != 2:
        raise AnalysisError(f"{f.qualname}: two operand prints (left, right) expected, {len(recs)} found")
    consts = prec_constants(P)
    base = consts.get("PREC_COMPARISON")

    def level(e):
        if isinstance(e, ast.Name) and e.id in consts:
            return consts[e.id]
        if isinstance(e, ast.BinOp) and isinstance(e.op, ast.Add) and isinstance(e.right, ast.Constant) \
                and isinstance(e.right.value, int):
            l_ = level(e.left)
            return None if l_ is None else l_ + e.right.value
        return None
    for x in recs:
        lv = level(x.args[1])
        if lv is None or base is None:
            raise AnalysisError(f"{f.qualname}: precedence {norm(x.args[1])} not read")
        run.ob(rule, f if not f.module.trusted else C, x if not f.module.trusted else None, lv > base,
               construct=f"{C.name}.map_comparison ({'pymbolic' if f.module.trusted else 'own'}): the "
                         f"{x.args[0].attr} operand is printed above the precedence of a comparison "
                         f"({norm(x.args[1])})",
               why="'(a < b) == c' printed as 'a < b == c' is a chain in Python - 'a < b and b == c' - "
                   "and not an expression at all in Fortran: the guard the generated code tests is "
                   "not the guard the interpreter evaluates")


def _sum_order(run, P):
    """The interpreter adds the terms of a sum one after the other, like the code
    both generators print."""
    EM = P.cls("dagrt.expression.EvaluationMapper")
    f = P.method(EM, "map_sum")
    if f is None:
        raise AnalysisError("EvaluationMapper.map_sum not resolved")
    uses_sum = any(isinstance(x, ast.Call) and isinstance(x.func, ast.Name) and x.func.id in ("sum", "fsum")
                   or (isinstance(x, ast.Call) and (dotted(x.func) or "").endswith(("math.fsum", "np.sum",
                                                                                     "numpy.sum")))
                   for x in ast.walk(f.node))
    folds = any(isinstance(x, ast.Call) and dotted(x.func) in ("reduce", "functools.reduce") and x.args
                and dotted(x.args[0]) in ("operator.add", "add") for x in ast.walk(f.node)) \
        or any(isinstance(x, (ast.AugAssign, ast.BinOp)) and isinstance(x.op, ast.Add) for x in ast.walk(f.node))
    run.ob("C01.prec", f, f.node, folds and not uses_sum,
           construct=f"EvaluationMapper.map_sum (from {f.cls.name}) folds the terms with '+', left to "
                     f"right (uses built-in sum(): {uses_sum})",
           why="from Python 3.12 on the built-in sum() adds floats with compensated summation: "
               "sum((0.1, 0.2, 0.3)) is 0.6 while 0.1 + 0.2 + 0.3, which is what generated code "
               "computes, is 0.6000000000000001")


def _prec(run, P):
    run.do(_sum_order, run, P)
    forced_parens_rule(run, P, "C01.prec", "dagrt.codegen.expressions.PythonExpressionMapper")
    run.do(comparison_rule, run, P, "C01.prec", "dagrt.codegen.expressions.PythonExpressionMapper")
    consts = prec_constants(P)
    f = P.func("dagrt.codegen.expressions.PythonExpressionMapper.map_if")
    my = None
    child = {}
    for n in ast.walk(f.node):
        if isinstance(n, ast.Call) and dotted(n.func) == "self.parenthesize_if_needed" \
                and len(n.args) == 3:
            my = _eval_prec(n.args[2], consts)
        if isinstance(n, ast.Call) and dotted(n.func) == "self.rec" and len(n.args) >= 2 \
                and isinstance(n.args[0], ast.Attribute):
            child[n.args[0].attr] = _eval_prec(n.args[1], consts)
    if my is None or not {"then", "condition", "else_"} <= set(child):
        raise AnalysisError("PythonExpressionMapper.map_if: precedences not resolved")
    for part in ("then", "condition"):
        run.ob("C01.prec", f, f.node, child[part] is not None and child[part] > my,
               construct=f"map_if: '{part}' printed with precedence {child[part]} > {my}",
               why="'1 if 0 if 1 else 2 else 3' is not valid Python: a nested "
                   "conditional in the then/condition position needs parentheses")
    run.ob("C01.prec", f, f.node, child["else_"] is not None and child["else_"] >= my,
           construct=f"map_if: 'else_' printed with precedence {child['else_']} >= {my}",
           why="else part")
    power_rule(run, P, "C01.prec", "dagrt.codegen.expressions.PythonExpressionMapper")
    # signed constants
    f = P.func("dagrt.codegen.expressions.PythonExpressionMapper.map_constant")
    src = ast.unparse(f.node)
    uses_prec = ("PREC_SUM" in src and ">" in src) or "super().map_constant" in src
    parenth = "'(%s)'" in src or "parenthesize" in src or "super().map_constant" in src
    run.ob("C01.prec", f, f.node, uses_prec and parenth,
           construct="map_constant parenthesizes a signed constant where the "
                     "enclosing precedence exceeds that of a sum",
           why="'-2**2' is not '(-2)**2': the interpreter computes 4, generated code -4")
    # non-finite constants: printed through the built-in type's repr
    e = f.params[1]
    nf = [n for n in ast.walk(f.node) if isinstance(n, ast.If) and any(
        isinstance(x, ast.Call) and (dotted(x.func) or "").endswith(("isinf", "isnan"))
        for x in ast.walk(n.test))]
    ok = False
    raw = []
    if nf:
        reprs = [x for s_ in nf[0].body for x in ast.walk(s_)
                 if isinstance(x, ast.Call) and dotted(x.func) == "repr" and x.args]
        raw = [norm(x) for x in reprs
               if not (isinstance(x.args[0], ast.Call) and dotted(x.args[0].func) in ("float", "complex")
                       and x.args[0].args and dotted(x.args[0].args[0]) == e)]
        ok = bool(reprs) and not raw
    run.ob("C01.prec", f, nf[0] if nf else f.node, ok,
           construct="map_constant: inf / nan are printed as float('<repr of float(expr)>') "
                     "(complex likewise)" + (f"; found {raw}" if raw else ""),
           why="repr() of a numpy scalar is 'np.float64(inf)', which float() cannot read: "
               "the generated stepper raises ValueError where the interpreter computes "
               "with inf")


def _genfunc(run, P):
    call = P.func(f"{PYGEN}.__call__")
    g = CFG(call.node)
    loops = [n for n in ast.walk(call.node) if isinstance(n, ast.For)
             and f"{call.arg(0)}.phases" in ast.unparse(n.iter)]
    if len(loops) != 1:
        raise AnalysisError("python CodeGenerator.__call__: loop over phases not found")
    lp = loops[0]
    body_src = [ast.unparse(s) for s in lp.body]
    pre = [i for i, s in enumerate(body_src) if "self._pre_lower(" in s]
    low = [i for i, s in enumerate(body_src) if "self.lower_function(" in s]
    ok = bool(pre) and bool(low) and pre[0] < low[0]
    run.ob("C01.genfunc", call, lp, ok,
           construct="per phase: self._pre_lower(ast) before self.lower_function(...)",
           why="the yield flag must describe the phase being lowered")
    pl = P.func(f"{PYGEN}._pre_lower")
    gp = CFG(pl.node)
    resets = [n for n in gp.nodes if n.kind == "stmt" and isinstance(n.ast, ast.Assign)
              and any(dotted(t) == "self._has_yield_inst" for t in n.ast.targets)
              and isinstance(n.ast.value, ast.Constant) and n.ast.value.value is False]
    sets = [n for n in gp.nodes if n.kind == "stmt" and isinstance(n.ast, ast.Assign)
            and any(dotted(t) == "self._has_yield_inst" for t in n.ast.targets)
            and isinstance(n.ast.value, ast.Constant) and n.ast.value.value is True]
    ok = bool(resets) and not gp.always_followed([gp.entry], resets + sets) \
        and not gp.always_preceded(sets, resets)
    run.ob("C01.genfunc", pl, resets[0].ast if resets else pl.node, ok,
           construct="_pre_lower resets self._has_yield_inst = False on every path "
                     "before looking for a YieldState",
           why="a flag left over from an earlier phase makes a later phase without "
               "yield_state a plain function: run() then fails with "
               "\"'NoneType' object is not iterable\"")
    # no other method resets/sets the flag
    G = P.cls(PYGEN)
    others = []
    for name, m in G.methods.items():
        if m is pl:
            continue
        for n in ast.walk(m.node):
            if isinstance(n, ast.Assign) and any(dotted(t) == "self._has_yield_inst"
                                                 for t in n.targets):
                others.append((m, n))
    run.ob("C01.genfunc", G, others[0][1] if others else None, not others,
           construct="self._has_yield_inst is assigned only in _pre_lower",
           why="a second writer makes the flag describe something else than the "
               "phase being lowered")
    # every exit emitter consults it
    for name in ("emit_return", "emit_inst_Raise", "emit_inst_FailStep", "emit_inst_SwitchPhase"):
        m = P.method(G, name)
        if m is None:
            raise AnalysisError(f"{PYGEN}.{name} not found")
        src = ast.unparse(m.node)
        ok = "if not self._has_yield_inst" in src and "self._emit('yield')" in src
        run.ob("C01.genfunc", m, m.node, ok,
               construct=f"{name}: emits a bare yield when the phase has no YieldState",
               why="a phase function without any yield is not a generator")


def check(run, P):
    run.do(_check_main, run, P)
    from . import generic
    generic.lints(run, P, "C01")
