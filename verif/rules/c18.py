"""C18 - constant hoisting preserves value and hoists only constants."""

from __future__ import annotations

import ast
import re

from ..engine.cfg import CFG, own_fragments, walk_fragment
from ..engine.match import dotted, norm, func_body_stmts
from ..engine.srcmodel import AnalysisError, Class, Func

EXPLANATION = (
    "Push/pop balance analysis of dagrt.expression._ConstantFindingMapper "
    "against the handler table of pymbolic's CombineMapper (read from "
    "source), child-coverage comparison of overridden handlers with the "
    "library handlers they replace, and pairing rules on "
    "_ExpressionCollapsingMapper / collapse_constants. Decides: rec() and "
    "__call__ push exactly once; every handler that can run for a node pops "
    "exactly once on every path - overridden handlers directly or through "
    "combine(), library handlers through combine() - so every library handler "
    "that does not call combine() is overridden; an overridden handler "
    "recurses into every child attribute the library handler of the same "
    "name recurses into (including through method aliases); a subexpression "
    "is replaced only under is_constant and variables are classified by "
    "membership in the free variables; every store into the assignment "
    "table is keyed by a variable obtained from new_var_func() in the same "
    "invocation and that variable is what is put in place of the hoisted "
    "subexpression (no reuse across operators or occurrences); the driver "
    "calls assign_func once per entry. Does not decide: value equality.")

ASSUMPTIONS = [
    "pymbolic.mapper.CombineMapper handlers call self.combine at most once per path",
    "new_var_func() returns a new variable on every call",
]

MOD = "dagrt.expression"


def _pops(node):
    return [x for x in ast.walk(node) if isinstance(x, ast.Call)
            and dotted(x.func) == "self.node_stack.pop"]


def _count_on_paths(f: Func, pred):
    """(min, max) number of nodes satisfying pred on ENTRY->EXIT paths
    (loops counted once)."""
    g = CFG(f.node)
    lo = {}
    hi = {}
    import sys
    sys.setrecursionlimit(10000)
    memo = {}

    def walk(n, seen):
        if n is g.exit:
            return (0, 0)
        if n is g.raise_exit:
            return None
        key = n
        if key in memo:
            return memo[key]
        if n in seen:
            return None
        c = 0
        for fr in own_fragments(n):
            for x in walk_fragment(fr):
                if pred(x):
                    c += 1
        res = None
        for t, lab in g.succ[n]:
            if lab in ("exc", "raise", "reraise"):
                continue
            r = walk(t, seen | {n})
            if r is None:
                continue
            r = (r[0] + c, r[1] + c)
            res = r if res is None else (min(res[0], r[0]), max(res[1], r[1]))
        memo[key] = res
        return res

    return walk(g.entry, frozenset())


def _check_main(run, P):
    run.rule("C18.stack", "node stack: one push per rec()/__call__, exactly one pop "
             "per handler invocation; library handlers that do not call combine() "
             "are overridden", minimum=10)
    run.rule("C18.children", "overridden classifier handlers recurse into every child "
             "the library handler of the same name recurses into", minimum=0)  # vacuous only when no handler is overridden, in which case C18.stack fires
    run.rule("C18.const", "replacement only under is_constant; variables classified by "
             "membership in the free variables", minimum=4)
    run.rule("C18.pair", "assignment table keyed by a variable fresh in this "
             "invocation, which is what replaces the hoisted subexpression; the "
             "driver assigns once per entry", minimum=5)
    run.rule("C18.free", "the caller's free-variable collection reaches the classifier "
             "whole: it is handed on un-rebound through the driver and both "
             "constructors and stored once", minimum=4)
    run.rule("C18.table", "the assignment table is created once per top-level call, "
             "before the traversal, and afterwards only receives entries; every "
             "variable obtained from new_var_func() is entered into it", minimum=2)
    run.do(_stack, run, P)
    run.do(_const, run, P)
    run.do(_pair, run, P)
    run.do(_free, run, P)
    run.do(_table, run, P)
    run.do(_regroup_classes, run, P)


def _stack(run, P):
    C = P.cls(f"{MOD}._ConstantFindingMapper")
    CM = P.cls("pymbolic.mapper.CombineMapper")
    is_pop = lambda x: isinstance(x, ast.Call) and dotted(x.func) == "self.node_stack.pop"
    is_push = lambda x: isinstance(x, ast.Call) and dotted(x.func) == "self.node_stack.append"
    is_comb = lambda x: isinstance(x, ast.Call) and dotted(x.func) == "self.combine"
    if "combine" not in C.methods or not any(
            isinstance(x, ast.Attribute) and x.attr == "node_stack"
            for m_ in C.methods.values() for x in ast.walk(m_.node)):
        raise AnalysisError("_ConstantFindingMapper keeps no node stack / has no combine(): "
                            "classifier architecture not recognised")
    for name in ("rec", "__call__"):
        f = C.methods.get(name)
        if f is None:
            raise AnalysisError(f"_ConstantFindingMapper.{name} not found")
        r = _count_on_paths(f, is_push)
        run.ob("C18.stack", f, f.node, r == (1, 1),
               construct=f"{name}: pushes {r} time(s) on every path",
               why="the stack must mirror the recursion")
    comb = C.methods.get("combine")
    r = _count_on_paths(comb, is_pop)
    run.ob("C18.stack", comb, comb.node, r == (1, 1),
           construct=f"combine: pops {r}",
           why="the popped node is the one whose children were combined")
    overridden = {n: f for n, f in C.methods.items() if n.startswith("map_")}
    seen = set()
    for name, f in sorted(overridden.items()):
        if f in seen:
            continue
        seen.add(f)
        pops = _count_on_paths(f, is_pop)
        combs = _count_on_paths(f, is_comb)
        total = None
        if pops is not None and combs is not None:
            total = (pops[0] + combs[0], pops[1] + combs[1])
        if total == (0, 0):
            # a handler that leaves the work to the library's handler (tracing in front of
            # it, say): balanced exactly when that is the handler of the same node kind
            sup = [x for x in ast.walk(f.node) if isinstance(x, ast.Call)
                   and (dotted(x.func) or "").startswith("super().map_")]
            rets = [r for r in ast.walk(f.node) if isinstance(r, ast.Return) and r.value is not None]
            if sup and len(rets) == len(sup) and all(
                    sum(1 for y in ast.walk(r.value) if y in sup) == 1 for r in rets):
                names_here = {n_ for n_, f_ in overridden.items() if f_ is f}
                wrong = sorted(n_ for n_ in names_here for x in sup
                               if dotted(x.func) != f"super().{n_}")
                run.ob("C18.stack", f, sup[0], not wrong,
                       construct=f"{'/'.join(sorted(names_here))}: hands the node to the library handler "
                                 f"of its own kind" + (f" (not so for {wrong}: {norm(sup[0].func)})"
                                                       if wrong else ""),
                       why="reached under another name (an alias), the handler passes the node to "
                           "the library handler of a different node kind, which does not look at "
                           "all of its children (keyword arguments of a call, say)")
                continue
        run.ob("C18.stack", f, f.node, total == (1, 1),
               construct=f"{name}: pops {pops} + combine() calls {combs} per invocation",
               why="a handler that leaves its node on the stack makes the next "
                   "combine() label the wrong node (KeyError / wrong classification); "
                   "popping twice removes the parent")
    # library handlers
    n_lib = 0
    for name, f in sorted(CM.methods.items()):
        if not name.startswith("map_") or name in overridden:
            continue
        n_lib += 1
        calls_comb = any(is_comb(x) for x in ast.walk(f.node))
        run.ob("C18.stack", f, f.node, calls_comb,
               construct=f"CombineMapper.{name} (not overridden) "
                         f"{'calls' if calls_comb else 'does NOT call'} self.combine",
               why="a pass-through handler returns the child's result without "
                   "popping its own node: it has to be overridden in the classifier")
    if n_lib < 10:
        raise AnalysisError("CombineMapper handler table not recognised")
    # children coverage
    for name, f in sorted(overridden.items()):
        lib = CM.methods.get(name)
        if lib is None:
            continue
        lib_children = _rec_children(lib)
        if not any(is_comb(x) for x in ast.walk(f.node)):
            continue     # leaf handler
        mine = _rec_children(f)
        missing = lib_children - mine
        run.ob("C18.children", f, f.node, not missing,
               construct=f"{name} -> {f.qualname}: recurses into {sorted(mine)}; library "
                         f"handler recurses into {sorted(lib_children)}",
               why=f"children {sorted(missing)} are never classified: a subexpression "
                   f"whose only free variable sits there counts as constant and is hoisted")


def _rec_children(f: Func):
    """expr.<attr> names recursed into (self.rec(expr.attr) or self.rec(child)
    for child in expr.attr[.values()])."""
    out = set()
    p = f.params[1] if len(f.params) > 1 else "expr"
    for x in ast.walk(f.node):
        if isinstance(x, ast.Call) and dotted(x.func) == "self.rec" and x.args:
            a = x.args[0]
            if isinstance(a, ast.Attribute) and dotted(a.value) == p:
                out.add(a.attr)
    for c in ast.walk(f.node):
        if isinstance(c, (ast.ListComp, ast.GeneratorExp)):
            if isinstance(c.elt, ast.Call) and dotted(c.elt.func) == "self.rec":
                it = c.generators[0].iter
                if isinstance(it, ast.Call) and isinstance(it.func, ast.Attribute):
                    it = it.func.value
                if isinstance(it, ast.Attribute) and dotted(it.value) == p:
                    out.add(it.attr)
    return out


def _const(run, P):
    from .util import find, first, has
    C = P.cls(f"{MOD}._ConstantFindingMapper")
    if "combine" not in C.methods or not any(
            getattr(b_, "name", "") == "CombineMapper" for b_ in P.mro(C)):
        # another architecture of the classifier (a walk with visit / post_visit, say):
        # the clauses below speak about combine() and the node stack
        raise AnalysisError("_ConstantFindingMapper is not a CombineMapper with its own combine(): "
                            "classifier architecture not recognised")
    mv = C.methods["map_variable"]
    e = mv.params[1]
    r = first(f"V_r = {e} not in self.free_variables", mv.node)
    ok = r[0] is not None and has(f"self.is_constant[{e}] = {r[1]['V_r']}", mv.node) \
        and any(isinstance(x, ast.Return) and dotted(x.value) == r[1]["V_r"]
                for x in ast.walk(mv.node))
    run.ob("C18.const", mv, mv.node, bool(ok),
           construct="map_variable: constant iff not in free_variables",
           why="a free variable classified constant is hoisted out of its scope")
    mc = C.methods["map_constant"]
    run.ob("C18.const", mc, mc.node, has(f"self.is_constant[{mc.params[1]}] = True", mc.node),
           construct="map_constant: constant",
           why="literal")
    cb = C.methods["combine"]
    r = first(f"V_r = reduce(operator.and_, {cb.params[1]})", cb.node)
    cur = first("V_c = self.node_stack.pop()", cb.node)
    ok = r[0] is not None and cur[0] is not None \
        and has(f"self.is_constant[{cur[1]['V_c']}] = {r[1]['V_r']}", cb.node)
    run.ob("C18.const", cb, cb.node, bool(ok),
           construct="combine: constant iff all children are",
           why="any other combination hoists expressions that contain a free variable")
    E = P.cls(f"{MOD}._ExpressionCollapsingMapper")
    rec = E.methods["rec"]
    e = rec.params[1]
    tests = [n for n in ast.walk(rec.node) if isinstance(n, ast.If)]
    from .util import path_conditions
    want = f"_is_atomic({e}) or not self.is_constant[{e}]"
    keep = [s_ for s_ in ast.walk(rec.node) if isinstance(s_, ast.Return)
            and has(f"IdentityMapper.rec(self, {e})", s_)]
    hoist = [s_ for s_ in ast.walk(rec.node) if isinstance(s_, ast.Return) and s_ not in keep]
    # whichever way round the conditional is written
    ok = bool(tests) and bool(keep) and bool(hoist) \
        and all((want, True) in path_conditions(rec.node, s_) for s_ in keep) \
        and all((want, False) in path_conditions(rec.node, s_) for s_ in hoist)
    run.ob("C18.const", rec, tests[0] if tests else rec.node, ok,
           construct="rec: hoist only if not atomic and is_constant[expr]",
           why="hoisting a non-constant subexpression changes the value")
    ca = E.methods["map_commut_assoc"]
    e = ca.params[1]
    ok = False
    recognised = False
    for lp in ast.walk(ca.node):
        if isinstance(lp, ast.For) and norm(lp.iter) == f"{e}.children" \
                and isinstance(lp.target, ast.Name):
            ch = lp.target.id
            for b_ in lp.body:
                if isinstance(b_, ast.If) and norm(b_.test) == f"self.is_constant[{ch}]":
                    recognised = True
                    cs = [m_ for s_ in b_.body for m_ in find(f"V_c.append({ch})", s_)]
                    ns = [m_ for s_ in b_.orelse for m_ in find(f"V_n.append(self.rec({ch}))", s_)]
                    # and neither list receives the child on the other branch
                    wrong = [m_ for s_ in b_.orelse for m_ in find(f"V_c.append(ANY)", s_)
                             if cs and m_[1]["V_c"] == cs[0][1]["V_c"]] + \
                            [m_ for s_ in b_.body for m_ in find(f"V_n.append(ANY)", s_)
                             if ns and m_[1]["V_n"] == ns[0][1]["V_n"]]
                    ok = bool(cs) and bool(ns) and not wrong
    # operands form a multiset: nothing keyed by an operand
    def operand_lists(m_):
        """Lists of a method that collect (some of) the children of the node."""
        p_ = m_.params[1] if len(m_.params) > 1 else None
        out = set()
        for lp_ in ast.walk(m_.node):
            if isinstance(lp_, ast.For) and isinstance(lp_.target, ast.Name) \
                    and "children" in norm(lp_.iter):
                for y in ast.walk(lp_):
                    if isinstance(y, ast.Call) and isinstance(y.func, ast.Attribute) \
                            and y.func.attr == "append" and isinstance(y.func.value, ast.Name) \
                            and y.args and any(isinstance(z, ast.Name) and z.id == lp_.target.id
                                               for z in ast.walk(y.args[0])):
                        out.add(y.func.value.id)
        return out

    keyed = []
    for m_ in E.methods.values():
        for x in ast.walk(m_.node):
            gens = getattr(x, "generators", None)
            if isinstance(x, (ast.DictComp, ast.SetComp)) and gens \
                    and any("children" in norm(g_.iter) for g_ in gens):
                key = x.key if isinstance(x, ast.DictComp) else x.elt
                tv = {y.id for g_ in gens for y in ast.walk(g_.target) if isinstance(y, ast.Name)}
                if isinstance(key, ast.Name) and key.id in tv:
                    keyed.append((m_, x))
            if isinstance(x, ast.Call) and dotted(x.func) in ("set", "frozenset", "dict.fromkeys") \
                    and x.args and ("children" in norm(x.args[0]) or (
                        isinstance(x.args[0], ast.Name) and x.args[0].id in operand_lists(m_))):
                keyed.append((m_, x))
    run.ob("C18.const", keyed[0][0] if keyed else ca, keyed[0][1] if keyed else ca.node, not keyed,
           construct="the operands of a sum / product are never used as keys of a dict or members "
                     "of a set" + (f" (found {norm(keyed[0][1], 50)})" if keyed else ""),
           why="x*x*a regrouped through a mapping keyed by operand is a*x: equal operands are "
               "one key")
    if not recognised:
        # the split is written in another way: not understood (exit 2), not a finding
        raise AnalysisError("map_commut_assoc: the loop that splits the children by is_constant "
                            "was not recognised")
    run.ob("C18.const", ca, ca.node, ok,
           construct="regrouping: children split by is_constant; non-constants are recursed",
           why="only constant children may be folded into the hoisted group")


def _pair(run, P):
    E = P.cls(f"{MOD}._ExpressionCollapsingMapper")
    n = 0
    for name in ("rec", "map_commut_assoc"):
        f = E.methods[name]
        fresh = set()
        for s in func_body_stmts(f.node):
            if isinstance(s, ast.Assign) and isinstance(s.value, ast.Call) \
                    and dotted(s.value.func) == "self.new_var_func" \
                    and isinstance(s.targets[0], ast.Name):
                fresh.add(s.targets[0].id)
        stores = [s for s in func_body_stmts(f.node) if isinstance(s, ast.Assign)
                  and isinstance(s.targets[0], ast.Subscript)
                  and dotted(s.targets[0].value) == "self.assignments"]
        for s in stores:
            n += 1
            key = dotted(s.targets[0].slice)
            run.ob("C18.pair", f, s, key in fresh,
                   construct=f"{name}: {norm(s, 90)}",
                   why="keyed by anything but a variable fresh in this invocation, a "
                       "second hoist of an equal expression overwrites the entry: the "
                       "earlier variable is used but never assigned")
        # every lookup of the table that feeds the result is forbidden (no reuse)
        reads = [x for x in ast.walk(f.node) if isinstance(x, (ast.Subscript, ast.Call))
                 and ((isinstance(x, ast.Subscript) and isinstance(x.ctx, ast.Load)
                       and (dotted(x.value) or "").startswith("self.") and
                       dotted(x.value) not in ("self.is_constant",))
                      or (isinstance(x, ast.Call) and isinstance(x.func, ast.Attribute)
                          and x.func.attr in ("get", "setdefault")
                          and (dotted(x.func.value) or "").startswith("self.")
                          and dotted(x.func.value) not in ("self.is_constant",)))]
        n += 1
        run.ob("C18.pair", f, reads[0] if reads else f.node, not reads,
               construct=f"{name}: no variable is taken from a table of earlier hoists"
                         + (f" (found {norm(reads[0], 60)})" if reads else ""),
               why="a variable created for another occurrence stands for another "
                   "expression (e.g. the same operands under a different operator)")
        # what replaces the subexpression is the fresh variable
        g = CFG(f.node)
        for v in sorted(fresh):
            used = any(isinstance(s, ast.Return) and v in {x.id for x in ast.walk(s.value)
                                                           if isinstance(x, ast.Name)}
                       for s in func_body_stmts(f.node) if isinstance(s, ast.Return) and s.value) \
                or any(isinstance(s, ast.Assign) and dotted(s.value) == v
                       for s in func_body_stmts(f.node))
            n += 1
            run.ob("C18.pair", f, f.node, used and any(dotted(s.targets[0].slice) == v for s in stores),
                   construct=f"{name}: '{v}' = new_var_func() is stored once and takes the "
                             f"place of the hoisted subexpression",
                   why="a created variable that is not recorded is never assigned")
    from .util import find, first, has
    d = P.func(f"{MOD}.collapse_constants")
    loops = [x for x in ast.walk(d.node) if isinstance(x, ast.For)]
    ok = False
    if len(loops) == 1 and isinstance(loops[0].target, ast.Tuple):
        lp = loops[0]
        a_, b_ = (dotted(t) for t in lp.target.elts)
        assign_func = d.params[2]
        r = first(f"V_new, V_map = V_m({d.params[0]}, {d.params[3]})", d.node)
        ok = r[0] is not None and norm(lp.iter) == f"{r[1]['V_map']}.items()" \
            and sum(1 for s_ in lp.body for x in ast.walk(s_)
                    if isinstance(x, ast.Call) and dotted(x.func) == assign_func) == 1 \
            and any(norm(s_) == f"{assign_func}({a_}, {b_})" for s_ in lp.body)
    run.ob("C18.pair", d, loops[0] if loops else d.node, ok,
           construct="for variable, expr in <variable map>.items(): assign_func(variable, expr)",
           why="every new variable is assigned exactly once, with its own expression")
    c = E.methods["__call__"]
    r = first("V_r = IdentityMapper.__call__(self, ANY)", c.node)
    ok = has("self.assignments = {}", c.node) and r[0] is not None \
        and has(f"return ({r[1]['V_r']}, self.assignments)", c.node)
    run.ob("C18.pair", c, c.node, bool(ok),
           construct="a new assignment table per top-level call, returned with the result",
           why="assignments of an earlier call must not leak")
    if n < 4:
        raise AnalysisError("C18.pair: too few sites")


def _regroup_classes(run, P):
    """Handlers that regroup constants rebuild the node with its own class."""
    E = P.cls(f"{MOD}._ExpressionCollapsingMapper")
    want = {"map_sum": "Sum", "map_product": "Product", "map_min": "Min", "map_max": "Max",
            "map_logical_and": "LogicalAnd", "map_logical_or": "LogicalOr",
            "map_bitwise_and": "BitwiseAnd", "map_bitwise_or": "BitwiseOr",
            "map_bitwise_xor": "BitwiseXor"}
    passed = {}
    for name, m in E.methods.items():
        for x in ast.walk(m.node):
            if isinstance(x, ast.Call) and dotted(x.func) == "self.map_commut_assoc" and len(x.args) == 2:
                a1 = x.args[1]
                if isinstance(a1, ast.Call) and dotted(a1.func) in ("partial", "functools.partial") \
                        and len(a1.args) == 2 and dotted(a1.args[1]):
                    # partial(<helper that splices nested nodes of the class>, <the class>)
                    passed[name] = (dotted(a1.args[1]), m)
                elif dotted(a1) is None:
                    raise AnalysisError(f"{name}: regrouping function {norm(a1)[:40]} not recognised")
                else:
                    passed[name] = (dotted(a1), m)
    n = 0
    for name, (cls_, m) in sorted(passed.items()):
        if name == "map_commut_assoc":
            continue
        n += 1
        run.ob("C18.const", m, m.node, want.get(name) == cls_,
               construct=f"{name} regroups with {cls_} (the class of the node it handles: {want.get(name)})",
               why="a regrouped node rebuilt with another operator has another value")
    for a, v in sorted(E.attrs.items()):
        if a.startswith("map_") and isinstance(v, ast.Name) and v.id in passed:
            n += 1
            run.ob("C18.const", E, v, want.get(a) == passed[v.id][0],
                   construct=f"{a} = {v.id}: {v.id} regroups with {passed[v.id][0]}, {a} handles "
                             f"{want.get(a)} nodes",
                   why="an alias to a handler that hard-codes the node class rebuilds every "
                       "regrouped max() as a min()")
    if n < 2:
        raise AnalysisError("C18: regrouping handlers not found")


def _rebound(fn_node, name):
    """Statements that bind *name* again inside the function."""
    out = []
    for n in ast.walk(fn_node):
        if isinstance(n, (ast.Assign, ast.AugAssign, ast.AnnAssign)):
            tg = n.targets if isinstance(n, ast.Assign) else [n.target]
            for t in tg:
                for x in ast.walk(t):
                    if isinstance(x, ast.Name) and x.id == name and isinstance(x.ctx, ast.Store):
                        out.append(n)
        elif isinstance(n, (ast.For, ast.comprehension)):
            for x in ast.walk(n.target):
                if isinstance(x, ast.Name) and x.id == name:
                    out.append(n)
    return out


def _free(run, P):
    why = ("a free variable that is filtered out on the way (because it only occurs in "
           "call position, say) is classified constant, and a subexpression that "
           "mentions it is hoisted")
    d = P.func(f"{MOD}.collapse_constants")
    fv = d.params[1]
    ctor = [x for x in ast.walk(d.node) if isinstance(x, ast.Call)
            and dotted(x.func) == "_ExpressionCollapsingMapper"]
    ok = len(ctor) == 1 and len(ctor[0].args) == 1 and dotted(ctor[0].args[0]) == fv \
        and not _rebound(d.node, fv)
    run.ob("C18.free", d, ctor[0] if ctor else d.node, ok,
           construct=f"collapse_constants: _ExpressionCollapsingMapper({fv}) with the "
                     f"parameter as received",
           why=why)
    # the driver classifies and hoists nothing by itself
    af, nv = d.params[2], d.params[3]
    table_loops = [n for n in ast.walk(d.node) if isinstance(n, ast.For)
                   and isinstance(n.iter, ast.Call) and isinstance(n.iter.func, ast.Attribute)
                   and n.iter.func.attr == "items"]
    stray = []
    from .util import path_conditions

    def whole_expression_guard(x):
        """A call outside the table loop is the driver hoisting the expression as a
        whole; that is sound exactly when no free variable occurs in it, callees
        included.  Returns True (guarded so), False (guard leaves callees out) or
        None (guarded in a way this clause does not read)."""
        stmt = next((s_ for s_ in ast.walk(d.node) if isinstance(s_, ast.stmt)
                     and not isinstance(s_, (ast.If, ast.For, ast.While, ast.Try, ast.With,
                                             ast.FunctionDef))
                     and any(y is x for y in ast.walk(s_))), None)
        if stmt is None:
            return None
        texts = [t for t, _pol in path_conditions(d.node, stmt)]
        # follow locals of the tests to what they were computed from
        for s_ in ast.walk(d.node):
            if isinstance(s_, ast.Assign) and len(s_.targets) == 1 \
                    and isinstance(s_.targets[0], ast.Name) \
                    and any(re.search(rf"\b{re.escape(s_.targets[0].id)}\b", t) for t in list(texts)):
                texts.append(norm(s_.value))
        gv = [t for t in texts if "get_variables(" in t]
        if not gv:
            return None
        return all("include_function_symbols=True" in t for t in gv)

    undecided = []
    for x in ast.walk(d.node):
        if isinstance(x, ast.Call) and isinstance(x.func, ast.Name) and x.func.id in (af, nv):
            inside = any(any(x is y for y in ast.walk(b)) for lp in table_loops for b in lp.body)
            if x.func.id == nv or not inside:
                g_ = whole_expression_guard(x)
                if g_ is True:
                    continue
                if g_ is None and path_conditions(d.node, next(
                        (s_ for s_ in ast.walk(d.node) if isinstance(s_, ast.stmt)
                         and any(y is x for y in ast.walk(s_))), d.node.body[0])):
                    undecided.append(x)
                    continue
                stray.append(x)
    if undecided and not stray:
        raise AnalysisError(f"collapse_constants: {norm(undecided[0])[:50]} under a guard this "
                            f"clause does not read")
    run.ob("C18.free", d, stray[0] if stray else d.node, not stray,
           construct=f"collapse_constants: {af}() is called only for the entries of the mapper's "
                     f"table, {nv} is only handed to the mapper"
                     + (f" (also: {norm(stray[0], 50)})" if stray else ""),
           why="a shortcut that decides constancy in the driver by-passes the classifier "
               "(which counts function symbols and every kind of node): an expression "
               "whose only free variable stands in call position is hoisted whole")
    E = P.cls(f"{MOD}._ExpressionCollapsingMapper")
    ei = E.methods["__init__"]
    fv = ei.params[1]
    ctor = [x for x in ast.walk(ei.node) if isinstance(x, ast.Call)
            and dotted(x.func) == "_ConstantFindingMapper"]
    ok = len(ctor) == 1 and len(ctor[0].args) == 1 and dotted(ctor[0].args[0]) == fv \
        and not _rebound(ei.node, fv)
    run.ob("C18.free", ei, ctor[0] if ctor else ei.node, ok,
           construct=f"_ExpressionCollapsingMapper.__init__: _ConstantFindingMapper({fv}) "
                     f"with the parameter as received",
           why=why)
    # the classifier is the one built there
    call = E.methods["__call__"]
    others = [x for m in E.methods.values() for x in ast.walk(m.node)
              if isinstance(x, ast.Call) and dotted(x.func) == "_ConstantFindingMapper"
              and m is not ei]
    uses = [x for x in ast.walk(call.node) if isinstance(x, ast.Assign)
            and dotted(x.targets[0]) == "self.is_constant"]
    attr = None
    for x in ast.walk(ei.node):
        if isinstance(x, ast.Assign) and ctor and x.value is ctor[0]:
            attr = dotted(x.targets[0])
    ok = not others and len(uses) == 1 and attr is not None \
        and norm(uses[0].value) == f"{attr}({call.params[1]})"
    run.ob("C18.free", call, uses[0] if uses else call.node, ok,
           construct=f"__call__: is_constant = {attr}(expr), the classifier built in __init__, "
                     f"on the whole expression",
           why="classification must cover the expression that is rewritten, with the "
               "caller's free variables")
    C = P.cls(f"{MOD}._ConstantFindingMapper")
    ci = C.methods["__init__"]
    fv = ci.params[1]
    stores = [(m, x) for m in C.methods.values() for x in ast.walk(m.node)
              if isinstance(x, (ast.Assign, ast.AugAssign))
              and any(dotted(t) == "self.free_variables"
                      for t in (x.targets if isinstance(x, ast.Assign) else [x.target]))]
    ok = len(stores) == 1 and stores[0][0] is ci and isinstance(stores[0][1], ast.Assign) \
        and norm(stores[0][1].value) in (fv, f"frozenset({fv})", f"set({fv})", f"list({fv})",
                                         f"tuple({fv})") and not _rebound(ci.node, fv)
    run.ob("C18.free", ci, stores[0][1] if stores else ci.node, ok,
           construct=f"_ConstantFindingMapper: self.free_variables = {fv}, stored once",
           why=why)


def _table(run, P):
    E = P.cls(f"{MOD}._ExpressionCollapsingMapper")
    call = E.methods["__call__"]
    g = CFG(call.node)
    whole = [(m, x) for m in E.methods.values() for x in ast.walk(m.node)
             if isinstance(x, (ast.Assign, ast.AugAssign, ast.Delete))
             and any(dotted(t) == "self.assignments"
                     for t in (x.targets if isinstance(x, (ast.Assign, ast.Delete)) else [x.target]))]
    trav = [n for n in g.nodes if n.kind == "stmt" and any(
        isinstance(x, ast.Call) and dotted(x.func) in ("IdentityMapper.__call__", "super().__call__")
        for x in walk_fragment(n.ast))]
    ok = len(whole) == 1 and whole[0][0] is call and isinstance(whole[0][1], ast.Assign) \
        and norm(whole[0][1].value) in ("{}", "dict()") and bool(trav)
    if ok:
        init = [n for n in g.nodes if n.ast is whole[0][1]]
        ok = bool(init) and not g.always_preceded(trav, init)
    shrink = [x for m in E.methods.values() for x in ast.walk(m.node)
              if isinstance(x, ast.Call) and isinstance(x.func, ast.Attribute)
              and x.func.attr in ("pop", "popitem", "clear") and dotted(x.func.value) == "self.assignments"]
    run.ob("C18.table", call, whole[0][1] if whole else call.node, ok and not shrink,
           construct=f"self.assignments is bound {len(whole)} time(s) (= {{}} before the traversal) "
                     f"and never shrunk",
           why="replacing or emptying the table after the traversal drops the "
               "assignments of variables that the rewritten expression, or other "
               "hoisted expressions, were given: they are used and never assigned")
    n_new = 0
    bad = []
    for m in E.methods.values():
        for x in ast.walk(m.node):
            if isinstance(x, ast.Call) and dotted(x.func) == "self.new_var_func":
                n_new += 1
                par = [a for a in ast.walk(m.node) if isinstance(a, ast.Assign) and a.value is x
                       and any(isinstance(t_, ast.Name) for t_ in a.targets)]
                v = next(t_.id for t_ in par[0].targets if isinstance(t_, ast.Name)) if par else None
                stored = v is not None and any(
                    isinstance(a, ast.Assign) and any(
                        isinstance(t, ast.Subscript) and dotted(t.value) == "self.assignments"
                        and dotted(t.slice) == v for t in a.targets)
                    for a in ast.walk(m.node))
                if not stored:
                    bad.append(m.name)
    run.ob("C18.table", E.methods["rec"], None, n_new >= 1 and not bad,
           construct=f"{n_new} calls of new_var_func(); each result is entered with "
                     f"self.assignments[<it>] = ..." + (f" (not in {sorted(set(bad))})" if bad else ""),
           why="a variable that is created and not entered is never assigned")


def check(run, P):
    run.do(_check_main, run, P)
    from . import generic
    generic.lints(run, P, "C18")
