"""C09 - inferred kinds agree with the values computed at run time."""

from __future__ import annotations

import ast
import itertools

from ..engine import absint
from ..engine.cfg import CFG
from ..engine.match import dotted, norm, func_body_stmts, string_value
from ..engine.srcmodel import AnalysisError, Class, Func

EXPLANATION = (
    "Total-return analysis of dagrt.data.KindInferenceMapper (CFG), table "
    "agreement across the three built-in registries, abstract interpretation "
    "of unify() for the realness law, and an abstract evaluation of the "
    "Python built-ins over a small table of numpy result-kind facts. "
    "Decides: every kind handler returns a kind expression on every "
    "non-raising path (every assigned variable gets a kind); for every "
    "built-in the number of declared result names, the length of every tuple "
    "returned by get_result_kinds and the number of values returned by the "
    "Python implementation agree, each element being a kind constructor; "
    "identifier sets of the Python table, the registry classes and the "
    "Python patterns agree (Fortran registrations are a subset with the "
    "listed complement); unify() never yields a real-valued kind from a "
    "complex operand (exhaustive over the abstract kind universe); a "
    "built-in declared to return a real scalar or a flag whatever its "
    "argument returns one under the numpy facts table; the change-latch / "
    "progress / fixed-point clauses of the inference loop (shared with "
    "C14). Does not decide: that a run-time value has the inferred kind in "
    "general (numpy value semantics).")

ASSUMPTIONS = [
    "numpy facts table: abs/np.abs/np.linalg.norm/np.size return real values; np.isnan(...).any() a flag; np.vdot/np.dot/np.sqrt/np.sum/arithmetics are complex when an operand is",
    "unify() stays in the interpretable subset (else exit 2)",
]

DATA = "dagrt.data"
KINDS = {"Boolean", "Integer", "Scalar", "Array", "UserType"}

# result realness of numpy / builtin calls: 'real', 'flag', or 'same' (complex
# if any argument is)
NUMPY_FACTS = {
    "abs": "real", "np.abs": "real", "np.absolute": "real", "np.linalg.norm": "real",
    "la.norm": "real", "np.size": "real", "len": "real", "float": "real", "int": "real",
    "np.real": "real", "np.floor": "real",
    "np.vdot": "same", "np.dot": "same", "np.sqrt": "same", "np.sum": "same",
    "np.max": "same", "np.min": "same", "np.transpose": "same", "np.conj": "same",
    "np.isnan": "flagarray", "np.isscalar": "flag", "bool": "flag",
    "la.solve": "same", "np.linalg.solve": "same", "np.matmul": "same",
}


def _check_main(run, P):
    run.rule("C09.total", "every kind handler returns a kind expression on every "
             "non-raising path", minimum=14)
    run.rule("C09.arity", "declared result names, returned kind tuples and Python "
             "return values have the same length; tuple elements are kind "
             "constructors", minimum=13)
    run.rule("C09.tables", "identifier sets of the built-in tables agree", minimum=3)
    run.rule("C09.unify_real", "unify() never yields a real-valued kind from a "
             "complex operand", minimum=30)
    run.rule("C09.real", "a built-in declared real / flag for every argument returns "
             "one under the numpy facts", minimum=5)
    run.rule("C09.fix", "inference loop: change latch, progress and fixed point "
             "(shared with C14.latch / C14.progress / C14.fixpoint)", minimum=6)
    run.rule("C09.operands", "the kind of an arithmetic node is the join of the kinds "
             "of all its operands", minimum=4)
    run.rule("C09.resolve", "resolve_args binds like a Python call and returns one value per "
             "declared argument, in declaration order: positional before keyword before "
             "default, exactly one value per name on every path, unknown keywords rejected",
             minimum=5)
    run.do(resolve_rule, run, P, "C09.resolve")
    run.rule("C09.same_tree", "inference looks at the expression the interpreter evaluates: a "
             "simplifying rewrite (pymbolic flatten) that inference applies to a statement's "
             "expression is applied by the statement's constructor too", minimum=1)
    run.do(_same_tree, run, P)
    run.rule("C09.const", "a constant is complex by its *type*: the test is an "
             "isinstance() over the built-in and numpy's complex scalar types", minimum=1)
    run.do(_const, run, P)
    run.do(_operands, run, P)
    run.do(_total, run, P)
    run.rule("C09.single", "a call in expression context takes its kind from a function "
             "with exactly one result", minimum=2)
    run.do(_single, run, P)
    run.do(_arity_tables, run, P)
    run.do(_unify_real, run, P)
    run.do(_real, run, P)
    from . import c14
    from .c01 import _alias
    for r in ("C14.swallow", "C14.latch"):
        pass
    run.rule_docs.setdefault("C14.swallow", "")
    run.minimum.setdefault("C14.swallow", 0)
    _alias(run, "C14.latch", "C09.fix", lambda: c14._table_update(run, P))
    for o in run.obs:
        if o.rule == "C14.swallow":
            o.rule = "C09.fix"
    del run.rule_docs["C14.swallow"]
    del run.minimum["C14.swallow"]
    for r in ("C14.progress", "C14.fixpoint"):
        run.rule_docs[r] = ""
        run.minimum[r] = 0
    run.do(c14._worklist, run, P)
    for o in run.obs:
        if o.rule in ("C14.progress", "C14.fixpoint"):
            o.rule = "C09.fix"
    for r in ("C14.progress", "C14.fixpoint"):
        del run.rule_docs[r]
        del run.minimum[r]
    # names and statement lists handed to the kind finder are paired correctly, and
    # provisional kinds do not abort inference (shared with C14)
    _alias(run, "C14.pairing", "C09.fix", lambda: c14._pairing(run, P))
    # note: dead 'check' parameter
    f = P.func(f"{DATA}.SymbolKindFinder.__call__")
    mk = f.nested.get("make_kim")
    if mk is not None and "check" in mk.params:
        used = any(isinstance(x, ast.Name) and x.id == "check" and isinstance(x.ctx, ast.Load)
                   for x in ast.walk(mk.node))
        if not used:
            run.note("C09: make_kim(phase_name, check) ignores 'check' (always "
                     "check=False): the final consistency pass never checks. No "
                     "input was found on which this makes a stored value disagree "
                     "with its kind, so it is not counted.")


def _from_result_kinds(name, f: Func):
    for s_ in func_body_stmts(f.node):
        if isinstance(s_, ast.Assign) and any(isinstance(t, ast.Name) and t.id == name
                                              for t in s_.targets) \
                and isinstance(s_.value, ast.Call) \
                and (dotted(s_.value.func) or "").endswith(".get_result_kinds"):
            return True
    return False


ARITH = {"map_sum": "children", "map_product": "children",
         "map_quotient": None, "map_power": None}


def _operands(run, P):
    C = P.cls(f"{DATA}.KindInferenceMapper")
    CM = P.cls("pymbolic.mapper.CombineMapper")
    from .c18 import _rec_children
    for name in sorted(ARITH) + ["map_if"]:
        f = P.method(C, name)
        lib = CM.methods.get(name)
        if name == "map_if" and (f is None or f.cls is not C):
            continue        # conditional expressions have no kind rule (they are expanded first)
        if f is None or lib is None:
            raise AnalysisError(f"KindInferenceMapper.{name} / CombineMapper.{name} not found")
        need = _rec_children(lib)
        if name == "map_if":
            need = need - {"condition"}      # the value is one of the branches
        got = _joined_children(P, C, f)
        missing = need - got
        if missing and not got:
            # nothing recognised: either the handler returns out of its loop over the
            # operands with the kind of the one in hand (decided), or it is written in a
            # way this clause does not read (not decided)
            e = f.arg(0)
            early = [r for lp in ast.walk(f.node) if isinstance(lp, ast.For)
                     and isinstance(lp.target, ast.Name)
                     for r in ast.walk(lp) if isinstance(r, ast.Return)
                     and isinstance(r.value, ast.Call) and dotted(r.value.func) == "self.rec"
                     and r.value.args and dotted(r.value.args[0]) == lp.target.id]
            single = [r for r in ast.walk(f.node) if isinstance(r, ast.Return)
                      and isinstance(r.value, ast.Call) and dotted(r.value.func) == "self.rec"
                      and r.value.args and isinstance(r.value.args[0], ast.Attribute)
                      and dotted(r.value.args[0].value) == e]
            if not early and not single:
                raise AnalysisError(f"KindInferenceMapper.{name}: how operand kinds reach the "
                                    f"result is not recognised")
        run.ob("C09.operands", f, f.node, not missing,
               construct=f"{name}: kinds of {sorted(got)} reach the result; operands are {sorted(need)}",
               why=f"the kind of operand(s) {sorted(missing)} does not reach the result: "
                   f"real/complex, scalar/array or integer/real widening by that "
                   f"operand is lost and the variable's value does not have its kind")


def _joined_children(P, C, f: Func, depth=0):
    """expr.<attr> whose kind flows into the returned kind of handler f."""
    e = f.params[1] if len(f.params) > 1 else "expr"
    out = set()
    rets = [r for r in func_body_stmts(f.node) if isinstance(r, ast.Return) and r.value is not None]
    # names that accumulate kinds through unify(name, self.rec(x))
    acc = {}
    for lp in ast.walk(f.node):
        if isinstance(lp, ast.For) and isinstance(lp.target, ast.Name):
            it = lp.iter
            src_attr = None
            if isinstance(it, ast.Attribute) and dotted(it.value) == e:
                src_attr = it.attr
            elif isinstance(it, ast.Name) and it.id in f.params:
                src_attr = "@" + it.id
            elif isinstance(it, (ast.Tuple, ast.List)) and it.elts and all(
                    isinstance(x_, ast.Attribute) and dotted(x_.value) == e for x_ in it.elts):
                src_attr = tuple(x_.attr for x_ in it.elts)      # for b in (expr.then, expr.else_)
            if src_attr is None:
                continue
            v = lp.target.id
            rec_names = {v}
            for s_ in ast.walk(lp):
                if isinstance(s_, ast.Assign) and isinstance(s_.value, ast.Call) \
                        and dotted(s_.value.func) == "self.rec" and s_.value.args \
                        and dotted(s_.value.args[0]) == v:
                    rec_names |= {t.id for t in s_.targets if isinstance(t, ast.Name)}
            for s_ in ast.walk(lp):
                if isinstance(s_, ast.Assign) and isinstance(s_.value, ast.Call) \
                        and dotted(s_.value.func) == "unify" and len(s_.value.args) == 2:
                    a0, a1 = s_.value.args
                    tgt = s_.targets[0].id if isinstance(s_.targets[0], ast.Name) else None
                    uses = any((isinstance(x, ast.Call) and dotted(x.func) == "self.rec"
                                and x.args and dotted(x.args[0]) == v)
                               or (isinstance(x, ast.Name) and x.id in rec_names and x.id != v)
                               for a_ in (a0, a1) for x in ast.walk(a_))
                    if tgt and dotted(a0) == tgt and uses:
                        acc[tgt] = src_attr
    for r in rets:
        v = r.value
        if isinstance(v, ast.Name) and v.id in acc:
            if isinstance(acc[v.id], tuple):
                out.update(acc[v.id])
            else:
                out.add(acc[v.id])
        for x in ast.walk(v):
            if isinstance(x, ast.Call) and dotted(x.func) == "unify":
                for a_ in x.args:
                    if isinstance(a_, ast.Call) and dotted(a_.func) == "self.rec" and a_.args \
                            and isinstance(a_.args[0], ast.Attribute) and dotted(a_.args[0].value) == e:
                        out.add(a_.args[0].attr)
            if isinstance(x, ast.Call) and (dotted(x.func) or "").startswith("self.map_") and depth < 2:
                helper = P.method(C, x.func.attr)
                if helper is not None and x.args:
                    inner = _joined_children(P, C, helper, depth + 1)
                    a0 = x.args[0]
                    hp = helper.params[1] if len(helper.params) > 1 else None
                    if hp and ("@" + hp) in inner:
                        if isinstance(a0, ast.Attribute) and dotted(a0.value) == e:
                            out.add(a0.attr)
                        elif isinstance(a0, ast.Tuple):
                            for el in a0.elts:
                                if isinstance(el, ast.Attribute) and dotted(el.value) == e:
                                    out.add(el.attr)
    return out


def _kind_expr_ok(e, f: Func, _depth=0):
    """Is *e* a kind-valued expression form?"""
    if isinstance(e, ast.Call):
        d = dotted(e.func) or ""
        if d in KINDS or d == "unify":
            return True
        if d.startswith("self.rec") or d.startswith("self.map_"):
            return True
        if d in ("tuple", "list") and len(e.args) == 1 and not e.keywords:
            return _kind_expr_ok(e.args[0], f, _depth)
        if d.startswith("self.") and d.count(".") == 1 and f.cls is not None and _depth < 3:
            # a helper of the class: what it returns
            h = f.cls.methods.get(d[5:])
            if h is not None:
                rets = [r for r in ast.walk(h.node) if isinstance(r, ast.Return) and r.value is not None]
                return bool(rets) and all(
                    _kind_expr_ok(r.value, h, _depth + 1) or _element_of_kinds(r.value, h)
                    for r in rets)
    if isinstance(e, ast.Subscript) and isinstance(e.value, ast.Call) \
            and (dotted(e.value.func) or "").startswith("self.map_"):
        return True
    if isinstance(e, ast.Subscript):
        d = dotted(e.value) or ""
        if d in ("self.global_table", "self.local_table"):
            return True
        if isinstance(e.value, ast.Name) and _from_result_kinds(e.value.id, f):
            return True
    if isinstance(e, ast.Name) and _from_result_kinds(e.id, f):
        return True
    if isinstance(e, ast.Name):
        # local holding a kind: assigned from a kind expression / accumulated by unify
        for s in func_body_stmts(f.node):
            if isinstance(s, ast.Assign) and any(isinstance(t, ast.Name) and t.id == e.id
                                                 for t in s.targets):
                if _kind_expr_ok(s.value, f) or (isinstance(s.value, ast.Call) and
                                                 dotted(s.value.func) == "func.get_result_kinds"):
                    return True
    return False


def _element_of_kinds(e, h: Func):
    """<parameter>[<constant>] in a helper that is handed a tuple of kinds."""
    return isinstance(e, ast.Subscript) and isinstance(e.value, ast.Name) \
        and e.value.id in h.params and isinstance(e.slice, ast.Constant)


def _single(run, P):
    """A call in expression context stands for one value: its kind is taken from a
    function's result kinds only after 'exactly one result' has been tested, on every
    return chain from map_call / map_call_with_kwargs down to get_result_kinds."""
    from .util import path_conditions
    C = P.cls(f"{DATA}.KindInferenceMapper")

    def len_test(conds, env):
        for t, pol in conds:
            m = t.replace(" ", "")
            if m.startswith("len(") and ((m.endswith(")!=1") and pol is False)
                                          or (m.endswith(")==1") and pol is True)):
                return True
        return False

    def feasible(conds, env):
        for t, pol in conds:
            if t in env and env[t] is not None and bool(env[t]) != pol:
                return False
        return True

    def checked(h: Func, env, depth, trail):
        """Every feasible return of h hands back a value that passed the test."""
        if depth > 4:
            raise AnalysisError("C09.single: return chain too deep")
        rets = [r for r in ast.walk(h.node) if isinstance(r, ast.Return) and r.value is not None
                and not any(isinstance(fn, (ast.FunctionDef, ast.Lambda)) and fn is not h.node
                            and any(x is r for x in ast.walk(fn)) for fn in ast.walk(h.node))]
        if not rets:
            raise AnalysisError(f"C09.single: {h.qualname} returns nothing")
        bad = []
        for r in rets:
            conds = path_conditions(h.node, r)
            if not feasible(conds, env):
                continue
            if len_test(conds, env):
                continue
            v = r.value
            if isinstance(v, ast.Subscript):
                v = v.value
            inner = [x for x in ast.walk(v) if isinstance(x, ast.Call)
                     and (dotted(x.func) or "").startswith("self.")
                     and (dotted(x.func) or "").count(".") == 1
                     and P.method(C, x.func.attr) is not None
                     and x.func.attr not in ("rec",)]
            # the outermost helper decides: a checking wrapper around an unchecked call is fine
            outer = [x for x in inner if not any(
                y is not x and any(z is x for z in ast.walk(y)) for y in inner)]
            if not outer:
                bad.append((h, r))
                continue
            for c in outer:
                m = P.method(C, c.func.attr)
                e2 = {}
                ps = m.params[1:]
                dflt = m.node.args.defaults
                for a_, d_ in zip(reversed(ps), reversed(dflt)):
                    e2[a_] = d_.value if isinstance(d_, ast.Constant) else None
                for i, a_ in enumerate(c.args):
                    if i < len(ps):
                        e2[ps[i]] = a_.value if isinstance(a_, ast.Constant) else None
                for k in c.keywords:
                    if k.arg:
                        e2[k.arg] = k.value.value if isinstance(k.value, ast.Constant) else None
                bad.extend(checked(m, e2, depth + 1, trail + [m.name]))
        return bad

    n = 0
    for name in ("map_call", "map_call_with_kwargs"):
        h = P.method(C, name)
        if h is None:
            raise AnalysisError(f"KindInferenceMapper.{name} not found")
        bad = checked(h, {}, 0, [name])
        n += 1
        where = bad[0] if bad else (h, h.node)
        run.ob("C09.single", where[0], where[1], not bad,
               construct=f"{name}: the result kinds pass an 'exactly one result' test before "
                         f"one of them becomes the kind of the call"
                         + (f" (unchecked: {where[0].name}: {norm(where[1])[:70]})" if bad else ""),
               why="a function with two results used inside an expression is given the kind "
                   "of its first result while the value is the tuple of both")


def _total(run, P):
    C = P.cls(f"{DATA}.KindInferenceMapper")
    n = 0
    seen = set()
    unknown = []
    for name, f in sorted(C.methods.items()):
        if not name.startswith("map_") or f in seen:
            continue
        seen.add(f)
        n += 1
        g = CFG(f.node)
        live = g.reachable([g.entry], include_start=True)
        falls = [a for a, lab in g.pred[g.exit] if lab != "return" and a in live]
        rets = [s for s in func_body_stmts(f.node) if isinstance(s, ast.Return)]
        bare = [s for s in rets if s.value is None or (
            isinstance(s.value, ast.Constant) and s.value.value is None)]
        ok = not falls and not bare and bool(rets)
        run.ob("C09.total", f, f.node, ok,
               construct=f"{name}: returns on every non-raising path"
                         + (" (a path falls off the end)" if falls else ""),
               why="a handler that falls off its end records the kind None: the "
                   "variable has no kind and the Fortran generator fails with "
                   "'unknown variable kind'")
        for r in rets:
            if r.value is None:
                continue
            ok = _kind_expr_ok(r.value, f)
            if not ok and not isinstance(r.value, (ast.Constant, ast.Tuple, ast.List, ast.Dict, ast.Set,
                                                   ast.JoinedStr, ast.Compare, ast.BoolOp)):
                v = r.value
                if isinstance(v, ast.Name):
                    # a local that accumulates kinds: every value it is given is a kind
                    # expression, None to start with, or comes out of a helper
                    vals = [s_.value for s_ in ast.walk(f.node) if isinstance(s_, ast.Assign)
                            and any(isinstance(t_, ast.Name) and t_.id == v.id for t_ in s_.targets)]
                    if vals and all(_kind_expr_ok(x_, f) or (isinstance(x_, ast.Constant)
                                                             and x_.value is None) for x_ in vals):
                        ok = True
                if not ok:
                    unknown.append(f"{name}: {norm(r)}")
                    continue
            run.ob("C09.total", f, r, ok,
                   construct=f"{name}: {norm(r)}",
                   why="the returned expression is not a kind (constructor, "
                       "unify, recursion, table lookup)")
    if unknown:
        raise AnalysisError(f"kind handlers return values of a form this clause does not read: "
                            f"{unknown[0]}" + (f" (and {len(unknown) - 1} more)" if len(unknown) > 1 else ""))


def _tuple_len(e):
    if isinstance(e, ast.Tuple):
        return len(e.elts)
    return None


def _arity_tables(run, P):
    mb = P.module("dagrt.builtins_python")
    table = mb.assigns.get("builtins")
    py = {string_value(k): dotted(v) for k, v in zip(table.keys, table.values)}
    base = P.cls("dagrt.function_registry.Function")
    reg = {}
    for c in P.subclasses(base, modules={"dagrt.function_registry"}):
        hit = c.attrs.get("identifier")
        ident = string_value(hit) if hit is not None else None
        if ident and ident.startswith("<builtin>") and not c.name.startswith("_"):
            reg[ident] = c
    bfr = P.func("dagrt.function_registry._make_bfr")
    pat_classes = set()
    fortran = set()
    for n in ast.walk(bfr.node):
        if isinstance(n, ast.Tuple) and len(n.elts) == 2 and isinstance(n.elts[0], ast.Call) \
                and isinstance(n.elts[1], ast.Constant) and isinstance(n.elts[1].value, str):
            pat_classes.add(dotted(n.elts[0].func))
        if isinstance(n, ast.Call) and dotted(n.func) == "bfr.register_codegen" \
                and len(n.args) == 3 and string_value(n.args[1]) == "fortran":
            a = n.args[0]
            if isinstance(a, ast.Attribute) and a.attr == "identifier":
                fortran.add(dotted(a.value))
    reg_classes = {c.name for c in reg.values()}
    run.ob("C09.tables", mb, None, set(py) == set(reg),
           construct=f"python builtins == registry identifiers (diff "
                     f"{sorted(set(py) ^ set(reg))})",
           why="a built-in with a kind rule but no implementation, or the reverse")
    run.ob("C09.tables", bfr, bfr.node, pat_classes == reg_classes,
           construct=f"python patterns == registry classes (diff {sorted(pat_classes ^ reg_classes)})",
           why="generated code cannot call a built-in without a pattern")
    missing = sorted(reg_classes - fortran)
    run.ob("C09.tables", bfr, bfr.node, fortran <= reg_classes,
           construct=f"fortran registrations are a subset; not available in Fortran: {missing}",
           why="a Fortran registration for an unknown class")
    run.extra["fortran_missing_builtins"] = missing

    for ident in sorted(set(py) & set(reg)):
        c = reg[ident]
        hit = P.lookup(c, "result_names")
        rn = hit[1] if hit else None
        n_names = _tuple_len(rn)
        grk = P.method(c, "get_result_kinds")
        if grk is None or n_names is None:
            raise AnalysisError(f"{c.fq}: result_names / get_result_kinds not resolved")
        rets = [s for s in func_body_stmts(grk.node) if isinstance(s, ast.Return)]
        lens = {_tuple_len(r.value) for r in rets}
        elems_ok = all(isinstance(r.value, ast.Tuple) and all(
            isinstance(e, ast.Call) and dotted(e.func) in KINDS for e in r.value.elts)
            for r in rets)
        fn = mb.functions.get(py[ident])
        prets = [s for s in func_body_stmts(fn.node) if isinstance(s, ast.Return)]
        if not prets:
            n_py = {0}
        else:
            n_py = {(_tuple_len(r.value) or 1) if r.value is not None else 0 for r in prets}
        ok = lens == {n_names} and n_py == {n_names} and elems_ok and bool(rets)
        run.ob("C09.arity", grk, grk.node, ok,
               construct=f"{ident}: {n_names} result name(s), kind tuples of length "
                         f"{sorted(x if x is not None else -1 for x in lens)}, Python "
                         f"returns {sorted(n_py)} value(s)",
               why="the kinds declared for a built-in must describe, one by one, the "
                   "values its implementation returns")


def _unify_real(run, P):
    from .c14 import kind_domain, fmt
    f = P.func(f"{DATA}.unify")
    dom = kind_domain(P)
    vals = dom.values()
    interp = absint.Interp(f.node, dom)

    def realflag(v):
        fields = dom.classes.get(v[0]) if v != absint.NONE else None
        if fields == ["is_real_valued"]:
            return v[1]
        return None

    for a, b in itertools.product(vals, vals):
        try:
            r = interp.call(a, b)
        except absint.Fail:
            continue
        rr = realflag(r)
        if rr is None:
            continue
        ops = [x for x in (realflag(a), realflag(b)) if x is not None]
        ok = (rr is False) or all(ops)
        run.ob("C09.unify_real", f, f.node, ok,
               construct=f"unify({fmt(a)}, {fmt(b)}) = {fmt(r)}",
               why="a value is never complex where the kind claims real: combining "
                   "with a complex operand must give a complex kind")


TUPLE_FACTS = {
    "la.svd": ("same", "real", "same"), "np.linalg.svd": ("same", "real", "same"),
}
SAME_METHODS = {"reshape", "copy", "astype", "transpose", "flatten", "ravel", "dot", "conj"}


def _real(run, P):
    mb = P.module("dagrt.builtins_python")
    table = mb.assigns.get("builtins")
    py = {string_value(k): dotted(v) for k, v in zip(table.keys, table.values)}
    base = P.cls("dagrt.function_registry.Function")
    for c in P.subclasses(base, modules={"dagrt.function_registry"}):
        hit = c.attrs.get("identifier")
        ident = string_value(hit) if hit is not None else None
        if not ident or ident not in py or c.name.startswith("_"):
            continue
        grk = P.method(c, "get_result_kinds")
        rets = [s_ for s_ in func_body_stmts(grk.node) if isinstance(s_, ast.Return)
                and isinstance(s_.value, ast.Tuple)]
        if not rets:
            continue
        n_pos = len(rets[0].value.elts)
        fn = mb.functions[py[ident]]
        env = _realness_env(fn)
        prets = [s_ for s_ in func_body_stmts(fn.node) if isinstance(s_, ast.Return)
                 and s_.value is not None]
        for i in range(n_pos):
            declared = {ast.unparse(r.value.elts[i]) for r in rets if len(r.value.elts) == n_pos}
            want = None
            if declared and all(d in ("Scalar(is_real_valued=True)", "Array(is_real_valued=True)",
                                      "Scalar(True)", "Array(True)") for d in declared):
                want = "real"
            elif declared == {"Boolean()"}:
                want = "flag"
            _scalar_results(run, P, c, grk, fn, rets, prets, i, n_pos, ident)
            if want is None:
                _arg_dependent(run, P, c, grk, fn, rets, prets, i, n_pos, ident)
                continue
            for r in prets:
                v = r.value
                if n_pos > 1:
                    if not (isinstance(v, ast.Tuple) and len(v.elts) == n_pos):
                        continue
                    v = v.elts[i]
                got = _realness(v, fn, env)
                if got == "unknown":
                    raise AnalysisError(
                        f"{fn.fq}: result kind of {norm(v)} not derivable from the "
                        f"numpy facts table (unrecognised idiom)")
                ok = got == want
                run.ob("C09.real", fn, r, ok,
                       construct=f"{ident} result {i}: declared {sorted(declared)[0]} for every "
                                 f"argument; {norm(v)} is '{got}'",
                       why="the declared kind says real / flag whatever the argument, but "
                           "this expression is complex (or an array of flags) for a "
                           "complex (array) argument")


def _const(run, P):
    f = P.func(f"{DATA}.KindInferenceMapper.map_constant")
    e = f.params[1]
    tests = [n for n in ast.walk(f.node) if isinstance(n, ast.If)]
    ok = False
    desc = "no test"
    if tests:
        t = tests[0].test
        desc = norm(t, 80)
        if isinstance(t, ast.Call) and dotted(t.func) == "isinstance" and len(t.args) == 2 \
                and dotted(t.args[0]) == e:
            types = t.args[1].elts if isinstance(t.args[1], ast.Tuple) else [t.args[1]]
            names = {(dotted(x) or "").replace("numpy.", "np.") for x in types}
            ok = "complex" in names and "np.complexfloating" in names \
                and all(n_ in ("complex", "np.complexfloating", "np.complex64", "np.complex128")
                        for n_ in names)
            # the complex branch returns the complex kind
            ok = ok and any(isinstance(r, ast.Return) and "is_real_valued=False" in ast.unparse(r)
                            for s_ in tests[0].body for r in ast.walk(s_))
    run.ob("C09.const", f, tests[0] if tests else f.node, ok,
           construct=f"map_constant: complex iff {desc}",
           why="a test on the value (numpy.iscomplex) calls (0.5+0j) real although "
               "arithmetic with it stays complex; a test on the built-in type alone "
               "misses np.complex64, which does not derive from complex")


# numpy facts about the *rank* of a result for arguments of any rank:
#   scalar - always a scalar;  same - the rank of its (first) argument;  other - anything else
RANK_FACTS = {
    "np.vdot": "scalar", "np.linalg.norm": "scalar", "la.norm": "scalar", "np.size": "scalar",
    "len": "scalar", "np.sum": "scalar", "np.max": "scalar", "np.min": "scalar",
    "np.isscalar": "scalar", "float": "scalar", "int": "scalar", "bool": "scalar",
    "abs": "same", "np.abs": "same", "np.absolute": "same", "np.conj": "same", "np.isnan": "same",
    "np.sqrt": "same", "np.real": "same",
    "np.inner": "other", "np.dot": "other", "np.matmul": "other", "np.outer": "other",
    "np.tensordot": "other", "np.einsum": "other",
}


def _rank(e, fn, scalar_names=()):
    """'scalar' | 'any' (rank of an argument) | 'other' | 'unknown'"""
    if isinstance(e, ast.Constant):
        return "scalar"
    if isinstance(e, ast.Name):
        if e.id in scalar_names:
            return "scalar"
        return "any" if e.id in fn.params else "unknown"
    if isinstance(e, ast.Call):
        if isinstance(e.func, ast.Attribute) and e.func.attr in ("any", "all", "sum", "max", "min") \
                and not e.args and _np_name(e.func, fn) not in RANK_FACTS:
            return "scalar" if _rank(e.func.value, fn, scalar_names) in ("any", "scalar") else "unknown"
        fact = RANK_FACTS.get(_np_name(e.func, fn))
        if fact == "scalar":
            return "scalar"
        if fact == "same":
            return _rank(e.args[0], fn, scalar_names) if e.args else "unknown"
        if fact == "other":
            return "other"
        return "unknown"
    if isinstance(e, (ast.BinOp,)):
        a, b = _rank(e.left, fn, scalar_names), _rank(e.right, fn, scalar_names)
        if "unknown" in (a, b) or "other" in (a, b):
            return "other" if "other" in (a, b) else "unknown"
        return "any" if "any" in (a, b) else "scalar"
    if isinstance(e, ast.UnaryOp):
        return _rank(e.operand, fn, scalar_names)
    return "unknown"


def _scalar_results(run, P, c, grk, fn, rets, prets, i, n_pos, ident):
    """A result declared Scalar / Boolean for array or user-type arguments is a
    scalar whatever the rank of the run-time representation."""
    declared = {ast.unparse(r.value.elts[i]).split("(")[0] for r in rets if len(r.value.elts) == n_pos}
    if not declared or not declared <= {"Scalar", "Boolean"}:
        return
    from ..engine.cfg import CFG
    g = CFG(fn.node)
    for pr in prets:
        v = pr.value
        if n_pos > 1:
            if not (isinstance(v, ast.Tuple) and len(v.elts) == n_pos):
                continue
            v = v.elts[i]
        # names known to be scalars on this path: returns under 'if np.isscalar(x):'
        scalar_names = set()
        for n in ast.walk(fn.node):
            if isinstance(n, ast.If) and isinstance(n.test, ast.Call) \
                    and _np_name(n.test.func, fn) == "np.isscalar" and n.test.args \
                    and any(x is pr for s_ in n.body for x in ast.walk(s_)):
                scalar_names.add(dotted(n.test.args[0]))
        got = _rank(v, fn, scalar_names)
        if got == "unknown":
            raise AnalysisError(f"{fn.fq}: rank of {norm(v)} not derivable from the numpy facts table")
        run.ob("C09.real", fn, pr, got == "scalar",
               construct=f"{ident} result {i}: declared {sorted(declared)[0]}; {norm(v)} is "
                         f"{'a scalar for arguments of any rank' if got == 'scalar' else 'not a scalar for arguments of rank 2 or more'}",
               why="user-type values may be represented by arrays of any rank: a contraction "
                   "of the last axis only (np.inner, np.dot) returns a matrix where the "
                   "kind says scalar")


def _same_tree(run, P):
    F = P.func(f"{DATA}.SymbolKindFinder.__call__")
    sites = [x for x in ast.walk(F.node) if isinstance(x, ast.Call) and dotted(x.func) in ("flatten",
             "pymbolic.flatten") and x.args and isinstance(x.args[0], ast.Attribute)
             and x.args[0].attr in ("expression", "rhs")]
    A = P.func("dagrt.language.Assign.__init__")
    stored = None
    for x in ast.walk(A.node):
        if isinstance(x, ast.keyword) and x.arg == "rhs":
            stored = x.value
    flat_at_construction = isinstance(stored, ast.Call) and dotted(stored.func) in ("flatten",
                                                                                    "pymbolic.flatten")
    if sites and not flat_at_construction and isinstance(stored, ast.Name) and any(
            isinstance(x, ast.Call) and dotted(x.func) in ("flatten", "pymbolic.flatten")
            for x in ast.walk(A.node)):
        # the constructor flattens on some of its paths (skipping the walk for a value it
        # knows to be flat already, say): which paths is not decided by this clause
        raise AnalysisError("Assign.__init__ flattens the right-hand side on some paths only; "
                            "not decided")
    if not sites and not flat_at_construction:
        run.ob("C09.same_tree", F, F.node, True,
               construct="neither inference nor Assign.__init__ flattens", why="same tree")
        return
    run.ob("C09.same_tree", A, stored if stored is not None else A.node,
           flat_at_construction or not sites,
           construct=f"inference flattens the right-hand side ({len(sites)} site(s)); Assign stores "
                     f"rhs={norm(stored, 30) if stored is not None else '?'}",
           why="flatten folds 0*x and 0/x to the integer 0: inferred from the flattened tree the "
               "variable is a real scalar, evaluated from the tree as written it is an array of "
               "zeros")


def resolve_rule(run, P, rule):
    """dagrt.utils.resolve_args - the helper through which every built-in's
    kind function, and the call emitters, bind their arguments."""
    from ..engine.cfg import CFG, forward, own_fragments, walk_fragment
    from .util import path_conditions
    f = P.func("dagrt.utils.resolve_args")
    names_p, defaults_p, given_p = f.params[0], f.params[1], f.params[2]
    aliases = {given_p}
    for s_ in ast.walk(f.node):
        if isinstance(s_, ast.Assign) and isinstance(s_.value, ast.Call) \
                and dotted(s_.value.func) in (f"{given_p}.copy", "dict") \
                and (dotted(s_.value.func) != "dict" or (s_.value.args and dotted(s_.value.args[0]) == given_p)):
            aliases |= {t.id for t in s_.targets if isinstance(t, ast.Name)}
    rets = [r for r in ast.walk(f.node) if isinstance(r, ast.Return) and r.value is not None]
    if not rets:
        raise AnalysisError("resolve_args: no return")

    def over_names(it):
        if isinstance(it, ast.Call) and dotted(it.func) == "enumerate" and len(it.args) == 1 \
                and not it.keywords:
            it = it.args[0]
        return dotted(it) == names_p

    for r in rets:
        v = r.value
        if isinstance(v, ast.Call) and dotted(v.func) in ("tuple", "list") and len(v.args) == 1:
            v = v.args[0]
        ok, how = False, norm(r.value, 50)
        if isinstance(v, (ast.GeneratorExp, ast.ListComp)):
            ok = len(v.generators) == 1 and over_names(v.generators[0].iter) and not v.generators[0].ifs
            how = f"one entry per element of {names_p}"
        elif isinstance(v, ast.Name):
            apps = [x for x in ast.walk(f.node) if isinstance(x, ast.Call) and isinstance(x.func, ast.Attribute)
                    and dotted(x.func.value) == v.id and x.func.attr in ("append", "insert", "extend")]
            loops = [lp for lp in ast.walk(f.node) if isinstance(lp, ast.For) and over_names(lp.iter)]
            inside = [x for x in apps if any(any(x is y for y in ast.walk(b)) for lp in loops[:1]
                                             for b in lp.body)]
            ok = bool(apps) and len(inside) == len(apps) and all(x.func.attr == "append" for x in apps) \
                and len(loops) >= 1
            how = f"{v.id}, appended to in the loop over {names_p} only"
            if ok:
                # exactly one append per iteration on every path that goes on
                lp = loops[0]
                g = CFG(f.node)
                head = g.node_of(lp)

                def n_apps(n):
                    return sum(1 for fr in own_fragments(n) for x in walk_fragment(fr)
                               if any(x is a for a in apps)) if n.kind == "stmt" else 0

                def transfer(n, st):
                    k = n_apps(n)
                    return frozenset(min(c + k, 2) for c in st)

                def edge(n, lab, st):
                    if n is head and lab == "T":
                        return frozenset({0})
                    if lab in ("exc", "raise", "reraise"):
                        return None
                    return st

                ins = forward(g, frozenset({0}), transfer, edge, meet=lambda a, b: a | b, top=None)
                back = set()
                for a, lab in g.pred[head]:
                    if ins.get(a) is not None and any(
                            a.ast is y or (a.kind == "test" and a.label is y)
                            for b in lp.body for y in ast.walk(b)):
                        back |= transfer(a, ins[a])
                ok = back == {1}
                how += f"; values added per iteration on the paths that go on: {sorted(back)}"
        run.ob(rule, f, r, ok,
               construct=f"resolve_args returns the values in the order of {names_p} ({how})",
               why="callers unpack the result by position (a_kind, b_kind = ...): values in "
                   "the caller's keyword order, or one too many / too few, give every "
                   "argument after that point another argument's kind")
    # sources and priority
    srcs = {"positional": None, "keyword": None, "default": None}
    for lp in [x for x in ast.walk(f.node) if isinstance(x, ast.For) and over_names(x.iter)]:
        t = lp.target
        if isinstance(t, ast.Tuple) and len(t.elts) == 2:
            idx, nm = t.elts[0].id, t.elts[1].id
        elif isinstance(t, ast.Name):
            idx, nm = None, t.id
        else:
            continue
        for x in ast.walk(lp):
            if not isinstance(x, (ast.Subscript, ast.Call)):
                continue
            if isinstance(x, ast.Subscript) and isinstance(x.ctx, ast.Load):
                cont, key = dotted(x.value), dotted(x.slice)
            elif isinstance(x, ast.Call) and isinstance(x.func, ast.Attribute) \
                    and x.func.attr in ("pop", "get") and x.args:
                cont, key = dotted(x.func.value), dotted(x.args[0])
            else:
                continue
            stmt = _stmt_of(f.node, x)
            conds = path_conditions(f.node, stmt) if stmt is not None else set()
            if cont in aliases and key == idx and idx is not None:
                srcs["positional"] = (x, conds, idx, nm)
            elif cont in aliases and key == nm:
                srcs["keyword"] = (x, conds, idx, nm)
            elif cont == defaults_p and key == nm:
                srcs["default"] = (x, conds, idx, nm)
    for label, hit in srcs.items():
        if hit is None:
            run.ob(rule, f, f.node, False,
                   construct=f"the {label} value of an argument is looked up in the loop over {names_p}",
                   why="an argument given that way is not bound")
            continue
        x, conds, idx, nm = hit
        cd = {t: v for t, v in conds}
        in_pos = next((v for t, v in conds if any(t == f"{idx} in {a}" for a in aliases)), None)
        in_kw = next((v for t, v in conds if any(t == f"{nm} in {a}" for a in aliases)), None)
        if label == "positional":
            ok = in_pos is True
        elif label == "keyword":
            ok = in_pos is False and in_kw is True
        else:
            ok = in_pos is False and in_kw is False
        run.ob(rule, f, x, ok,
               construct=f"{label} value {norm(x, 40)} is used when: given by position "
                         f"{in_pos}, given by keyword {in_kw}",
               why="Python binds a positional argument first, then a keyword, then the "
                   "default: another priority gives the kind function other arguments "
                   "than the call the interpreter makes")
    # unknown keywords
    left = [r_ for r_ in ast.walk(f.node) if isinstance(r_, ast.Raise)
            and any(t_ in aliases and v_ for t_, v_ in path_conditions(f.node, r_))]
    run.ob(rule, f, left[0] if left else f.node, bool(left),
           construct="arguments left over after binding raise TypeError",
           why="the interpreter's Python call rejects an unknown keyword; inference that "
               "ignores it infers kinds for a call that cannot be made")


def _stmt_of(fn, node):
    best = None
    for s_ in ast.walk(fn):
        if isinstance(s_, ast.stmt) and not isinstance(s_, (ast.FunctionDef, ast.For, ast.While, ast.If,
                                                             ast.With, ast.Try)) \
                and any(node is y for y in ast.walk(s_)):
            best = s_
    return best


def _arg_dependent(run, P, c, grk, fn, rets, prets, i, n_pos, ident):
    """A result whose declared realness depends on the argument kinds: for every
    argument whose being complex makes the Python result complex (numpy facts),
    and every kind of that argument that can hold complex data - a complex
    array, a user type - which the function accepts, the declared kind is not
    real.  The kind function is interpreted over kind terms (casetable)."""
    from ..engine import casetable as se
    arg_names = c.attrs.get("arg_names")
    if isinstance(arg_names, (ast.Tuple, ast.List)):
        names = [string_value(e) for e in arg_names.elts]
    elif isinstance(arg_names, ast.Constant) and isinstance(arg_names.value, str):
        names = list(arg_names.value)
    else:
        return
    # is result i's realness a constant?  then the fixed-kind clauses decide it
    dynamic = False
    for r in rets:
        if len(r.value.elts) != n_pos:
            continue
        el = r.value.elts[i]
        if isinstance(el, ast.Call) and dotted(el.func) in ("Array", "Scalar"):
            x = el.args[0] if el.args else next((k.value for k in el.keywords
                                                 if k.arg == "is_real_valued"), None)
            if x is not None and not isinstance(x, ast.Constant):
                dynamic = True
    if not dynamic:
        return
    actual = set()
    for pname in fn.params:
        env = _realness_env(fn, {q: ("complex?" if q == pname else "real") for q in fn.params})
        for pr in prets:
            v = pr.value
            if n_pos > 1:
                if not (isinstance(v, ast.Tuple) and len(v.elts) == n_pos):
                    continue
                v = v.elts[i]
            got = _realness(v, fn, env)
            if got == "unknown":
                raise AnalysisError(f"{fn.fq}: realness of {norm(v)} not derivable from the "
                                    f"numpy facts table")
            if got == "complex?":
                actual.add(pname)

    def kind(cls, real=None):
        f_ = {"@classes": ("tuple", (("name", cls), ("name", "SymbolKind"))), "@strict": ("const", True)}
        if real is not None:
            f_["is_real_valued"] = ("const", real)
        else:
            f_["identifier"] = ("obj", "user_type")
        return se.rec(cls, **f_)

    REAL = [kind("Array", True), kind("Scalar", True)]
    CPLX = [("a complex array", kind("Array", False)), ("a user type", kind("UserType"))]
    bad = []
    n_cases = 0
    for p_ in sorted(actual):
        if p_ not in names:
            continue
        for label, k_ in CPLX:
            # the other arguments: whatever real kind the function accepts
            import itertools
            others = [q for q in names if q != p_]
            decided = False
            for combo in itertools.product(REAL, repeat=len(others)):
                assign = dict(zip(others, combo))
                assign[p_] = k_
                kinds = ("tuple", tuple(assign[q] for q in names))
                ev = se.Evaluator(P, stubs={"self.resolve_args": lambda a_, kw_, kinds=kinds: kinds})
                outs = ev.outcomes(grk, {grk.params[0]: ("obj", "self"), grk.params[1]: ("obj", "arg_kinds"),
                                         grk.params[2]: ("const", True)})
                if any(k0 == "raise" for (k0, _), _f in outs):
                    continue            # this combination is rejected by the function's own check
                for (k0, val), _f in outs:
                    decided = True
                    n_cases += 1
                    el = val[1][i] if val[0] == "tuple" and i < len(val[1]) else None
                    if el is None or el[0] != "call":
                        raise AnalysisError(f"{grk.fq}: result {i} is not a kind constructor in the "
                                            f"case {p_}={label}")
                    cname = el[1][1].split(".")[-1] if el[1][0] == "name" else "?"
                    if cname == "UserType":
                        continue
                    rv = dict(el[3]).get("is_real_valued", el[2][0] if el[2] else None)
                    if rv is None:
                        raise AnalysisError(f"{grk.fq}: realness of result {i} not found")
                    try:
                        real = ev.truth(rv, {})
                    except Exception:
                        raise AnalysisError(f"{grk.fq}: realness of result {i} not decided for "
                                            f"{p_}={label}")
                    if real:
                        bad.append(f"{p_} = {label}")
                break
            if not decided:
                continue
    run.ob("C09.real", grk, grk.node, not bad,
           construct=f"{ident} result {i}: not declared real when an argument that makes the "
                     f"implementation's result complex ({sorted(actual)}) has a kind that can hold "
                     f"complex data ({n_cases} accepted case(s))"
                     + (f"; declared real for {sorted(set(bad))}" if bad else ""),
           why="a complex value in a variable whose kind claims real")


def _realness_env(fn: Func, init=None):
    """Realness of local names, in statement order."""
    env = dict(init or {})
    for s_ in func_body_stmts(fn.node):
        if isinstance(s_, ast.Assign) and len(s_.targets) == 1:
            t = s_.targets[0]
            if isinstance(t, ast.Name):
                env[t.id] = _realness(s_.value, fn, env)
            elif isinstance(t, ast.Tuple) and isinstance(s_.value, ast.Call):
                facts = TUPLE_FACTS.get(_np_name(s_.value.func, fn))
                if facts and len(facts) == len(t.elts):
                    args = [_realness(a, fn, env) for a in s_.value.args]
                    for el, fact in zip(t.elts, facts):
                        if isinstance(el, ast.Name):
                            if fact == "same":
                                env[el.id] = "complex?" if "complex?" in args else (
                                    "unknown" if "unknown" in args else "real")
                            else:
                                env[el.id] = fact
    return env


def _np_name(e, fn: Func):
    d = dotted(e)
    if d is None:
        return None
    # normalise numpy aliases
    parts = d.split(".")
    if parts[0] in ("numpy",):
        parts[0] = "np"
    return ".".join(parts)


def _realness(e, fn: Func, env=None):
    """'real' | 'flag' | 'complex?' (may be complex) | 'array?' | 'unknown'"""
    env = env or {}
    if isinstance(e, ast.Constant):
        if isinstance(e.value, bool):
            return "flag"
        if isinstance(e.value, (int, float)):
            return "real"
        return "unknown"
    if isinstance(e, ast.Name):
        if e.id in env:
            return env[e.id]
        if e.id in fn.params:
            return "complex?"
        return "unknown"
    if isinstance(e, ast.Call):
        if isinstance(e.func, ast.Attribute) and e.func.attr in SAME_METHODS \
                and _np_name(e.func, fn) not in NUMPY_FACTS:
            recv = _realness(e.func.value, fn, env)
            if recv != "unknown":
                others = [_realness(a, fn, env) for a in e.args
                          if not isinstance(a, ast.Constant)] if e.func.attr == "dot" else []
                if "complex?" in others:
                    return "complex?"
                return recv
        # method .any() / .all() on a flag array
        if isinstance(e.func, ast.Attribute) and e.func.attr in ("any", "all") and not e.args:
            inner = _realness(e.func.value, fn, env)
            if inner in ("flagarray", "flag"):
                return "flag"
            return "unknown"
        name = _np_name(e.func, fn)
        if name in ("np.empty", "np.zeros", "np.ones"):
            dt = [k.value for k in e.keywords if k.arg == "dtype"]
            if not dt or "complex" not in ast.unparse(dt[0]) and "object" not in ast.unparse(dt[0]):
                return "real"
            return "complex?"
        fact = NUMPY_FACTS.get(name)
        if fact is None:
            return "unknown"
        if fact in ("real", "flag", "flagarray"):
            return fact
        if fact == "same":
            parts = [_realness(a, fn, env) for a in e.args]
            if "unknown" in parts:
                return "unknown"
            if "complex?" in parts:
                return "complex?"
            return "real"
    if isinstance(e, ast.BinOp):
        a, b = _realness(e.left, fn, env), _realness(e.right, fn, env)
        if "unknown" in (a, b):
            return "unknown"
        if "complex?" in (a, b):
            return "complex?"
        return "real"
    if isinstance(e, ast.UnaryOp):
        return _realness(e.operand, fn, env)
    return "unknown"


def check(run, P):
    run.do(_check_main, run, P)
    from . import generic
    generic.lints(run, P, "C09")
