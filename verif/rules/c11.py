"""C11 - a failing user function leaves the stepper consistent and resumable."""

from __future__ import annotations

import ast
import textwrap

from ..engine.cfg import CFG, own_fragments, walk_fragment
from ..engine.match import dotted, norm, func_body_stmts, string_value, kwarg
from ..engine.srcmodel import AnalysisError, Func

EXPLANATION = (
    "Post-dominance including exceptional exits on a statement CFG, an "
    "except-clause audit on the call paths from user-function call sites, "
    "and store-mutation ordering in the interpreter's call statement. "
    "Decides: from the execution of the phase body every exit of "
    "run_single_step - normal, exceptional, generator close - passes the "
    "loop that discards per-step names (it sits in a finally covering the "
    "body); that loop walks a snapshot of all keys of the variable store and "
    "keeps exactly the names is_state_variable classifies persistent; the "
    "plan is reset at the start of every step, reset() clears every "
    "container (shared with C04.reset); on the paths from a user call "
    "(exec_AssignFunctionCall, EvaluationMapper.map_generic_call, generated "
    "phase functions) to the caller of run(), every except clause in "
    "exec_numpy.py, ExecutionController, EvaluationMapper and the driver "
    "templates names only dagrt's own control exceptions; the interpreter's "
    "call statement touches the variable store only after the user function "
    "has returned; generated temporaries are function locals (prefix not on "
    "self, locals cleared at every function start, phase functions take only "
    "self); both back ends advance next_phase before the body (shared with "
    "C01.step). Does not decide: the value clause for variables that do not "
    "depend on the failed call (follows from C02 and evaluate-then-store).")

ASSUMPTIONS = [
    "user functions are called only through exec_AssignFunctionCall / EvaluationMapper.map_generic_call in the interpreter and through emitted call expressions in generated code",
    "Python evaluates the right-hand side of an assignment before storing",
]

INTERP = "dagrt.exec_numpy.NumpyInterpreter"
CONTROL = {"FailStepException", "TransitionEvent", "self.FailStepException",
           "self.TransitionEvent"}


def _check_main(run, P):
    run.rule("C11.finally", "every exit of run_single_step after the phase body "
             "started passes the per-step cleanup", minimum=1)
    run.rule("C11.filter", "the cleanup walks a snapshot of all store keys and keeps "
             "exactly the persistent name classes", minimum=2)
    run.rule("C11.reset", "plan reset at the start of every step; reset() clears every "
             "container (shared with C04.reset)", minimum=5)
    run.rule("C11.transparent", "except clauses on the user-call paths name only "
             "dagrt's control exceptions", minimum=4)
    run.rule("C11.atomic", "the interpreter's call statement mutates the variable "
             "store only after the user function returned", minimum=1)
    run.rule("C11.locals", "generated temporaries are function locals", minimum=3)
    run.rule("C11.phase", "next_phase is advanced before the phase body in both back "
             "ends (shared with C01.step)", minimum=2)
    _finally_filter(run, P)
    from . import c04, c01
    from .c01 import _alias
    _alias(run, "C04.reset", "C11.reset",
           lambda: c04._reset(run, P, P.cls(c04.EC)))
    # what counts as persistent (shared with C13.storage)
    from . import c13
    for r_ in ("C13.storage", "C01.persist"):
        run.rule_docs.setdefault(r_, "")
        run.minimum.setdefault(r_, 0)
    n0_ = len(run.obs)
    c13._storage(run, P)
    for o_ in run.obs[n0_:]:
        if o_.rule in ("C13.storage", "C01.persist"):
            o_.rule = "C11.filter"
    for r_ in ("C13.storage", "C01.persist"):
        run.rule_docs.pop(r_, None)
        run.minimum.pop(r_, None)
    _transparent(run, P)
    _atomic(run, P)
    _locals(run, P)
    _alias(run, "C01.step", "C11.phase", lambda: c01._step(run, P))


def _finally_filter(run, P):
    f = P.func(f"{INTERP}.run_single_step")
    g = CFG(f.node)
    body = [n for n in g.nodes if n.kind == "stmt" and any(
        isinstance(x, ast.Call) and dotted(x.func) == "self.exec_controller"
        for x in walk_fragment(n.ast))]
    if not body:
        raise AnalysisError("run_single_step: phase body execution not found")
    tries = [n for n in ast.walk(f.node) if isinstance(n, ast.Try) and n.finalbody]
    if not tries:
        run.ob("C11.finally", f, f.node, False,
               construct="no finally clause around the phase body",
               why="an exception from a user function leaves per-step temporaries "
                   "visible in the variable store")
        return
    fin = tries[0].finalbody
    # the cleanup loop(s): for loops in the finally body that delete store keys
    loops = []
    for b in fin:
        for n in ast.walk(b):
            if isinstance(n, ast.For) and any(
                    isinstance(x, ast.Delete) or (isinstance(x, ast.Call) and
                                                  dotted(x.func) == "self.context.pop")
                    for x in ast.walk(n)):
                loops.append(n)
    if not loops:
        raise AnalysisError("run_single_step: cleanup loop not found in finally")
    outer = loops[0]
    ln = g.node_of(outer)
    bad = g.always_followed(body, [ln], exceptional=True)
    run.ob("C11.finally", f, outer, not bad,
           construct="cleanup loop post-dominates the phase body on normal, "
                     "exceptional and generator-close exits",
           why="no per-step temporary may be visible after a user function raised",
           detail=f"{len(bad)} escaping path(s)" if bad else "")
    # snapshot of all keys
    it = outer.iter
    inner = it
    if isinstance(it, ast.Call) and dotted(it.func) in ("list", "tuple", "sorted") and it.args:
        inner = it.args[0]
        snap = True
    else:
        snap = False
    all_keys = norm(inner) in ("self.context.keys()", "self.context")
    run.ob("C11.filter", f, outer, snap and all_keys,
           construct=f"for {norm(outer.target)} in {norm(it)}",
           why="the cleanup must see every key that is in the store (loop "
               "identifiers of an interrupted array loop are written by no "
               "statement), and must not iterate the dict it is deleting from")
    # filter
    ok = False
    for n in ast.walk(outer):
        if isinstance(n, ast.If):
            t = n.test
            if isinstance(t, ast.UnaryOp) and isinstance(t.op, ast.Not) \
                    and isinstance(t.operand, ast.Call) and len(t.operand.args) == 1 \
                    and dotted(t.operand.args[0]) == dotted(outer.target):
                tgt = P.resolve_name(f, dotted(t.operand.func) or "")
                if isinstance(tgt, Func) and tgt.fq == "dagrt.utils.is_state_variable":
                    ok = any(isinstance(x, ast.Delete) or (
                        isinstance(x, ast.Call) and dotted(x.func) == "self.context.pop")
                        for s in n.body for x in ast.walk(s))
    run.ob("C11.filter", f, outer, ok,
           construct="delete the key unless is_state_variable(key)",
           why="exactly the persistent classes survive a step")


def _handlers_in(tree):
    return [n for n in ast.walk(tree) if isinstance(n, ast.ExceptHandler)]


def _transparent(run, P):
    sites = []
    mi = P.module("dagrt.exec_numpy")
    for h in _handlers_in(mi.tree):
        sites.append((mi, h, "exec_numpy.py"))
    ec = P.cls("dagrt.language.ExecutionController")
    for h in _handlers_in(ec.node):
        sites.append((ec.module, h, "ExecutionController"))
    em = P.cls("dagrt.expression.EvaluationMapper")
    for h in _handlers_in(em.node):
        sites.append((em.module, h, "EvaluationMapper"))
    # templates
    from .c01 import template_of
    for meth in ("_emit_run", "_emit_run_single_step"):
        fg, node, tree = template_of(P, meth)
        for h in _handlers_in(tree):
            sites.append(((fg.module.relpath, fg.qualname + " template", node.lineno), h,
                          f"generated {meth[6:]}()"))
    # emitted phase functions must not emit try/except
    G = P.cls("dagrt.codegen.python.CodeGenerator")
    emitted_try = []
    for name, m in G.methods.items():
        if name.startswith("emit_"):
            for x in ast.walk(m.node):
                if isinstance(x, ast.Constant) and isinstance(x.value, str) \
                        and (x.value.lstrip().startswith("except") or x.value.lstrip().startswith("try:")):
                    emitted_try.append((m, x))
    run.ob("C11.transparent", G, emitted_try[0][1] if emitted_try else None, not emitted_try,
           construct="phase-function emitters emit no try/except",
           why="a handler in a generated phase function could swallow a user exception")
    if len(sites) < 3:
        raise AnalysisError(f"only {len(sites)} except clauses found on the user-call paths")
    for where, h, label in sites:
        if h.type is None:
            types = ["<bare>"]
        elif isinstance(h.type, ast.Tuple):
            types = [dotted(e) or norm(e) for e in h.type.elts]
        else:
            types = [dotted(h.type) or norm(h.type)]
        ok = all(t in CONTROL for t in types)
        run.ob("C11.transparent", where, h, ok,
               construct=f"{label}: except {', '.join(types)}",
               why="a handler wider than dagrt's own control exceptions can swallow or "
                   "replace the exception raised by a user function")


def _atomic(run, P):
    f = P.func(f"{INTERP}.exec_AssignFunctionCall")
    g = CFG(f.node)
    # the user call: call of a local bound from self.eval_mapper.functions[...] / self.functions[...]
    fn_names = set()
    for s in func_body_stmts(f.node):
        if isinstance(s, ast.Assign) and isinstance(s.value, ast.Subscript) \
                and (dotted(s.value.value) or "").endswith("functions"):
            for t in s.targets:
                if isinstance(t, ast.Name):
                    fn_names.add(t.id)
    calls = [n for n in g.nodes if n.kind == "stmt" and any(
        isinstance(x, ast.Call) and isinstance(x.func, ast.Name) and x.func.id in fn_names
        for x in walk_fragment(n.ast))]
    if not calls:
        raise AnalysisError("exec_AssignFunctionCall: user function call not found")

    def mutates(n):
        for fr in own_fragments(n):
            for x in walk_fragment(fr):
                if isinstance(x, ast.Subscript) and dotted(x.value) == "self.context" \
                        and isinstance(x.ctx, (ast.Store, ast.Del)):
                    return True
                if isinstance(x, ast.Call) and (dotted(x.func) or "") in (
                        "self.context.pop", "self.context.clear", "self.context.update",
                        "self.context.popitem", "self.context.setdefault",
                        "self.context.__setitem__", "self.context.__delitem__"):
                    return True
        return False

    muts = [n for n in g.nodes if mutates(n)]
    bad = g.always_preceded(muts, calls)
    run.ob("C11.atomic", f, bad[0].ast if bad else calls[0].ast, not bad,
           construct="every mutation of self.context is dominated by the user call"
                     + (f" (not: {norm(bad[0].ast, 60)})" if bad else ""),
           why="a store touched before the call is left modified when the call "
               "raises: a persistent assignee vanishes or changes although every "
               "write of it depends on the failed call")


def _locals(run, P):
    from .c13 import _forced_prefixes
    py = _forced_prefixes(P, "dagrt.codegen.python.PythonNameManager")
    lp = py.get("self._local_map", (None,))[0]
    run.ob("C11.locals", P.func("dagrt.codegen.python.PythonNameManager.__init__"), None,
           lp is not None and not lp.startswith("self.") and "." not in lp,
           construct=f"local-variable prefix {lp!r} is a plain local name",
           why="temporaries stored on self would survive a failing step")
    f = P.func("dagrt.codegen.python.CodeGenerator.emit_def_begin")
    src = ast.unparse(f.node)
    run.ob("C11.locals", f, f.node, "self._name_manager.clear_locals()" in src,
           construct="clear_locals() at every function start",
           why="local names of one phase must not leak into the next")
    ok = False
    for x in ast.walk(f.node):
        if isinstance(x, ast.Call) and dotted(x.func) == "PythonFunctionEmitter" \
                and len(x.args) >= 2 and isinstance(x.args[1], ast.Tuple):
            ok = [string_value(e) for e in x.args[1].elts] == ["self"]
    run.ob("C11.locals", f, f.node, ok,
           construct="phase functions take ('self',) only",
           why="no state is threaded through arguments")


def check(run, P):
    _check_main(run, P)
    from . import generic
    generic.lints(run, P, "C11")
