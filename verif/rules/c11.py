"""C11 - a failing user function leaves the stepper consistent and resumable."""

from __future__ import annotations

import ast
import textwrap

from ..engine.cfg import CFG, own_fragments, walk_fragment
from ..engine.match import dotted, norm, func_body_stmts, string_value, kwarg
from ..engine.srcmodel import AnalysisError, Func

EXPLANATION = (
    "Post-dominance including exceptional exits on a statement CFG, an "
    "except-clause audit on the call paths from user-function call sites, "
    "and store-mutation ordering in the interpreter's call statement. "
    "Decides: from the execution of the phase body every exit of "
    "run_single_step - normal, exceptional, generator close - passes the "
    "loop that discards per-step names (it sits in a finally covering the "
    "body); that loop walks a snapshot of all keys of the variable store and "
    "keeps exactly the names is_state_variable classifies persistent; the "
    "plan is reset at the start of every step, reset() clears every "
    "container (shared with C04.reset); on the paths from a user call "
    "(exec_AssignFunctionCall, EvaluationMapper.map_generic_call, generated "
    "phase functions) to the caller of run(), every except clause in "
    "exec_numpy.py, ExecutionController, EvaluationMapper and the driver "
    "templates names only dagrt's own control exceptions; the interpreter's "
    "call statement touches the variable store only after the user function "
    "has returned; generated temporaries are function locals (prefix not on "
    "self, locals cleared at every function start, phase functions take only "
    "self); both back ends advance next_phase before the body (shared with "
    "C01.step). Does not decide: the value clause for variables that do not "
    "depend on the failed call (follows from C02 and evaluate-then-store).")

ASSUMPTIONS = [
    "user functions are called only through exec_AssignFunctionCall / EvaluationMapper.map_generic_call in the interpreter and through emitted call expressions in generated code",
    "Python evaluates the right-hand side of an assignment before storing",
]

INTERP = "dagrt.exec_numpy.NumpyInterpreter"
CONTROL = {"FailStepException", "TransitionEvent", "self.FailStepException",
           "self.TransitionEvent"}


def _check_main(run, P):
    run.rule("C11.finally", "every exit of run_single_step after the phase body "
             "started passes the per-step cleanup", minimum=1)
    run.rule("C11.filter", "the cleanup walks a snapshot of all store keys and keeps "
             "exactly the persistent name classes", minimum=2)
    run.rule("C11.reset", "plan reset at the start of every step; reset() clears every "
             "container (shared with C04.reset)", minimum=5)
    run.rule("C11.transparent", "except clauses on the user-call paths name only "
             "dagrt's control exceptions", minimum=4)
    run.rule("C11.atomic", "the interpreter's call statement mutates the variable "
             "store only after the user function returned", minimum=1)
    run.rule("C11.confined", "interpreter statement handlers and the evaluator keep every "
             "run-time binding in self.context - the store the cleanup walks - and change "
             "no other state of the interpreter", minimum=8)
    run.rule("C11.order", "no handler of either back end touches the store entry of an "
             "assignee before the last evaluation that can call a user function: the "
             "interpreter changes an assignee only in the statement that stores the "
             "evaluated value; the Python emitter writes an assignee's name only in the "
             "line that carries the value", minimum=5)
    run.rule("C11.locals", "generated temporaries are function locals", minimum=3)
    run.rule("C11.phase", "next_phase is advanced before the phase body in both back "
             "ends (shared with C01.step)", minimum=2)
    run.do(_finally_filter, run, P)
    from . import c04, c01
    from .c01 import _alias
    _alias(run, "C04.reset", "C11.reset",
           lambda: c04._reset(run, P, P.cls(c04.EC)))
    # what counts as persistent (shared with C13.storage)
    from . import c13
    for r_ in ("C13.storage", "C01.persist"):
        run.rule_docs.setdefault(r_, "")
        run.minimum.setdefault(r_, 0)
    n0_ = len(run.obs)
    run.do(c13._storage, run, P)
    for o_ in run.obs[n0_:]:
        if o_.rule in ("C13.storage", "C01.persist"):
            o_.rule = "C11.filter"
    for r_ in ("C13.storage", "C01.persist"):
        run.rule_docs.pop(r_, None)
        run.minimum.pop(r_, None)
    run.do(_transparent, run, P)
    run.do(_atomic, run, P)
    run.do(_confined, run, P)
    run.do(_driver_state, run, P)
    run.do(_order, run, P)
    run.do(_locals, run, P)
    _alias(run, "C01.step", "C11.phase", lambda: c01._step(run, P))


def tracked_entries(P, tracked):
    """[(unit, statement, under 'not is_state_variable(<name>)')] for every place of the
    interpreter that enters a name into the set *tracked* (self.<attr>)"""
    from .util import path_conditions
    C = P.cls(INTERP)
    out = []

    def conjuncts(t, pol):
        try:
            e = ast.parse(t, mode="eval").body
        except SyntaxError:
            return [(t, pol)]
        if pol and isinstance(e, ast.BoolOp) and isinstance(e.op, ast.And):
            res = []
            for v in e.values:
                if isinstance(v, ast.UnaryOp) and isinstance(v.op, ast.Not):
                    res.append((norm(v.operand, 2000), False))
                else:
                    res.append((norm(v, 2000), True))
            return res
        return [(t, pol)]
    for name_, m_ in sorted(C.methods.items()):
        for u in [m_] + list(m_.nested.values()):
            for st_ in ast.walk(u.node):
                if isinstance(st_, ast.Expr) and isinstance(st_.value, ast.Call) \
                        and dotted(st_.value.func) == f"{tracked}.add" and st_.value.args:
                    nm = norm(st_.value.args[0])
                    pcs = [c for t, pol in path_conditions(u.node, st_) for c in conjuncts(t, pol)]
                    out.append((u, st_, any(t == f"is_state_variable({nm})" and pol is False
                                            for t, pol in pcs)))
    return out


def tracked_set_of_cleanup(P):
    """self.<attr> if the cleanup of run_single_step walks a set of names kept beside the store"""
    f = P.func(f"{INTERP}.run_single_step")
    for t in ast.walk(f.node):
        if isinstance(t, ast.Try) and t.finalbody:
            for b in t.finalbody:
                for lp in ast.walk(b):
                    if isinstance(lp, ast.For):
                        it = lp.iter
                        if isinstance(it, ast.Call) and dotted(it.func) in ("list", "tuple", "sorted") and it.args:
                            it = it.args[0]
                        d = dotted(it) or ""
                        if d.startswith("self.") and d != "self.context" and d.count(".") == 1 and any(
                                isinstance(x, ast.Delete) or (isinstance(x, ast.Call)
                                                              and dotted(x.func) == "self.context.pop")
                                for x in ast.walk(lp)):
                            return d
    return None


def _finally_filter(run, P):
    f = P.func(f"{INTERP}.run_single_step")
    g = CFG(f.node)
    body = [n for n in g.nodes if n.kind == "stmt" and any(
        isinstance(x, ast.Call) and dotted(x.func) == "self.exec_controller"
        for x in walk_fragment(n.ast))]
    if not body:
        raise AnalysisError("run_single_step: phase body execution not found")
    tries = [n for n in ast.walk(f.node) if isinstance(n, ast.Try) and n.finalbody]
    if not tries:
        run.ob("C11.finally", f, f.node, False,
               construct="no finally clause around the phase body",
               why="an exception from a user function leaves per-step temporaries "
                   "visible in the variable store")
        return
    fin = tries[0].finalbody
    # the cleanup loop(s): for loops in the finally body that delete store keys
    loops = []
    for b in fin:
        for n in ast.walk(b):
            if isinstance(n, ast.For) and any(
                    isinstance(x, ast.Delete) or (isinstance(x, ast.Call) and
                                                  dotted(x.func) == "self.context.pop")
                    for x in ast.walk(n)):
                loops.append(n)
    if not loops:
        raise AnalysisError("run_single_step: cleanup loop not found in finally")
    outer = loops[0]
    ln = g.node_of(outer)
    bad = g.always_followed(body, [ln], exceptional=True)
    run.ob("C11.finally", f, outer, not bad,
           construct="cleanup loop post-dominates the phase body on normal, "
                     "exceptional and generator-close exits",
           why="no per-step temporary may be visible after a user function raised",
           detail=f"{len(bad)} escaping path(s)" if bad else "")
    # snapshot of all keys
    it = outer.iter
    inner = it
    if isinstance(it, ast.Call) and dotted(it.func) in ("list", "tuple", "sorted") and it.args:
        inner = it.args[0]
        snap = True
    else:
        snap = False
    all_keys = norm(inner) in ("self.context.keys()", "self.context")
    tracked = dotted(inner) if (dotted(inner) or "").startswith("self.") and dotted(inner) not in (
        "self.context",) else None
    if not all_keys and tracked:
        # the cleanup walks a set of names kept beside the store: sound exactly when
        # every binding made while a step runs is entered into that set
        C = P.cls(INTERP)
        direct = []
        n_sites = 0
        for name_, m_ in sorted(C.methods.items()):
            if name_ in ("set_up", "__init__"):
                continue
            units = [m_] + list(m_.nested.values())
            for u in units:
                stores_ = [x for x in ast.walk(u.node) if isinstance(x, ast.Subscript)
                           and dotted(x.value) == "self.context" and isinstance(x.ctx, ast.Store)
                           and not isinstance(x.slice, ast.Constant)]
                if not stores_:
                    continue
                adds = {norm(c_.args[0]) for c_ in ast.walk(u.node) if isinstance(c_, ast.Call)
                        and dotted(c_.func) == f"{tracked}.add" and c_.args}
                for x in stores_:
                    n_sites += 1
                    if norm(x.slice) not in adds:
                        direct.append((u, x))
        run.ob("C11.filter", direct[0][0] if direct else f, direct[0][1] if direct else outer,
               bool(n_sites) and not direct,
               construct=f"the cleanup walks {tracked}: every binding made outside set_up ({n_sites} "
                         f"store site(s)) enters its name there"
                         + (f" (not so: {norm(direct[0][1], 40)} in {direct[0][0].qualname})" if direct else ""),
               why="a name that is bound past the bookkeeping (the identifier of an array loop that "
                   "is interrupted by an exception, say) stays visible after the step")
        snap = all_keys = True
    run.ob("C11.filter", f, outer, snap and all_keys,
           construct=f"for {norm(outer.target)} in {norm(it)}",
           why="the cleanup must see every key that is in the store (loop "
               "identifiers of an interrupted array loop are written by no "
               "statement), and must not iterate the dict it is deleting from")
    # filter
    ok = False
    filtered_in_loop = any(isinstance(n_, ast.If) and "is_state_variable(" in norm(n_.test)
                           for n_ in ast.walk(outer))
    if not (norm(inner) in ("self.context.keys()", "self.context")) and tracked and not filtered_in_loop:
        # the set holds per-step names only: the test is made where names enter it
        adds_ = tracked_entries(P, tracked)
        if not adds_:
            raise AnalysisError(f"run_single_step: nothing is entered into {tracked}")
        bad_ = [a for a in adds_ if not a[2]]
        run.ob("C11.filter", bad_[0][0] if bad_ else f, bad_[0][1] if bad_ else outer, not bad_,
               construct=f"only names that are no state variables enter {tracked} "
                         f"({len(adds_)} site(s)); the cleanup deletes what is in it",
               why="exactly the persistent classes survive a step")
        return
    for n in ast.walk(outer):
        if isinstance(n, ast.If):
            t = n.test
            if isinstance(t, ast.UnaryOp) and isinstance(t.op, ast.Not) \
                    and isinstance(t.operand, ast.Call) and len(t.operand.args) == 1 \
                    and dotted(t.operand.args[0]) == dotted(outer.target):
                tgt = P.resolve_name(f, dotted(t.operand.func) or "")
                if isinstance(tgt, Func) and tgt.fq == "dagrt.utils.is_state_variable":
                    ok = any(isinstance(x, ast.Delete) or (
                        isinstance(x, ast.Call) and dotted(x.func) == "self.context.pop")
                        for s in n.body for x in ast.walk(s))
    run.ob("C11.filter", f, outer, ok,
           construct="delete the key unless is_state_variable(key)",
           why="exactly the persistent classes survive a step")


def _handlers_in(tree):
    out = []
    for fn in ast.walk(tree):
        if isinstance(fn, (ast.FunctionDef, ast.AsyncFunctionDef)):
            for t in ast.walk(fn):
                if isinstance(t, ast.Try):
                    t._verif_fns = getattr(t, "_verif_fns", []) + [fn]     # all enclosing functions
    for t in ast.walk(tree):
        if isinstance(t, ast.Try):
            for h in t.handlers:
                h._verif_try = t
                out.append(h)
    return out


_PURE_CALLS = {"len", "sorted", "isinstance", "getattr", "hasattr", "dict", "list", "set", "tuple",
               "frozenset", "str", "repr", "int", "float", "bool", "min", "max", "sum", "enumerate",
               "zip", "range", "iter", "type", "id", "callable", "print", "any", "all", "reversed"}
_PURE_METHODS = {"get", "items", "keys", "values", "append", "extend", "add", "discard", "copy",
                 "startswith", "endswith", "format", "join", "split", "index", "count", "debug",
                 "info", "warning", "popleft", "appendleft"}


def _is_param(try_node, name):
    return any(name in {a.arg for a in fn.args.posonlyargs + fn.args.args + fn.args.kwonlyargs}
               for fn in getattr(try_node, "_verif_fns", []))


def _handler_standing(h):
    """'safe' - nothing a user function raises can arrive in, or be changed by, this handler;
    'reach' - the protected block can run a user function; 'unknown' otherwise."""
    t = getattr(h, "_verif_try", None)
    if t is None:
        return "reach"
    # the handler hands the same exception on, whatever it does before
    body = h.body
    rethrows = bool(body) and isinstance(body[-1], ast.Raise) and body[-1].exc is None \
        and not any(isinstance(x, (ast.Return, ast.Continue, ast.Break, ast.Yield, ast.YieldFrom))
                    for b in body for x in ast.walk(b)) \
        and not any(isinstance(x, ast.Raise) and x.exc is not None for b in body for x in ast.walk(b))
    if rethrows:
        return "safe"
    verdict = "safe"
    for b in t.body:
        for x in ast.walk(b):
            if isinstance(x, (ast.Yield, ast.YieldFrom)):
                return "reach"
            if not isinstance(x, ast.Call):
                continue
            d = dotted(x.func) or ""
            if isinstance(x.func, ast.Name) and x.func.id in _PURE_CALLS:
                continue
            if isinstance(x.func, ast.Attribute) and x.func.attr in _PURE_METHODS \
                    and not d.startswith("self.") or d in ("self.context.get", "self.context.pop"):
                continue
            if isinstance(x.func, ast.Subscript) or d.startswith("self.") or d in (
                    "func", "function", "f") or "functions" in norm(x.func):
                return "reach"
            if isinstance(x.func, (ast.Call,)) or (isinstance(x.func, ast.Name) and not _is_param(t, x.func.id)):
                # looked up at run time (getattr(target, 'exec_' + ...)(...)), or a local
                # holding such a thing: these classes are the paths to the user's functions
                return "reach"
            verdict = "unknown"
    return verdict


def _transparent(run, P):
    sites = []
    mi = P.module("dagrt.exec_numpy")
    for h in _handlers_in(mi.tree):
        sites.append((mi, h, "exec_numpy.py"))
    ec = P.cls("dagrt.language.ExecutionController")
    for h in _handlers_in(ec.node):
        sites.append((ec.module, h, "ExecutionController"))
    em = P.cls("dagrt.expression.EvaluationMapper")
    for h in _handlers_in(em.node):
        sites.append((em.module, h, "EvaluationMapper"))
    # templates
    from .c01 import template_of
    for meth in ("_emit_run", "_emit_run_single_step"):
        fg, node, tree = template_of(P, meth)
        for h in _handlers_in(tree):
            sites.append(((fg.module.relpath, fg.qualname + " template", node.lineno), h,
                          f"generated {meth[6:]}()"))
    # emitted phase functions must not emit try/except
    G = P.cls("dagrt.codegen.python.CodeGenerator")
    emitted_try = []
    for name, m in G.methods.items():
        if name.startswith("emit_"):
            for x in ast.walk(m.node):
                if isinstance(x, ast.Constant) and isinstance(x.value, str) \
                        and (x.value.lstrip().startswith("except") or x.value.lstrip().startswith("try:")):
                    emitted_try.append((m, x))
    run.ob("C11.transparent", G, emitted_try[0][1] if emitted_try else None, not emitted_try,
           construct="phase-function emitters emit no try/except",
           why="a handler in a generated phase function could swallow a user exception")
    if len(sites) < 3:
        raise AnalysisError(f"only {len(sites)} except clauses found on the user-call paths")
    for where, h, label in sites:
        if h.type is None:
            types = ["<bare>"]
        elif isinstance(h.type, ast.Tuple):
            types = [dotted(e) or norm(e) for e in h.type.elts]
        else:
            types = [dotted(h.type) or norm(h.type)]
        ok = all(t in CONTROL for t in types)
        if not ok and not isinstance(where, tuple):
            # classes of the repository's own making (an error class of the evaluator, say) are,
            # like the control exceptions, not what a user function raises - the recorded
            # exclusion "a user function raising dagrt's own exceptions" covers them
            def own_class(t_):
                try:
                    c_ = where.classes.get(t_) or P.resolve_name(where, t_)
                except Exception:
                    c_ = None
                from ..engine.srcmodel import Class as _Class
                return isinstance(c_, _Class) and not c_.module.trusted
            if all(t in CONTROL or own_class(t) for t in types):
                ok = True
                types = types + ["(classes of the repository's own)"]
        if not ok and any(t.startswith("self.") and t not in CONTROL for t in types):
            # the classes caught are an option of the stepper (the caller asked for some
            # exceptions to fail the step): what the default catches is in the constructor
            raise AnalysisError(f"{label}: except {', '.join(types)} - configurable; not decided")
        if not ok:
            standing = _handler_standing(h)
            if standing == "safe":
                ok = True
                types = types + ["(nothing of the user's passes through, or it is handed on unchanged)"]
            elif standing == "unknown":
                raise AnalysisError(f"{label}: except {', '.join(types)} around calls whose callee "
                                    f"is not known here; not decided")
        run.ob("C11.transparent", where, h, ok,
               construct=f"{label}: except {', '.join(types)}",
               why="a handler wider than dagrt's own control exceptions can swallow or "
                   "replace the exception raised by a user function")


def _atomic(run, P):
    f = P.func(f"{INTERP}.exec_AssignFunctionCall")
    g = CFG(f.node)
    # the user call: call of a local bound from self.eval_mapper.functions[...] / self.functions[...]
    fn_names = set()
    for s in func_body_stmts(f.node):
        if isinstance(s, ast.Assign) and isinstance(s.value, ast.Subscript) \
                and (dotted(s.value.value) or "").endswith("functions"):
            for t in s.targets:
                if isinstance(t, ast.Name):
                    fn_names.add(t.id)
    calls = [n for n in g.nodes if n.kind == "stmt" and any(
        isinstance(x, ast.Call) and isinstance(x.func, ast.Name) and x.func.id in fn_names
        for x in walk_fragment(n.ast))]
    if not calls:
        raise AnalysisError("exec_AssignFunctionCall: user function call not found")

    def mutates(n):
        for fr in own_fragments(n):
            for x in walk_fragment(fr):
                if isinstance(x, ast.Subscript) and dotted(x.value) == "self.context" \
                        and isinstance(x.ctx, (ast.Store, ast.Del)):
                    return True
                if isinstance(x, ast.Call) and (dotted(x.func) or "") in (
                        "self.context.pop", "self.context.clear", "self.context.update",
                        "self.context.popitem", "self.context.setdefault",
                        "self.context.__setitem__", "self.context.__delitem__"):
                    return True
        return False

    muts = [n for n in g.nodes if mutates(n)]
    bad = g.always_preceded(muts, calls)
    # the results are a finished sequence before the first of them is stored
    res_names = set()
    for n_ in calls:
        a_ = n_.ast
        if isinstance(a_, ast.Assign):
            res_names |= {t.id for t in a_.targets if isinstance(t, ast.Name)}
    sized = [n_ for n_ in g.nodes if n_.ast is not None and any(
        isinstance(x, ast.Call) and isinstance(x.func, ast.Name) and x.func.id in ("len", "tuple", "list")
        and x.args and (
            (isinstance(x.args[0], ast.Name) and x.args[0].id in res_names)
            # list(zip(assignees, results, ...)): the pairs are a finished list
            or (isinstance(x.args[0], ast.Call) and dotted(x.args[0].func) == "zip"
                and any(isinstance(a2, ast.Name) and a2.id in res_names for a2 in x.args[0].args)))
        for fr in own_fragments(n_) for x in walk_fragment(fr))]
    loop_stores = [n_ for n_ in muts if any(isinstance(lp, ast.For) and any(n_.ast is y for y in ast.walk(lp))
                                            for lp in ast.walk(f.node))]
    late = g.always_preceded(loop_stores, sized) if loop_stores else []
    run.ob("C11.atomic", f, late[0].ast if late else f.node, bool(sized) and not late,
           construct="the results are counted (len / tuple / list) before the first one is stored",
           why="stored while they are being produced - a user function that hands back a "
               "generator and raises after its first value - the first assignee is changed and "
               "the second is not, although both depend on the failed call; the tuple assignment "
               "of generated code unpacks everything first")
    run.ob("C11.atomic", f, bad[0].ast if bad else calls[0].ast, not bad,
           construct="every mutation of self.context is dominated by the user call"
                     + (f" (not: {norm(bad[0].ast, 60)})" if bad else ""),
           why="a store touched before the call is left modified when the call "
               "raises: a persistent assignee vanishes or changes although every "
               "write of it depends on the failed call")


MUTATORS = {"pop", "popitem", "clear", "update", "setdefault", "append", "extend", "insert",
            "remove", "add", "discard", "appendleft", "extendleft", "__setitem__", "__delitem__"}


def ephemeral_attrs(P):
    """Attributes of the interpreter that hold nothing of an earlier step:
    emptied by the cleanup of run_single_step, assigned afresh before the phase
    body on every step, or never read by the interpreter at all (a record kept for
    the caller).  None of them can make a resumed stepper differ from a fresh one."""
    C = P.cls(INTERP)
    f = C.methods.get("run_single_step")
    out = set()
    if f is None:
        return out

    def self_attr(n):
        return n.attr if isinstance(n, ast.Attribute) and isinstance(n.value, ast.Name) \
            and n.value.id == "self" else None

    empty = lambda v: isinstance(v, ast.Constant) or (
        isinstance(v, (ast.Dict, ast.List, ast.Set, ast.Tuple)) and not getattr(v, "keys", None)
        and not getattr(v, "elts", None)) or (
        isinstance(v, ast.Call) and dotted(v.func) in ("dict", "set", "list") and not v.args and not v.keywords)
    for t in ast.walk(f.node):
        if isinstance(t, ast.Try):
            for b in t.finalbody:
                if isinstance(b, ast.Expr) and isinstance(b.value, ast.Call) \
                        and isinstance(b.value.func, ast.Attribute) and b.value.func.attr == "clear" \
                        and self_attr(b.value.func.value):
                    out.add(self_attr(b.value.func.value))
                if isinstance(b, ast.Assign) and empty(b.value):
                    out |= {self_attr(x) for x in b.targets if self_attr(x)}
    # assigned on every step before the phase body runs
    def before_body(stmts):
        for st in stmts:
            if any(isinstance(x, ast.Call) and dotted(x.func) == "self.exec_controller"
                   for x in ast.walk(st)):
                if isinstance(st, ast.Try):
                    before_body(st.body)
                return
            if isinstance(st, ast.Assign):
                out.update(self_attr(x) for x in st.targets if self_attr(x)
                           and not any(self_attr(y) == self_attr(x) for y in ast.walk(st.value)))
    before_body(func_body_stmts(f.node))
    out.discard(None)
    # never read: every mention is a store, a keyed store or a discarded mutation
    mentions = {}
    for name_, m_ in C.methods.items():
        for u in [m_] + list(m_.nested.values()):
            parents = {}
            for n_ in ast.walk(u.node):
                for c_ in ast.iter_child_nodes(n_):
                    parents[id(c_)] = n_
            for n_ in ast.walk(u.node):
                a = self_attr(n_)
                if a is None:
                    continue
                par = parents.get(id(n_))
                if isinstance(n_.ctx, ast.Store):
                    w = True
                elif isinstance(par, ast.Subscript) and par.value is n_ and isinstance(par.ctx, (ast.Store, ast.Del)):
                    w = True
                elif isinstance(par, ast.Attribute) and par.attr in MUTATORS and par.attr not in ("pop", "setdefault") \
                        and isinstance(parents.get(id(par)), ast.Call) \
                        and isinstance(parents.get(id(parents.get(id(par)))), ast.Expr):
                    w = True
                else:
                    w = False
                mentions.setdefault(a, []).append(w)
    out |= {a for a, ws in mentions.items() if all(ws) and a not in ("context", "next_phase")}
    out -= {"context", "next_phase", "exec_controller", "functions", "code", "eval_mapper"}
    return out


def _confined(run, P):
    """Receivers of stores / mutating calls in the statement handlers: anything
    reachable from self must be self.context (or a value held in it)."""
    from ..engine import dataflow as df
    C = P.cls(INTERP)
    eph = ephemeral_attrs(P)
    EM = P.cls("dagrt.expression.EvaluationMapper")
    targets = [(f, ("SELF.context",) + tuple(f"SELF.{a}" for a in sorted(eph)))
               for n, f in sorted(C.methods.items())
               if n.startswith("exec_") or n == "evaluate_condition"]
    targets += [(f, ()) for n, f in sorted(EM.methods.items()) if n.startswith("map_")]
    if len(targets) < 8:
        raise AnalysisError("statement handlers / evaluator methods not found")
    for f, allowed in targets:
        bad = []

        def check_recv(node, recv, env):
            for p_ in df.flat(df.prov(recv, env)):
                if p_.startswith("SELF") and not any(p_.startswith(a) for a in allowed):
                    bad.append((node, p_.replace("SELF", "self")))

        def on_stmt(st, env, f_):
            tg = []
            if isinstance(st, ast.Assign):
                tg = list(st.targets)
            elif isinstance(st, (ast.AugAssign, ast.AnnAssign)):
                tg = [st.target]
            elif isinstance(st, ast.Delete):
                tg = list(st.targets)
            flat_t = []
            for t in tg:
                flat_t.extend(t.elts if isinstance(t, (ast.Tuple, ast.List)) else [t])
            for t in flat_t:
                if isinstance(t, (ast.Subscript, ast.Attribute)):
                    check_recv(st, t.value, env)

        def on_call(call, env, f_):
            if isinstance(call.func, ast.Attribute) and call.func.attr in MUTATORS:
                check_recv(call, call.func.value, env)

        roots = {"self": "SELF"}
        df.Scanner(P, f, roots, on_call, on_stmt=on_stmt).run()
        seen = sorted({w for _, w in bad})
        run.ob("C11.confined", f, bad[0][0] if bad else f.node, not bad,
               construct=f"{f.cls.name}.{f.name}: state changed outside the variable store: "
                         f"{seen if seen else 'none'}",
               why="the cleanup at the end of a step (and a fresh stepper started from the "
                   "store) knows only self.context: a binding kept anywhere else survives a "
                   "failed step and makes stepping on differ from a fresh stepper")


def _driver_state(run, P):
    """Between steps a stepper is its variable store (resp. its state attributes) and
    the phase it is in: the drivers change nothing else, and never the store."""
    import textwrap
    C = P.cls(INTERP)
    eph = ephemeral_attrs(P)
    for name in ("run", "run_single_step"):
        f = C.methods[name]
        stores = []
        attrs = []
        fin = {id(y) for t in ast.walk(f.node) if isinstance(t, ast.Try) for b in t.finalbody
               for y in ast.walk(b)}
        for x in ast.walk(f.node):
            if isinstance(x, ast.Subscript) and dotted(x.value) == "self.context" \
                    and isinstance(x.ctx, (ast.Store, ast.Del)) and id(x) not in fin:
                stores.append(x)
            if isinstance(x, ast.Call) and isinstance(x.func, ast.Attribute) \
                    and dotted(x.func.value) == "self.context" and x.func.attr in MUTATORS and id(x) not in fin:
                stores.append(x)
            if isinstance(x, ast.Attribute) and isinstance(x.value, ast.Name) and x.value.id == "self" \
                    and isinstance(x.ctx, ast.Store) and x.attr != "next_phase":
                attrs.append(x)
        # an attribute that the finally clause of the same driver puts back to a constant
        # is bookkeeping of the step in progress, not state that survives it
        reset = {t_.attr for t in ast.walk(f.node) if isinstance(t, ast.Try) for b in t.finalbody
                 for s_ in ast.walk(b) if isinstance(s_, ast.Assign) and isinstance(s_.value, ast.Constant)
                 for t_ in s_.targets if isinstance(t_, ast.Attribute) and dotted(t_.value) == "self"}
        attrs = [x for x in attrs if x.attr not in reset and x.attr not in eph]
        # an attribute that is given a newly made object (a fresh controller per step) holds
        # nothing of earlier steps
        fresh = {t_.attr for s_ in ast.walk(f.node) if isinstance(s_, ast.Assign)
                 and isinstance(s_.value, ast.Call) and (dotted(s_.value.func) or "")[:1].isupper()
                 for t_ in s_.targets if isinstance(t_, ast.Attribute) and dotted(t_.value) == "self"}
        fresh |= {t_.attr for s_ in ast.walk(f.node) if isinstance(s_, ast.Assign)
                  and isinstance(s_.value, ast.Name) and any(
                      isinstance(a_, ast.Assign) and any(isinstance(n_, ast.Name) and n_.id == s_.value.id
                                                         for n_ in a_.targets)
                      and isinstance(a_.value, ast.Call) and (dotted(a_.value.func) or "")[:1].isupper()
                      for a_ in ast.walk(f.node))
                  for t_ in s_.targets if isinstance(t_, ast.Attribute) and dotted(t_.value) == "self"}
        attrs = [x for x in attrs if x.attr not in fresh]
        if stores and not attrs:
            # a variable changed around the step and put back by a finally clause of the driver
            # (directly or in a helper it calls): whether what is put back is exact is not read
            def key_of(x):
                sl = x.slice if isinstance(x, ast.Subscript) else (x.args[0] if x.args else None)
                return sl.value if isinstance(sl, ast.Constant) and isinstance(sl.value, str) else None
            fin_nodes = [y for t in ast.walk(f.node) if isinstance(t, ast.Try) for b in t.finalbody
                         for y in ast.walk(b)]
            helpers = [C.methods[dotted(y.func)[5:]] for y in fin_nodes if isinstance(y, ast.Call)
                       and (dotted(y.func) or "").startswith("self.") and dotted(y.func)[5:] in C.methods]
            put_back = set()
            for y in fin_nodes + [z for h in helpers for z in ast.walk(h.node)]:
                if isinstance(y, ast.Subscript) and dotted(y.value) == "self.context" \
                        and isinstance(y.ctx, ast.Store) and key_of(y):
                    put_back.add(key_of(y))
            if all(key_of(x) and key_of(x) in put_back for x in stores):
                raise AnalysisError(f"NumpyInterpreter.{name} changes {sorted(put_back)} around the step and "
                                    "puts it back in a finally clause: exactness of the restoration is not read")
        run.ob("C11.confined", f, (stores + attrs)[0] if stores + attrs else f.node, not stores and not attrs,
               construct=f"NumpyInterpreter.{name} writes no variable (outside the cleanup) and no "
                         f"attribute but next_phase"
                         + (f" (found {norm((stores + attrs)[0], 40)})" if stores + attrs else ""),
               why="what the driver changes around a step is not undone when a user function "
                   "raises inside it (a step size clamped to reach t_end stays clamped), and it "
                   "is state the written program never assigns")
    from .c01 import template_of
    for tname in ("_emit_run", "_emit_run_single_step"):
        fg, node, tree = template_of(P, tname)
        attrs = [x for x in ast.walk(tree) if isinstance(x, ast.Attribute) and isinstance(x.value, ast.Name)
                 and x.value.id == "self" and isinstance(x.ctx, ast.Store) and x.attr != "next_phase"]
        if attrs:
            # a counter that every exceptional exit puts back to a constant (a handler for
            # BaseException that re-raises, or a finally clause): exactness is not read
            reset = set()
            for t in ast.walk(tree):
                if not isinstance(t, ast.Try):
                    continue
                blocks = [t.finalbody] + [h.body for h in t.handlers
                                          if (h.type is None or dotted(h.type) == "BaseException")
                                          and h.body and isinstance(h.body[-1], ast.Raise)
                                          and h.body[-1].exc is None]
                for b in blocks:
                    for s_ in b:
                        if isinstance(s_, ast.Assign) and isinstance(s_.value, ast.Constant):
                            reset |= {t_.attr for t_ in s_.targets if isinstance(t_, ast.Attribute)
                                      and dotted(t_.value) == "self"}
            if all(x.attr in reset for x in attrs):
                raise AnalysisError(f"generated {tname[6:]}() keeps {sorted(reset)} across steps and resets it "
                                    "on every exceptional exit: exactness of the reset is not read")
        run.ob("C11.confined", fg, node, not attrs,
               construct=f"generated {tname[6:]}() assigns no attribute but next_phase"
                         + (f" (found self.{attrs[0].attr})" if attrs else ""),
               why="a counter or flag kept on the stepper across steps survives a step that ends "
                   "in a user exception: the resumed stepper then behaves unlike a fresh one "
                   "started in the same state and phase")


def _order(run, P):
    """Evaluate, then store."""
    from ..engine import dataflow as df
    C = P.cls(INTERP)
    n_sites = 0
    for name, f in sorted(C.methods.items()):
        if not name.startswith("exec_"):
            continue
        units = [f] + list(_all_nested(f))
        for u in units:
            g = CFG(u.node)
            fn_names = set()
            for s_ in ast.walk(u.node):
                if isinstance(s_, ast.Assign) and isinstance(s_.value, ast.Subscript) \
                        and (dotted(s_.value.value) or "").endswith("functions"):
                    fn_names |= {t.id for t in s_.targets if isinstance(t, ast.Name)}

            def evaluates(n):
                for fr in own_fragments(n):
                    for x in walk_fragment(fr):
                        if isinstance(x, ast.Call):
                            d = dotted(x.func) or ""
                            if d.startswith("self.eval_mapper") or d == "self.evaluate_condition" \
                                    or (isinstance(x.func, ast.Name) and x.func.id in fn_names):
                                return True
                return False

            def loop_key(key):
                # a loop identifier: a name unpacked from an element of a `loops` sequence
                if not isinstance(key, ast.Name):
                    return False
                for s_ in ast.walk(f.node):
                    tgt = None
                    if isinstance(s_, ast.Assign) and len(s_.targets) == 1:
                        tgt, src = s_.targets[0], s_.value
                    elif isinstance(s_, ast.For):
                        tgt, src = s_.target, s_.iter
                    if tgt is None or not isinstance(tgt, (ast.Tuple, ast.List)) or not tgt.elts:
                        continue
                    first = tgt.elts[0]
                    if isinstance(first, ast.Name) and first.id == key.id \
                            and "loops" in ast.unparse(src):
                        return True
                return False

            def store_mutation(n):
                out = []
                for fr in own_fragments(n):
                    for x in walk_fragment(fr):
                        if isinstance(x, ast.Subscript) and dotted(x.value) == "self.context" \
                                and isinstance(x.ctx, (ast.Store, ast.Del)) and not loop_key(x.slice):
                            out.append(x)
                        if isinstance(x, ast.Call) and isinstance(x.func, ast.Attribute) \
                                and dotted(x.func.value) == "self.context" and x.func.attr in MUTATORS \
                                and not (x.args and loop_key(x.args[0])):
                            out.append(x)
                return out

            evals = [n for n in g.nodes if evaluates(n)]
            for n in g.nodes:
                ms = store_mutation(n)
                if not ms:
                    continue
                n_sites += 1
                # loop heads enclosing the mutation: the next iteration is another element
                heads = [h for h in g.nodes if h.kind in ("for", "test")
                         and isinstance(h.label if h.kind == "test" else h.ast, (ast.For, ast.While))
                         and any(x is (n.ast if n.kind == "stmt" else n.label)
                                 for b in (h.label if h.kind == "test" else h.ast).body
                                 for x in ast.walk(b))]
                after = g.reachable([n], avoid=heads, follow_exc=False)
                later = [e for e in evals if e in after and e is not n]
                run.ob("C11.order", u, ms[0], not later,
                       construct=f"{name}: {norm(ms[0], 50)} is not followed by an evaluation"
                                 + (f" (followed by {norm(later[0].ast, 50)})" if later else ""),
                       why="if that evaluation calls a user function that raises, the "
                           "assignee has already lost its value from before the step although "
                           "no assignment of the program completed")
    # generated Python: an assignee's managed name is written only by the line that
    # carries the printed value
    G = P.cls("dagrt.codegen.python.CodeGenerator")
    for name, f in sorted(G.methods.items()):
        if not name.startswith("emit_inst_") or len(f.params) < 2:
            continue
        inst = f.params[1]
        found = []

        def on_call(call, env, f_):
            d = dotted(call.func) or ""
            if d in ("self._emit", "emitter", "self._emitter") and call.args:
                names_assignee = False
                has_value = False
                for x in ast.walk(call.args[0]):
                    if isinstance(x, ast.Subscript) and (dotted(x.value) or "").endswith("_name_manager"):
                        pv = df.flat(df.prov(x.slice, env))
                        if any(p_.startswith("assignee") for p_ in pv):
                            names_assignee = True
                    if isinstance(x, ast.Name):
                        # a local built from the managed assignee names
                        pv = env.get(x.id)
                        if pv is not None and any(p_.startswith("@assignee") for p_ in df.flat(pv)):
                            names_assignee = True
                    if isinstance(x, ast.Call) and (dotted(x.func) or "") in (
                            "self._expr", "self._expr_mapper", "self._expr_mapper.rec",
                            "self._expr_mapper.map_generic_call"):
                        has_value = True
                if names_assignee:
                    found.append((call, has_value))

        def on_stmt(st, env, f_):
            # remember locals built from managed assignee names
            if isinstance(st, ast.Assign) and len(st.targets) == 1 and isinstance(st.targets[0], ast.Name):
                for x in ast.walk(st.value):
                    if isinstance(x, ast.Subscript) and (dotted(x.value) or "").endswith("_name_manager"):
                        sub = env.child()
                        # comprehension variables: look the slice up in the value itself
                        pv = set(df.flat(df.prov(x.slice, env)))
                        for c in ast.walk(st.value):
                            if isinstance(c, ast.comprehension):
                                df.bind_target(c.target, df.iter_elem(df.prov(c.iter, env)), sub)
                        pv |= set(df.flat(df.prov(x.slice, sub)))
                        if any(p_.startswith("assignee") for p_ in pv):
                            env.vars[st.targets[0].id] = frozenset({"@assignee"})

        df.Scanner(P, f, {inst: ""}, on_call, on_stmt=on_stmt).run()
        seen = set()
        for call, has_value in found:
            key = norm(call, 70)
            if key in seen:
                continue
            seen.add(key)
            n_sites += 1
            run.ob("C11.order", f, call, has_value,
                   construct=f"{name}: a line that writes an assignee carries the printed value "
                             f"({norm(call, 60)})",
                   why="an assignee cleared or pre-set before the line that can raise is left "
                       "changed when the user function fails")
    if n_sites < 5:
        raise AnalysisError(f"C11.order: only {n_sites} store / emission sites found")


def _all_nested(f):
    for g in f.nested.values():
        yield g
        yield from _all_nested(g)


def _locals(run, P):
    from .c13 import _forced_prefixes
    py = _forced_prefixes(P, "dagrt.codegen.python.PythonNameManager")
    lp = py.get("self._local_map", (None,))[0]
    run.ob("C11.locals", P.func("dagrt.codegen.python.PythonNameManager.__init__"), None,
           lp is not None and not lp.startswith("self.") and "." not in lp,
           construct=f"local-variable prefix {lp!r} is a plain local name",
           why="temporaries stored on self would survive a failing step")
    f = P.func("dagrt.codegen.python.CodeGenerator.emit_def_begin")
    src = ast.unparse(f.node)
    run.ob("C11.locals", f, f.node, "self._name_manager.clear_locals()" in src,
           construct="clear_locals() at every function start",
           why="local names of one phase must not leak into the next")
    ok = False
    for x in ast.walk(f.node):
        if isinstance(x, ast.Call) and dotted(x.func) == "PythonFunctionEmitter" \
                and len(x.args) >= 2 and isinstance(x.args[1], ast.Tuple):
            ok = [string_value(e) for e in x.args[1].elts] == ["self"]
    run.ob("C11.locals", f, f.node, ok,
           construct="phase functions take ('self',) only",
           why="no state is threaded through arguments")


def check(run, P):
    run.do(_check_main, run, P)
    from . import generic
    generic.lints(run, P, "C11")
