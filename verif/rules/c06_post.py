"""C06: handlers of the normalising and the null-dropping pass, decided by a
path-sensitive dataflow over sets of worlds (engine/worlds.py).

Facts of a world: for each child slot of the handled node whether the child
is a NullASTNode as it comes in and whether it is one after `self.rec`; for
each local what it holds (an arm - which one, already simplified or not - a
condition with its polarity, a non-child slot, a list of children, a boolean).
At every `return` of a handler, in every world that reaches it:

* complete - every arm that is not null after simplification is in the
  returned tree, under the guard it had (then: the condition, else: its
  negation, loop body: the same loop header), exactly once, and nothing else;
* simplified - the arms in the returned tree went through `self.rec`;
* null-free (last pass only) - no NullASTNode is in a child slot of a node
  that is returned, and the top-level result is not a NullASTNode:
  `lower_node` and `get_statements_in_ast` raise on one.
"""

from __future__ import annotations

import ast

from ..engine.cfg import CFG
from ..engine.match import dotted, norm
from ..engine.srcmodel import AnalysisError
from ..engine.worlds import World, explore

MOD = "dagrt.codegen.dag_ast"
OTHER = ("other",)
UNREAD = ("other", "unread")     # computed from a condition by a function that is not read
NULL = ("null",)


def child_slots(P):
    """Slots that hold AST nodes: what lower_node descends into."""
    f = P.func("dagrt.codegen.codegen_base.StructuredCodeGenerator.lower_node")
    single, listy = set(), set()
    for x in ast.walk(f.node):
        if isinstance(x, ast.Call) and dotted(x.func) == "self.lower_node" and x.args \
                and isinstance(x.args[0], ast.Attribute) and isinstance(x.args[0].value, ast.Name):
            single.add(x.args[0].attr)
        if isinstance(x, ast.For) and any(isinstance(y, ast.Call) and dotted(y.func) == "self.lower_node"
                                          for y in ast.walk(x)):
            for y in ast.walk(x.iter):
                if isinstance(y, ast.Attribute) and isinstance(y.value, ast.Name) \
                        and y.value.id == f.params[1]:
                    listy.add(y.attr)
    if not single or not listy:
        raise AnalysisError("lower_node: child slots not recognised")
    return single, listy


class Handler:
    def __init__(self, P, f, cls_handled, single, listy, slots_of, top=False):
        self.P, self.f = P, f
        self.param = f.params[1]
        self.cls = cls_handled
        self.single, self.listy = single, listy
        self.slots_of = slots_of          # node class -> [slot names]
        self.top = top
        self.has_cond = (not top) and "condition" in slots_of.get(cls_handled, [])
        self.depth = 0                    # inlining depth
        self._w = None
        self.bad = []                     # (node, what) found while interpreting
        self.loop_of = {}                 # break / return statement -> enclosing for loop
        def walk(node, brk, ret):
            for c in ast.iter_child_nodes(node):
                if isinstance(c, (ast.FunctionDef, ast.AsyncFunctionDef, ast.Lambda)):
                    continue
                if isinstance(c, ast.Break) and brk is not None:
                    self.loop_of[c] = brk
                if isinstance(c, ast.Return) and ret is not None:
                    self.loop_of[c] = ret
                if isinstance(c, ast.For):
                    walk(c, c, c)
                elif isinstance(c, ast.While):
                    walk(c, None, ret)
                else:
                    walk(c, brk, ret)
        walk(f.node, None, None)

    # {{{ values

    def arm(self, origin, recd, null):
        return ("arm", origin, recd, null)

    def init_worlds(self):
        ws = [World({"@owed": None})]
        if self.top:
            out = []
            for w in ws:
                for n in (True, False):
                    out.append(w.set("@raw:top", n).set(self.param, self.arm("top", False, n)))
            return out
        for s in self.slots_of.get(self.cls, []):
            if s in self.single:
                ws = [w.set(f"@raw:{s}", n) for w in ws for n in (True, False)]
            elif s.lstrip("*") in self.listy:
                ws = [w.set("@rawcount", c) for w in ws for c in (0, 1, 2)]
        if self.has_cond:
            conds = [("cond", "c", d) for d in range(4)] + [("bool", True), ("bool", False)]
            # constants behind one or two negations (a hand-built guard, a negated constant
            # left by a substitution)
            conds += [("cond", b_, d) for b_ in ("T", "F") for d in (1, 2)]
            ws = [w.set("@cond", c) for w in ws for c in conds]
        return ws

    # }}}

    # {{{ expressions

    def ev_seq(self, es, w):
        """[(values tuple, world)]"""
        outs = [((), w)]
        for e in es:
            nxt = []
            for vals, w1 in outs:
                for v, w2 in self.ev(e, w1):
                    nxt.append((vals + (v,), w2))
            outs = nxt
        return outs

    def rec(self, v, w):
        if v[0] == "arm":
            _, o, recd, null = v
            if recd:
                return [(v, w)]
            key = f"@rec:{o}"
            if key in w:
                return [(self.arm(o, True, w[key]), w)]
            outs = []
            for n in ((True,) if null else (True, False)):
                w2 = w.set(key, n)
                if o in self.listy:
                    w2 = w2.set("@owed", None if n else "rec")
                if not n and self.has_cond and o in self.single:
                    # what the simplified child is: some other node, a conditional on the
                    # same flag, a conditional on another flag
                    for shape in ("leaf", "same", "other"):
                        outs.append((self.arm(o, True, n), w2.set(f"@shape:{o}", shape)))
                else:
                    outs.append((self.arm(o, True, n), w2))
            return outs
        if v[0] in ("cond", "slot", "null", "bool"):
            return [(v, w)]               # pymbolic identity / map_NullASTNode
        if v[0] == "list":
            return [(OTHER, w)]
        return [(OTHER, w)]

    def ev(self, e, w):
        if isinstance(e, ast.Name):
            if e.id in ("True", "False"):
                return [(("bool", e.id == "True"), w)]
            return [(w.get(e.id, OTHER), w)]
        if isinstance(e, ast.Constant):
            if isinstance(e.value, bool):
                return [(("bool", e.value), w)]
            if isinstance(e.value, int):
                return [(("int", e.value), w)]
            return [(("const", repr(e.value)), w)]
        if isinstance(e, ast.Attribute) and isinstance(e.value, ast.Name) and e.value.id == self.param \
                and not self.top and w.get(self.param) is None:
            a = e.attr
            if a in self.single:
                if f"@raw:{a}" not in w:
                    return [(OTHER, w)]
                return [(self.arm(a, False, w[f"@raw:{a}"]), w)]
            if a in self.listy:
                return [(("list", "raw", w.get("@rawcount"), True), w)]
            if a == "condition":
                return [(w.get("@cond", ("cond", "c", 0)), w)]
            return [(("slot", a), w)]
        if isinstance(e, ast.Attribute):
            outs = []
            for v, w2 in self.ev(e.value, w):
                if v[0] == "cond" and e.attr == "child" and v[2] > 0:
                    if v[2] == 1 and v[1] in ("T", "F"):
                        outs.append((("bool", v[1] == "T"), w2))
                    else:
                        outs.append((("cond", v[1], v[2] - 1), w2))
                elif v[0] == "arm" and v[2] and not v[3] and w2.get(f"@shape:{v[1]}") in ("same", "other"):
                    shape = w2.get(f"@shape:{v[1]}")
                    if e.attr == "condition":
                        outs.append((("cond", "c" if shape == "same" else "o", 0), w2))
                    elif e.attr in self.single:
                        outs.append((self.arm(f"{v[1]}.{e.attr}", True, False), w2))
                    else:
                        outs.append((OTHER, w2))
                else:
                    outs.append((OTHER, w2))
            return outs
        if isinstance(e, ast.UnaryOp) and isinstance(e.op, ast.Not):
            return [(self._not(v), w2) for v, w2 in self.ev(e.operand, w)]
        if isinstance(e, ast.BoolOp):
            outs = []
            for vals, w2 in self.ev_seq(e.values, w):
                ts = [self.truth(v) for v in vals]
                if isinstance(e.op, ast.And):
                    r = False if any(t is False for t in ts) else (True if all(t is True for t in ts) else None)
                else:
                    r = True if any(t is True for t in ts) else (False if all(t is False for t in ts) else None)
                outs.append((("bool", r), w2))
            return outs
        if isinstance(e, ast.Compare) and len(e.ops) == 1:
            outs = []
            for (l, r), w2 in self.ev_seq([e.left, e.comparators[0]], w):
                outs.append((("bool", self._compare(l, e.ops[0], r)), w2))
            return outs
        if isinstance(e, (ast.Tuple, ast.List)) and not any(isinstance(x, ast.Starred) for x in e.elts):
            if isinstance(e, ast.List) and not e.elts:
                return [(("list", "clean", 0, True), w)]
            return [(("tuple", vals), w2) for vals, w2 in self.ev_seq(e.elts, w)]
        if isinstance(e, ast.Subscript) and isinstance(e.slice, ast.Constant):
            outs = []
            for v, w2 in self.ev(e.value, w):
                if v[0] == "list":
                    _, es, cnt, complete = v
                    k = e.slice.value
                    if isinstance(k, int) and cnt is not None and 0 <= k < cnt:
                        outs.append((("elem", es, cnt, complete, k), w2))
                    else:
                        outs.append((("elem", es, cnt, complete, None), w2))
                elif v[0] == "tuple" and isinstance(e.slice.value, int) and e.slice.value < len(v[1]):
                    outs.append((v[1][e.slice.value], w2))
                else:
                    outs.append((OTHER, w2))
            return outs
        if isinstance(e, (ast.ListComp, ast.GeneratorExp)):
            return self._comp(e, w)
        if isinstance(e, ast.IfExp):
            outs = []
            for t, w2 in self.test(e.test, w):
                outs.extend(self.ev(e.body if t else e.orelse, w2))
            return outs
        if isinstance(e, ast.Call):
            return self._call(e, w)
        return [(OTHER, w)]

    def _not(self, v):
        t = self.truth(v)
        return ("bool", None if t is None else (not t))

    def truth(self, v):
        if v[0] == "bool":
            return v[1]
        if v[0] == "list":
            return None if v[2] is None else v[2] > 0
        if v[0] == "int":
            return None if v[1] is None else v[1] != 0
        if v[0] in ("node", "null", "arm"):
            return True                   # AST nodes are objects: always true
        return None

    def _compare(self, l, op, r):
        if l[0] in ("cond", "bool") and r[0] in ("cond", "bool") \
                and isinstance(op, (ast.Is, ast.IsNot, ast.Eq, ast.NotEq)) \
                and not (l[0] == "bool" and l[1] is None) and not (r[0] == "bool" and r[1] is None):
            same = l == r
            return same if isinstance(op, (ast.Is, ast.Eq)) else not same
        if l[0] == "int" and r[0] == "int" and l[1] is not None and r[1] is not None:
            def f(a, b):
                return {ast.Eq: a == b, ast.NotEq: a != b, ast.Lt: a < b, ast.LtE: a <= b,
                        ast.Gt: a > b, ast.GtE: a >= b}.get(type(op))
            # a count of 2 stands for "two or more"
            lv = [l[1]] if not (l[0] == "int" and len(l) > 2 and l[1] == 2) else [2, 1000]
            rv = [r[1]] if not (r[0] == "int" and len(r) > 2 and r[1] == 2) else [2, 1000]
            res = {f(a, b) for a in lv for b in rv}
            if len(res) == 1:
                return res.pop()
            return None
        return None

    def _isinstance(self, v, clsexpr):
        names = [dotted(x) for x in clsexpr.elts] if isinstance(clsexpr, ast.Tuple) else [dotted(clsexpr)]
        names = [n.split(".")[-1] if n else n for n in names]
        if v[0] == "cond":
            if names == ["LogicalNot"]:
                return v[2] > 0
            return None
        if v[0] == "bool" and names == ["LogicalNot"]:
            return False
        if v[0] == "arm":
            is_null = v[3]
            shape = self._w.get(f"@shape:{v[1]}") if self._w is not None else None
            if not is_null and v[2] and shape is not None:
                if shape in ("same", "other"):
                    return "IfThenElse" in names or "ASTNode" in names
                if names == ["IfThenElse"]:
                    return False
        elif v[0] == "null":
            is_null = True
        elif v[0] == "node":
            if any(n == v[1] for n in names):
                return True
            if all(n in self.slots_of or n == "NullASTNode" for n in names):
                return False
            return None
        else:
            return None
        if is_null:
            return "NullASTNode" in names or "ASTNode" in names
        # a non-null node of unknown class
        if names == ["NullASTNode"]:
            return False
        return None

    def _call(self, e, w):
        fn = dotted(e.func)
        short = fn.split(".")[-1] if fn else None
        if fn == "self.rec" and len(e.args) == 1 and not e.keywords:
            outs = []
            for v, w2 in self.ev(e.args[0], w):
                outs.extend(self.rec(v, w2))
            return outs
        if fn == "isinstance" and len(e.args) == 2:
            outs = []
            for v, w2 in self.ev(e.args[0], w):
                self._w = w2
                outs.append((("bool", self._isinstance(v, e.args[1])), w2))
            self._w = None
            return outs
        if fn == "len" and len(e.args) == 1:
            outs = []
            for v, w2 in self.ev(e.args[0], w):
                if v[0] == "list":
                    outs.append((("int", v[2], "count"), w2))
                else:
                    outs.append((("int", None), w2))
            return outs
        if fn in ("list", "tuple", "deque", "collections.deque") and len(e.args) == 1:
            return [(v if v[0] == "list" else OTHER, w2) for v, w2 in self.ev(e.args[0], w)]
        if fn == "map" and len(e.args) == 2 and dotted(e.args[0]) == "self.rec":
            outs = []
            for v, w2 in self.ev(e.args[1], w):
                if v[0] == "list":
                    es = {"raw": "rec"}.get(v[1], v[1])
                    outs.append((("list", es, v[2], v[3]), w2))
                else:
                    outs.append((OTHER, w2))
            return outs
        if short == "NullASTNode" and not e.args:
            return [(NULL, w)]
        if short == "LogicalNot" and len(e.args) == 1:
            outs = []
            for v, w2 in self.ev(e.args[0], w):
                if v[0] == "cond":
                    outs.append((("cond", v[1], v[2] + 1), w2))
                elif v[0] == "bool" and v[1] is not None:
                    outs.append((("bool", not v[1]), w2))
                else:
                    outs.append((OTHER, w2))
            return outs
        cls = None
        if short in self.slots_of:
            cls = short
        elif isinstance(e.func, ast.Call) and dotted(e.func.func) == "type" and e.func.args \
                and isinstance(e.func.args[0], ast.Name) and e.func.args[0].id == self.param \
                and not self.top:
            cls = self.cls
        if cls is not None:
            slots = self.slots_of[cls]
            if slots and slots[0].startswith("*"):
                name = slots[0][1:]
                if len(e.args) == 1 and isinstance(e.args[0], ast.Starred):
                    return [(("node", cls, ((name, v),)), w2) for v, w2 in self.ev(e.args[0].value, w)]
                if any(isinstance(a, ast.Starred) for a in e.args):
                    return [(("node", cls, ((name, OTHER),)), w)]
                return [(("node", cls, ((name, ("tuple", vals)),)), w2)
                        for vals, w2 in self.ev_seq(e.args, w)]
            exprs, names = [], []
            for i, a in enumerate(e.args):
                if isinstance(a, ast.Starred) or i >= len(slots):
                    return [(OTHER, w)]
                names.append(slots[i])
                exprs.append(a)
            for kw in e.keywords:
                if kw.arg is None:
                    return [(OTHER, w)]
                names.append(kw.arg)
                exprs.append(kw.value)
            return [(("node", cls, tuple(zip(names, vals))), w2) for vals, w2 in self.ev_seq(exprs, w)]
        callee = self._resolve_helper(e)
        if callee is not None and self.depth < 2 and not e.keywords \
                and not any(isinstance(a, ast.Starred) for a in e.args):
            return self._inline(callee, e.args, w)
        # unknown call: evaluate nothing, know nothing
        try:
            vals = [v for a in e.args if not isinstance(a, ast.Starred) for v, _ in self.ev(a, w)]
        except AnalysisError:
            raise
        except Exception:
            vals = []
        if any(v[0] == "cond" or v == UNREAD for v in vals):
            return [(UNREAD, w)]
        return [(OTHER, w)]

    def _resolve_helper(self, e):
        from ..engine.srcmodel import Func
        try:
            if isinstance(e.func, ast.Name):
                t = self.P.resolve_name(self.f, e.func.id)
                return t if isinstance(t, Func) and not t.module.trusted else None
            d = dotted(e.func)
            if d and d.startswith("self.") and d.count(".") == 1 and self.f.cls is not None:
                name = d[5:]
                if name == "rec" or name.startswith("map_"):
                    return None
                m = self.P.method(self.f.cls, name)
                return m if m is not None and not m.module.trusted else None
        except Exception:
            return None
        return None

    def _inline(self, callee, args, w):
        """Evaluate a small helper of the repository on the abstract arguments."""
        params = list(callee.params)
        if callee.cls is not None and params and params[0] in ("self", "cls"):
            params = params[1:]
        if len(params) != len(args):
            return [(OTHER, w)]
        outs = []
        for vals, w1 in self.ev_seq(args, w):
            facts = {k: v for k, v in w1.items() if isinstance(k, str) and k.startswith("@")}
            w_in = World({**facts, **dict(zip(params, vals))})
            g = CFG(callee.node)
            self.depth += 1
            try:
                ins = explore(g, [w_in], self.exec_stmt, self.test, self.bind_for)
                for n in g.nodes:
                    if n.kind == "stmt" and isinstance(n.ast, ast.Return) and ins.get(n):
                        for wr in ins[n]:
                            rets = self.ev(n.ast.value, wr) if n.ast.value is not None else [(OTHER, wr)]
                            for v, w_out in rets:
                                merged = w1
                                for k, x in w_out.items():
                                    if isinstance(k, str) and k.startswith("@"):
                                        merged = merged.set(k, x)
                                if v == OTHER and any(a[0] == "cond" or a == UNREAD for a in vals):
                                    v = UNREAD      # made from a condition in a way that is not read
                                outs.append((v, merged))
            finally:
                self.depth -= 1
        return outs or [(OTHER, w)]

    def _elem_worlds(self, es, w, var):
        """Bind a loop / comprehension variable to one element of a children list."""
        origin = next(iter(self.listy))
        w = w.without(f"@rec:{origin}")
        if es == "raw":
            return [w.set(var, self.arm(origin, False, n)).set("@owed", None if n else "raw")
                    for n in (True, False)]
        if es == "rec":
            return [w.set(var, self.arm(origin, True, n)).set(f"@rec:{origin}", n)
                    .set("@owed", None if n else "rec") for n in (True, False)]
        if es == "clean":
            return [w.set(var, self.arm(origin, True, False)).set(f"@rec:{origin}", False)
                    .set("@owed", "rec")]
        return [w.set(var, OTHER)]

    def _comp(self, e, w):
        if len(e.generators) != 1 or not isinstance(e.generators[0].target, ast.Name):
            return [(OTHER, w)]
        gen = e.generators[0]
        var = gen.target.id
        outs = []
        for src, w1 in self.ev(gen.iter, w):
            if src[0] != "list":
                outs.append((OTHER, w1))
                continue
            _, es, cnt, complete = src
            states, ok = set(), complete
            for we in self._elem_worlds(es, w1, var):
                passed = [(True, we)]
                for cond in gen.ifs:
                    nxt = []
                    for p, wx in passed:
                        if p is False:
                            nxt.append((p, wx))
                            continue
                        for t, wy in self.test(cond, wx):
                            nxt.append((t, wy))
                    passed = nxt
                for p, wx in passed:
                    if not p:
                        # dropped: fine only when nothing is owed for this element
                        if wx.get("@owed") is not None or self._maybe_nonnull(wx.get(var)):
                            ok = False
                        continue
                    for v, wy in self.ev(e.elt, wx):
                        if v[0] != "arm" or v[1] not in self.listy:
                            states.add("dirty")
                            ok = False
                        elif not v[2]:
                            states.add("raw")
                        elif v[3]:
                            states.add("rec")
                        else:
                            states.add("clean")
            res = "dirty" if "dirty" in states else "raw" if "raw" in states else \
                "rec" if "rec" in states else "clean"
            origin = next(iter(self.listy))
            w_out = w1.without(f"@rec:{origin}") if f"@rec:{origin}" not in w1 else w1
            filtered = bool(gen.ifs)
            if filtered or cnt is None:
                for c in (0, 1, 2):
                    if cnt is not None and c > cnt:
                        continue
                    outs.append((("list", res, c, ok), w_out))
            else:
                outs.append((("list", res, cnt, ok), w_out))
        return outs

    @staticmethod
    def _maybe_nonnull(v):
        return v is not None and v[0] == "arm" and not v[3]

    def test(self, e, w):
        """[(truth, world)] - unknown tests go both ways."""
        # a handler that decides by what the mapper has seen elsewhere (state kept on
        # self, or a local read from it) is not a function of the node alone: not decided
        for x in ast.walk(e):
            src = x
            if isinstance(x, ast.Name) and isinstance(w.get(x.id, None), tuple) \
                    and w.get(x.id)[0] == "state":
                raise AnalysisError(f"{self.f.qualname}: the test {norm(e)[:50]} consults state "
                                    f"kept by the mapper")
            if isinstance(src, ast.Attribute) and dotted(src.value) == "self" \
                    and not any(isinstance(c_, ast.Call) and c_.func is src for c_ in ast.walk(e)):
                raise AnalysisError(f"{self.f.qualname}: the test {norm(e)[:50]} consults state "
                                    f"kept by the mapper")
        outs = []
        for v, w2 in self.ev(e, w):
            if v == UNREAD:
                raise AnalysisError(f"{self.f.qualname}: the test {norm(e)[:50]} asks a function that is "
                                    "not read about the node's condition")
            t = self.truth(v)
            if t is None:
                outs.extend([(True, w2), (False, w2)])
            else:
                outs.append((t, w2))
        return outs

    # }}}

    # {{{ statements

    def _bind(self, target, v, w):
        if isinstance(target, ast.Name):
            return w.set(target.id, v)
        if isinstance(target, (ast.Tuple, ast.List)):
            if v[0] == "tuple" and len(v[1]) == len(target.elts):
                for t, x in zip(target.elts, v[1]):
                    w = self._bind(t, x, w)
                return w
            for t in target.elts:
                w = self._bind(t, OTHER, w)
            return w
        if isinstance(target, (ast.Subscript, ast.Attribute)):
            base = target.value
            if isinstance(base, ast.Name) and w.get(base.id, OTHER)[0] == "list":
                src = getattr(self, "_rhs", None)
                if isinstance(src, ast.Name):
                    defs = [s_.value for s_ in ast.walk(self.f.node) if isinstance(s_, ast.Assign)
                            and any(isinstance(t_, ast.Name) and t_.id == src.id for t_ in s_.targets)]
                    src = defs[0] if len(defs) == 1 else src
                if isinstance(src, ast.Call) and (dotted(src.func) or "").split(".")[-1][:1].islower() \
                        and any(isinstance(y, ast.Subscript) and dotted(y.value) == base.id
                                for a_ in src.args for y in ast.walk(a_)):
                    # an element is replaced by what a helper makes of it and its neighbour
                    # (two conditionals merged late, say): what the helper builds is not
                    # decided by this analysis
                    raise AnalysisError(f"{self.f.qualname}: an element of '{base.id}' is replaced by "
                                        f"{norm(src)[:50]}; not decided")
                self.bad.append((target, f"children list '{base.id}' is changed in place"))
                return w.set(base.id, ("list", "dirty", None, False))
        return w

    def exec_stmt(self, n, w):
        a = n.ast
        if isinstance(a, ast.Assign) and isinstance(a.value, ast.Attribute) \
                and dotted(a.value.value) == "self" and len(a.targets) == 1 \
                and isinstance(a.targets[0], ast.Name):
            return [w.set(a.targets[0].id, ("state", a.value.attr))]
        if isinstance(a, ast.Assign):
            outs = []
            self._rhs = a.value
            for v, w2 in self.ev(a.value, w):
                if v[0] == "elem":
                    v = self._elem_value(v)
                for t in a.targets:
                    w2 = self._bind(t, v, w2)
                outs.append(w2)
            return outs
        if isinstance(a, ast.AnnAssign) and a.value is not None:
            return [self._bind(a.target, v, w2) for v, w2 in self.ev(a.value, w)]
        if isinstance(a, ast.AugAssign):
            return [self._bind(a.target, OTHER, w)]
        if isinstance(a, ast.Expr) and isinstance(a.value, ast.Call) \
                and isinstance(a.value.func, ast.Attribute) and isinstance(a.value.func.value, ast.Name):
            recv = a.value.func.value.id
            lv = w.get(recv, OTHER)
            if lv[0] == "list":
                meth = a.value.func.attr
                if meth == "append" and len(a.value.args) == 1:
                    outs = []
                    for v, w2 in self.ev(a.value.args[0], w):
                        _, es, cnt, complete = w2.get(recv)
                        if v[0] == "arm" and v[1] in self.listy:
                            if v[3]:
                                es2 = "rec" if v[2] else "raw"
                            elif not v[2]:
                                es2 = "raw"
                            else:
                                es2 = "clean"
                            owed = w2.get("@owed")
                            if not v[3] and owed is None:
                                self.bad.append((a, f"{norm(a, 60)}: the same child is added twice"))
                            w2 = w2.set("@owed", None)
                        else:
                            es2 = "dirty"
                        order = {"clean": 0, "rec": 1, "raw": 2, "dirty": 3}
                        es = max(es, es2, key=order.get)
                        cnt2 = None if cnt is None else min(cnt + 1, 2)
                        outs.append(w2.set(recv, ("list", es, cnt2, complete)))
                    return outs
                self.bad.append((a, f"{norm(a, 60)}: the children list grows by something other than append"))
                return [w.set(recv, ("list", "dirty", None, False))]
        if isinstance(a, (ast.Break, ast.Return)) and a in self.loop_of:
            lp = self.loop_of[a]
            t = lp.target
            if isinstance(t, ast.Name) and w.get(t.id, OTHER)[0] == "arm" \
                    and w.get(t.id)[1] in self.listy:
                what = "the loop over the children can stop before every child was visited"
                if not any(x[1] == what for x in self.bad):
                    self.bad.append((a, what))
            return [w]
        if isinstance(a, ast.Expr):
            # evaluate for forks (a bare self.rec(...) call)
            return [w2 for _, w2 in self.ev(a.value, w)]
        return [w]

    def _elem_value(self, v):
        _, es, cnt, complete, k = v
        origin = next(iter(self.listy))
        if es == "clean":
            return self.arm(origin, True, False)
        return OTHER

    def bind_for(self, a, w):
        outs = []
        for src, w1 in self.ev(a.iter, w):
            if src[0] == "list" and isinstance(a.target, ast.Name):
                outs.extend(self._elem_worlds(src[1], w1, a.target.id))
            else:
                outs.append(self._bind(a.target, OTHER, w1))
        return outs

    # }}}

    # {{{ verdicts

    def den(self, v, guards=(), w=None):
        """Denotation: [(guards, origin, simplified?)] of the arms that can run; a guard
        is a literal (flag, sign), a loop marker, or '?'."""
        if v[0] == "arm":
            if v[3]:
                return []
            shape = w.get(f"@shape:{v[1]}") if w is not None else None
            if shape in ("same", "other"):
                flag = "c" if shape == "same" else "o"
                return [(guards + ((flag, 1),), f"{v[1]}.then", v[2]),
                        (guards + ((flag, -1),), f"{v[1]}.else_", v[2])]
            return [(guards, v[1], v[2])]
        if v[0] == "null":
            return []
        if v[0] == "elem":
            return [(guards, ("elem", v[1], v[2], v[3], v[4]), True)]
        if v[0] == "list":
            return [(guards, ("list", v[1], v[3]), True)] if v[2] != 0 else []
        if v[0] == "tuple":
            out = []
            for x in v[1]:
                out += self.den(x, guards, w)
            return out
        if v[0] == "node":
            cls, slots = v[1], dict(v[2])
            decl = [s.lstrip("*") for s in self.slots_of.get(cls, [])]
            if "condition" in decl:
                c = _const_value(slots.get("condition", OTHER))
                out = []
                for s in decl:
                    if s not in self.single:
                        continue
                    pol = 1 if s == "then" else -1
                    if c[0] == "cond":
                        g = (c[1], pol * (-1) ** c[2])
                    elif c[0] == "bool" and c[1] is not None:
                        if (pol == 1) != c[1]:
                            continue        # this arm never runs
                        out += self.den(slots.get(s, OTHER), guards, w)
                        continue
                    else:
                        if c == UNREAD:
                            raise AnalysisError(
                                f"{self.f.qualname}: the condition of a rebuilt {cls} is computed from the "
                                "node's condition by a function that is not read")
                        g = ("?", pol)
                    out += self.den(slots.get(s, OTHER), guards + (g,), w)
                return out
            non_child = [s for s in decl if s not in self.single and s not in self.listy]
            if non_child and any(s in self.single for s in decl):
                okslots = all(slots.get(s) == ("slot", s) for s in non_child)
                g = ("loop", "same" if okslots else "?")
                out = []
                for s in decl:
                    if s in self.single:
                        out += self.den(slots.get(s, OTHER), guards + (g,), w)
                return out
            out = []
            for s in decl:
                if s in self.single or s in self.listy:
                    out += self.den(slots.get(s, OTHER), guards, w)
            return out
        return [(guards, "?", True)]

    @staticmethod
    def canon(den):
        """Drop paths whose guards contradict each other, collapse repeated guards."""
        out = []
        for guards, o, r in den:
            lits = set(guards)
            if any((f, -s) in lits for f, s in lits if isinstance(s, int)):
                continue
            out.append((tuple(sorted(lits, key=repr)), o, r))
        return sorted(out, key=repr)

    def expected(self, w):
        if self.top:
            n = w.get("@rec:top", w.get("@raw:top"))
            return [] if n else [((), "top", True)]
        out = []
        decl = [s.lstrip("*") for s in self.slots_of.get(self.cls, [])]
        c = _const_value(w.get("@cond", ("cond", "c", 0)))
        for s in decl:
            if s not in self.single:
                continue
            n = w.get(f"@rec:{s}", w.get(f"@raw:{s}"))
            if n:
                continue
            recd = f"@rec:{s}" in w
            if "condition" in decl:
                pol = 1 if s == "then" else -1
                if c[0] == "bool":
                    if (pol == 1) != c[1]:
                        continue
                    g = ()
                else:
                    g = ((c[1], pol * (-1) ** c[2]),)
            else:
                g = (("loop", "same"),)
            out += self.den(self.arm(s, True, False) if recd else self.arm(s, False, False), g, w)
            if not recd:
                out[-1] = (out[-1][0], out[-1][1], True)
        return out

    def nullfree(self, v, inside=False):
        """None if v cannot put a NullASTNode where lower_node would meet it, else why."""
        if v[0] == "null":
            return "a NullASTNode is stored in a child slot" if inside else None
        if v[0] == "arm":
            if not v[2] and not v[3]:
                return f"the '{v[1]}' child is passed on without self.rec"
            if inside and v[3]:
                return f"the '{v[1]}' child can be a NullASTNode here"
            return None
        if v[0] == "elem":
            return None if v[1] == "clean" else "an element of a children list that may hold NullASTNodes"
        if v[0] == "list":
            if v[1] == "clean":
                return None
            return {"rec": "children that simplify to a NullASTNode stay in the list",
                    "raw": "children are passed on without self.rec",
                    "dirty": "the children list holds values of unknown origin"}[v[1]]
        if v[0] == "tuple":
            for x in v[1]:
                r = self.nullfree(x, inside)
                if r:
                    return r
            return None
        if v[0] == "node":
            for s, x in v[2]:
                if s in self.single or s in self.listy:
                    r = self.nullfree(x, True)
                    if r:
                        return r
            return None
        return "a value of unknown origin is in a child slot" if inside else \
            "the handler returns a value of unknown origin"

    # }}}


def _const_value(c):
    """a constant behind negations has the truth value the negations leave it"""
    if c[0] == "cond" and c[1] in ("T", "F"):
        return ("bool", (c[1] == "T") == (c[2] % 2 == 0))
    return c


def analyse(P, f, cls_handled, single, listy, slots_of, top=False, want_nullfree=True):
    """Returns (findings [(node, text)], n_returns, n_worlds, kinds of the results)."""
    h = Handler(P, f, cls_handled, single, listy, slots_of, top=top)
    for wl in ast.walk(f.node):
        # a work list: a loop that runs until a list is empty and puts more into the list
        # as it goes (children of children spliced in).  The abstract lists of this analysis
        # have one origin; this form is not decided.
        if isinstance(wl, ast.While) and isinstance(wl.test, ast.Name) and any(
                isinstance(c_, ast.Call) and isinstance(c_.func, ast.Attribute)
                and c_.func.attr in ("extend", "append", "insert", "appendleft", "extendleft")
                and dotted(c_.func.value) == wl.test.id for c_ in ast.walk(wl)):
            raise AnalysisError(f"{f.qualname}: the children are walked through a work list "
                                f"('{wl.test.id}') that grows inside the loop; not decided")
    g = CFG(f.node)
    ins = explore(g, h.init_worlds(), h.exec_stmt, h.test, h.bind_for)
    findings = list(h.bad)
    n_ret = n_w = 0
    kinds = set()
    is_list_handler = any(s.lstrip("*") in listy for s in slots_of.get(cls_handled, [])) and not top
    # owed children at the start of the next iteration / after the loop
    for n in g.nodes:
        if n.kind == "for" and ins.get(n):
            for w in ins[n]:
                if w.get("@owed") is not None:
                    findings.append((n.ast, "a child that is not a NullASTNode after simplification "
                                            "is neither added to the new children nor returned"))
                    break
    falls = [a for a, lab in g.pred[g.exit] if lab == "fall" and ins.get(a)]
    if falls:
        findings.append((falls[0].ast or f.node, "the handler can end without returning a node"))
    for n in g.nodes:
        if not (n.kind == "stmt" and isinstance(n.ast, ast.Return)) or not ins.get(n):
            continue
        n_ret += 1
        seen = set()
        for w in ins[n]:
            n_w += 1
            vals = h.ev(n.ast.value, w) if n.ast.value is not None else [(OTHER, w)]
            for v, w2 in vals:
                what = None
                kinds.add(v[1] if v[0] == "node" else v[0])
                if is_list_handler:
                    what = _list_verdict(h, v, w2)
                else:
                    act = h.canon(h.den(v, (), w2))
                    exp = h.canon(h.expected(w2))
                    if act != exp:
                        what = _explain(exp, act)
                    if what is None and top and (v[0] == "null" or (v[0] == "arm" and v[3])):
                        what = "the result of the whole pass can be a NullASTNode"
                if what is None and want_nullfree:
                    what = h.nullfree(v)
                if what and what not in seen:
                    seen.add(what)
                    findings.append((n.ast, what))
    return findings, n_ret, n_w, kinds


def _explain(exp, act):
    e_or = {(g, o) for g, o, _ in exp}
    a_or = {(g, o) for g, o, _ in act}
    for g, o in sorted(e_or - a_or, key=repr):
        others = [ga for ga, oa in a_or if oa == o]
        if others:
            return f"the '{o}' child runs under {_g(others[0])} instead of {_g(g)}"
        return f"the '{o}' child is not a NullASTNode after simplification but is dropped"
    for g, o in sorted(a_or - e_or, key=repr):
        return f"the result runs '{o}' under {_g(g)}, which the node did not"
    for (g, o, r) in act:
        if not r:
            return f"the '{o}' child is passed on without self.rec"
    if len(act) != len(exp):
        return "a child is in the result more than once"
    return "result differs from the node"


def _g(g):
    if not g:
        return "no guard"
    out = []
    for x in g:
        if x[0] == "loop":
            out.append("the same loop" if x[1] == "same" else "a loop with other bounds")
        elif x[0] == "?":
            out.append("another condition")
        else:
            flag = {"c": "the flag of the condition", "o": "another flag"}.get(x[0], str(x[0]))
            out.append(flag + (" true" if x[1] == 1 else " false"))
    return " / ".join(out)


def _list_verdict(h, v, w):
    """Block handlers: what is returned stands for the whole list of kept children."""
    if w.get("@owed") is not None:
        return "a child that is not a NullASTNode after simplification is neither added " \
               "to the new children nor returned"
    lists = [x for k, x in w.items() if isinstance(k, str) and not k.startswith("@")
             and isinstance(x, tuple) and x and x[0] == "list"]
    kept = [x for x in lists if x[1] == "clean" and x[3]]
    if v[0] == "null":
        if w.get("@rawcount") == 0 and not kept:
            return None
        if not kept:
            return "a NullASTNode is returned although no list of kept children is known to be empty"
        if any(x[2] != 0 for x in kept):
            return "a NullASTNode is returned although children remain"
        return None
    if v[0] == "elem":
        _, es, cnt, complete, k = v
        if not complete:
            return "the list the result is taken from does not hold every remaining child"
        if cnt != 1 or k != 0:
            return "one element is returned although the list can hold another number of children"
        return None
    if v[0] == "node" and v[1] in h.slots_of and any(s.lstrip("*") in h.listy for s in h.slots_of[v[1]]):
        x = dict(v[2]).get(next(iter(h.listy)), OTHER)
        if x[0] == "list":
            if not x[3]:
                return "the new children do not hold every remaining child"
            return None
        if x[0] == "tuple" and not x[1] and not any(y[2] != 0 for y in kept):
            return None
        return "the children of the returned block are of unknown origin"
    if v == OTHER and w.get("@rawcount") == 0:
        return None                    # `return expr` for a block without children
    return "the handler returns something other than the kept children"
