"""Helpers shared by the rule modules."""
import ast

from ..engine.pattern import find, first, has, match, inert, strip_inert, _ids  # noqa: F401


def nodoc(body):
    """Statement list without a leading docstring."""
    if body and isinstance(body[0], ast.Expr) and isinstance(body[0].value, ast.Constant) \
            and isinstance(body[0].value.value, str):
        return body[1:]
    return body


def src_of(stmts):
    return [ast.unparse(s) for s in nodoc(list(stmts))]


def core(block, pred=None):
    """The statements of a block that matter: those satisfying *pred* (all
    non-trivial ones when pred is None) plus every statement that is not
    inert with respect to them.  `core(body, pred) == [the one statement]`
    is the robust way of saying "the body does just this"."""
    block = nodoc(list(block))
    if pred is None:
        keep = [s for s in block if not isinstance(s, ast.Pass)]
        # drop statements inert w.r.t. all the others
        out = []
        for s in keep:
            others = [o for o in keep if o is not s]
            ids = set()
            for o in others:
                ids |= _ids(o)
            if others and inert(s, ids) and isinstance(s, (ast.Assign, ast.AnnAssign, ast.Pass)) \
                    and not any(isinstance(x, ast.Call) for x in ast.walk(s)):
                continue
            out.append(s)
        return out
    keep = [s for s in block if pred(s)]
    return strip_inert(block, keep)


def last_effective(block):
    """Last statement of a block that is not an inert trailer."""
    c = core(block)
    return c[-1] if c else None


def else_part(fn_node, ifnode):
    """What runs when the test of *ifnode* is false: its else block if it has
    one, otherwise (its body always leaving) the statements that follow it in
    its block.  The loader normalises `if c: <leaves> else: B` to the second
    form, so rules ask through this helper."""
    if ifnode.orelse:
        return ifnode.orelse
    for n in ast.walk(fn_node):
        for fld in ("body", "orelse", "finalbody"):
            blk = getattr(n, fld, None)
            if isinstance(blk, list) and any(x is ifnode for x in blk):
                i = [k for k, x in enumerate(blk) if x is ifnode][0]
                return blk[i + 1:]
    return []
