"""Helpers shared by the rule modules."""
import ast

from ..engine.pattern import find, first, has, match, inert, strip_inert, _ids  # noqa: F401


def nodoc(body):
    """Statement list without a leading docstring."""
    if body and isinstance(body[0], ast.Expr) and isinstance(body[0].value, ast.Constant) \
            and isinstance(body[0].value.value, str):
        return body[1:]
    return body


def src_of(stmts):
    return [ast.unparse(s) for s in nodoc(list(stmts))]


def core(block, pred=None):
    """The statements of a block that matter: those satisfying *pred* (all
    non-trivial ones when pred is None) plus every statement that is not
    inert with respect to them.  `core(body, pred) == [the one statement]`
    is the robust way of saying "the body does just this"."""
    block = nodoc(list(block))
    if pred is None:
        keep = [s for s in block if not isinstance(s, ast.Pass)]
        # drop statements inert w.r.t. all the others
        out = []
        for s in keep:
            others = [o for o in keep if o is not s]
            ids = set()
            for o in others:
                ids |= _ids(o)
            if others and inert(s, ids) and isinstance(s, (ast.Assign, ast.AnnAssign, ast.Pass)) \
                    and not any(isinstance(x, ast.Call) for x in ast.walk(s)):
                continue
            out.append(s)
        return out
    keep = [s for s in block if pred(s)]
    return strip_inert(block, keep)


def last_effective(block):
    """Last statement of a block that is not an inert trailer."""
    c = core(block)
    return c[-1] if c else None


def else_part(fn_node, ifnode):
    """What runs when the test of *ifnode* is false: its else block if it has
    one, otherwise (its body always leaving) the statements that follow it in
    its block.  The loader normalises `if c: <leaves> else: B` to the second
    form, so rules ask through this helper."""
    if ifnode.orelse:
        return ifnode.orelse
    for n in ast.walk(fn_node):
        for fld in ("body", "orelse", "finalbody"):
            blk = getattr(n, fld, None)
            if isinstance(blk, list) and any(x is ifnode for x in blk):
                i = [k for k, x in enumerate(blk) if x is ifnode][0]
                return blk[i + 1:]
    return []


def _strip_not(test):
    pol = True
    while isinstance(test, ast.UnaryOp) and isinstance(test.op, ast.Not):
        test = test.operand
        pol = not pol
    return test, pol


def path_conditions(fn_node, stmt):
    """The branch conditions under which *stmt* runs, as a set of
    (normalised test without leading not, truth value): tests of enclosing
    ifs, and - negated - tests of earlier ifs of the enclosing blocks whose
    body always leaves.  Independent of nesting, polarity and elif/else form."""
    from ..engine.match import norm
    from ..engine.srcmodel import _always_leaves
    out = set()

    def visit(block, conds):
        for i, st in enumerate(block):
            cur = set(conds)
            for prev in block[:i]:
                if isinstance(prev, ast.If) and not prev.orelse and _always_leaves(prev.body):
                    t, pol = _strip_not(prev.test)
                    cur.add((norm(t, 2000), not pol))
                elif isinstance(prev, ast.If) and prev.orelse and _always_leaves(prev.orelse) \
                        and not _always_leaves(prev.body):
                    t, pol = _strip_not(prev.test)
                    cur.add((norm(t, 2000), pol))
            if st is stmt:
                out.update(cur)
                return True
            if isinstance(st, ast.If):
                t, pol = _strip_not(st.test)
                if visit(st.body, cur | {(norm(t, 2000), pol)}):
                    return True
                if visit(st.orelse, cur | {(norm(t, 2000), not pol)}):
                    return True
            elif isinstance(st, (ast.For, ast.While, ast.With, ast.Try)):
                for fld in ("body", "orelse", "finalbody"):
                    if visit(getattr(st, fld, []) or [], cur):
                        return True
                for h in getattr(st, "handlers", []):
                    if visit(h.body, cur):
                        return True
        return False

    visit(fn_node.body, set())
    return out


def split_by(fn_node, test_pred, kinds=(ast.Return, ast.Expr, ast.Assign, ast.Raise, ast.AugAssign)):
    """Statements of the function that run when the test recognised by
    *test_pred(normalised test text)* is true, resp. false (path conditions,
    so independent of the layout of the conditional).  Returns
    (test text or None, [statements when true], [statements when false])."""
    t_text = None
    when_t, when_f = [], []
    for s_ in ast.walk(fn_node):
        if not isinstance(s_, kinds):
            continue
        for t, v in path_conditions(fn_node, s_):
            if test_pred(t):
                t_text = t
                (when_t if v else when_f).append(s_)
    return t_text, when_t, when_f
