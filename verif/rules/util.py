"""Helpers shared by the rule modules."""
import ast

from ..engine.pattern import find, first, has, match  # noqa: F401


def nodoc(body):
    """Statement list without a leading docstring."""
    if body and isinstance(body[0], ast.Expr) and isinstance(body[0].value, ast.Constant) \
            and isinstance(body[0].value.value, str):
        return body[1:]
    return body


def src_of(stmts):
    return [ast.unparse(s) for s in nodoc(list(stmts))]
