"""C10 - well-formedness verification accepts exactly the well-formed methods."""

from __future__ import annotations

import ast
import re

from ..engine.cfg import CFG, walk_fragment
from ..engine.match import dotted, norm, func_body_stmts, string_value
from ..engine.srcmodel import AnalysisError

EXPLANATION = (
    "Loop-scope, call-order and pairing analysis of dagrt/codegen/analysis.py "
    "against the consumers' per-phase lookup tables. Decides: the id universe "
    "a statement's dependencies are tested against is rebuilt, by assignment, "
    "from the statements of that statement's own phase only (scope "
    "agreement with ExecutionController.update_plan and "
    "create_ast_from_phase, which resolve ids per phase); verify_code calls "
    "all four passes, existence before cycles, the per-phase passes once for "
    "every phase with that phase's statements; errors leave verify_code only "
    "as CodeGenerationError(errors) and the catch-all re-raises only when the "
    "error list is empty; the cycle search starts from every statement, "
    "tests every dependency edge against the visiting set before pushing, "
    "pairs visiting add/remove and pops in the finished branch; the flag rule "
    "keys on the '<cond>' prefix the builder uses and counts statements "
    "without de-duplication; every SwitchPhase target is tested against the "
    "phase map. Does not decide: equivalence with an independent graph "
    "checker on all graphs.")

ASSUMPTIONS = [
    "the consumers resolve dependency ids in per-phase tables (checked as part of C10.scope)",
]

MOD = "dagrt.codegen.analysis"


def _loop_over_phases(fnode, phases_name):
    """For loops whose iterable is <phases>.values() / .items()."""
    out = []
    for n in ast.walk(fnode):
        if isinstance(n, ast.For) and isinstance(n.iter, ast.Call) \
                and isinstance(n.iter.func, ast.Attribute) \
                and n.iter.func.attr in ("values", "items") \
                and dotted(n.iter.func.value) == phases_name:
            if n.iter.func.attr == "values" and isinstance(n.target, ast.Name):
                out.append((n, n.target.id))
            elif n.iter.func.attr == "items" and isinstance(n.target, ast.Tuple) \
                    and len(n.target.elts) == 2 and isinstance(n.target.elts[1], ast.Name):
                out.append((n, n.target.elts[1].id))
    return out


def _check_main(run, P):
    run.rule("C10.scope", "the id universe tested against a statement's "
             "dependencies is assigned inside the loop over phases from that "
             "phase's statements only, never accumulated", minimum=3)
    run.rule("C10.calls", "verify_code calls all four passes, existence before "
             "cycles, per-phase passes inside a loop over all phases with the loop "
             "variable's statements", minimum=6)
    run.rule("C10.raise", "errors leave verify_code only as "
             "CodeGenerationError(errors); the catch-all re-raises only when no "
             "error was recorded", minimum=2)
    run.rule("C10.cycle", "cycle search: starts from every statement; edge test "
             "against 'visiting' before push; visiting add/remove paired; the "
             "finished branch pops", minimum=5)
    run.rule("C10.flag", "single-definition rule keys on the builder's '<cond>' "
             "prefix and counts writer statements without de-duplication", minimum=4)
    run.rule("C10.switch", "every SwitchPhase of every phase has its target tested "
             "against the phase map", minimum=2)
    run.rule("C10.consumers", "the consumers that assume well-formedness keep their "
             "own plan / order bookkeeping sound (shared with C04.post / C04.front / "
             "C04.mark / C04.reset and C05.topo)", minimum=12)
    from . import c04, c05
    from .c01 import _alias
    C = P.cls(c04.EC)
    _alias(run, "C04.post", "C10.consumers", lambda: c04._post(run, P, C))
    _alias(run, "C04.post", "C10.consumers", lambda: c04._skipsets(run, P, C))
    _alias(run, "C04.front", "C10.consumers", lambda: c04._front(run, P, C))
    _alias(run, "C04.reset", "C10.consumers", lambda: c04._reset(run, P, C))
    for src_rule in ("C04.mark", "C04.dispatch", "C05.topo", "C05.wrap"):
        run.rule_docs[src_rule] = ""
        run.minimum[src_rule] = 0
    n0 = len(run.obs)
    run.do(c04._mark, run, P, C)
    run.do(c05._topo_wrap, run, P)
    for o in run.obs[n0:]:
        o.rule = "C10.consumers"
    for src_rule in ("C04.mark", "C04.dispatch", "C05.topo", "C05.wrap"):
        del run.rule_docs[src_rule]
        del run.minimum[src_rule]
    run.do(_scope, run, P)
    calls(run, P, "C10.calls")
    run.do(_raise, run, P)
    run.do(_cycle, run, P)
    run.do(_edges_kept, run, P)
    run.do(_field_relations, run, P)
    run.do(_messages, run, P)
    flag(run, P, "C10.flag")
    run.do(_switch, run, P)


def _scope(run, P):
    # consumers are per phase
    up = P.func("dagrt.language.ExecutionController.update_plan")
    from .util import find, has
    ok = has(f"V_t = {up.params[1]}.id_to_stmt", up.node)
    ca = P.func("dagrt.codegen.dag_ast.create_ast_from_phase")
    ph = find(f"V_ph = {ca.params[0]}.phases[{ca.params[1]}]", ca.node)
    ok2 = bool(ph) and has("V_m = {V_i.id: V_i for V_i in V_ph.statements}", ca.node,
                           {"V_ph": ph[0][1]["V_ph"]})
    run.ob("C10.scope", up, up.node, ok and ok2,
           construct="consumers resolve dependency ids per phase "
                     "(phase.id_to_stmt / {inst.id: inst for inst in phase.statements})",
           why="premise of the scope rule")

    f = P.func(f"{MOD}.verify_all_dependencies_exist")
    phases = f.params[0]
    loops = _loop_over_phases(f.node, phases)
    if not loops:
        raise AnalysisError("verify_all_dependencies_exist: no loop over phases")
    # universe names: right operand of `deps <= U`, `deps - U`, `x in U`/`not in U`
    universes = set()
    for n in ast.walk(f.node):
        if isinstance(n, ast.Compare) and len(n.ops) == 1 and \
                isinstance(n.ops[0], (ast.LtE, ast.In, ast.NotIn, ast.Lt)) \
                and isinstance(n.comparators[0], ast.Name):
            universes.add(n.comparators[0].id)
        if isinstance(n, ast.Call) and isinstance(n.func, ast.Attribute) \
                and n.func.attr == "issubset" and n.args and isinstance(n.args[0], ast.Name):
            universes.add(n.args[0].id)
    # every local table of statement ids (a set / dict built from <statement>.id) counts too,
    # however it is consulted ('in', .get(), [...])
    for n in ast.walk(f.node):
        if isinstance(n, ast.Assign) and len(n.targets) == 1 and isinstance(n.targets[0], ast.Name) \
                and isinstance(n.value, (ast.SetComp, ast.DictComp, ast.ListComp, ast.GeneratorExp, ast.Call)):
            v = n.value
            if isinstance(v, ast.Call) and v.args and isinstance(v.args[0], (ast.SetComp, ast.ListComp,
                                                                                ast.GeneratorExp)):
                v = v.args[0]
            key = v.key if isinstance(v, ast.DictComp) else getattr(v, "elt", None)
            if isinstance(key, ast.Attribute) and key.attr == "id":
                universes.add(n.targets[0].id)
    if not universes:
        raise AnalysisError("verify_all_dependencies_exist: membership universe not found")
    for u in sorted(universes):
        defs = []
        for n in ast.walk(f.node):
            if isinstance(n, ast.Assign) and any(isinstance(t, ast.Name) and t.id == u
                                                 for t in n.targets):
                defs.append(("assign", n))
            if isinstance(n, ast.AugAssign) and isinstance(n.target, ast.Name) \
                    and n.target.id == u:
                defs.append(("aug", n))
            if isinstance(n, ast.Call) and isinstance(n.func, ast.Attribute) \
                    and isinstance(n.func.value, ast.Name) and n.func.value.id == u \
                    and n.func.attr in ("update", "add", "__ior__"):
                defs.append(("mutate", n))
        if not defs:
            raise AnalysisError(f"verify_all_dependencies_exist: no definition of {u}")
        for kind, n in defs:
            if kind != "assign":
                run.ob("C10.scope", f, n, False,
                       why=f"'{u}' accumulates ids across phases: a dependency on a "
                           f"statement of an earlier phase passes the existence "
                           f"check and the per-phase cycle search then fails with KeyError")
                continue
            # must be directly in the body of a phase loop, from loopvar.statements
            owner = None
            for lp, var in loops:
                if any(b is n for b in lp.body):
                    owner = (lp, var)
            comp = n.value
            if isinstance(comp, ast.Call) and dotted(comp.func) in ("set", "frozenset") and comp.args:
                comp = comp.args[0]
            elt_ = comp.key if isinstance(comp, ast.DictComp) else getattr(comp, "elt", None)
            ok = owner is not None and isinstance(comp, (ast.SetComp, ast.GeneratorExp, ast.ListComp,
                                                         ast.DictComp)) \
                and len(comp.generators) == 1 \
                and dotted(comp.generators[0].iter) == f"{owner[1]}.statements" \
                and isinstance(elt_, ast.Attribute) and elt_.attr == "id"
            run.ob("C10.scope", f, n, ok,
                   why="the consumers resolve a dependency id among the statements of "
                       "the same phase, so the verifier must test against exactly "
                       "that set; a wider set accepts cross-phase edges that later "
                       "fail with KeyError")
        # the tested statements come from the same loop variable
    for lp, var in loops:
        inner = [n for n in ast.walk(lp) if isinstance(n, ast.For) and n is not lp]
        for il in inner:
            if "statements" in ast.unparse(il.iter):
                ok = dotted(il.iter) == f"{var}.statements"
                run.ob("C10.scope", f, il, ok,
                       construct=f"for ... in {norm(il.iter)} inside 'for {var} in phases'",
                       why="statements must be tested against the universe of their own phase")


def calls(run, P, rule):
    f = P.func(f"{MOD}.verify_code")
    g = CFG(f.node)

    def call_nodes(name):
        return [n for n in g.nodes if n.kind == "stmt" and any(
            isinstance(x, ast.Call) and dotted(x.func) == name
            for x in walk_fragment(n.ast))]

    passes = {
        "verify_all_dependencies_exist": False,
        "verify_no_circular_dependencies": True,
        "verify_switch_phases": False,
        "verify_single_definition_cond_rule": True,
    }
    code = f.arg(0)
    loops = _loop_over_phases(f.node, f"{code}.phases")
    for name, per_phase in passes.items():
        nodes = call_nodes(name)
        if not nodes:
            run.ob(rule, f, f.node, False, construct=f"{name}(...) is called",
                   why=f"pass {name} is never run, so ill-formed methods are accepted")
            continue
        n = nodes[0]
        c = [x for x in walk_fragment(n.ast) if isinstance(x, ast.Call)
             and dotted(x.func) == name][0]
        if per_phase:
            owner = None
            for lp, var in loops:
                if any(x is n.ast for b in lp.body for x in ast.walk(b)):
                    owner = var
            arg = c.args[0] if c.args else None
            ok = owner is not None and dotted(arg) == f"{owner}.statements"
            if not ok and owner is None:
                # inside a loop over a part of the phase map
                part = [lp for lp in ast.walk(f.node) if isinstance(lp, ast.For)
                        and any(x is n.ast for b in lp.body for x in ast.walk(b))
                        and isinstance(lp.iter, ast.Call) and isinstance(lp.iter.func, ast.Attribute)
                        and lp.iter.func.attr in ("values", "items")
                        and isinstance(lp.iter.func.value, ast.Name)]
                if part:
                    raise AnalysisError(f"verify_code: {norm(c)[:50]} runs over "
                                        f"{norm(part[0].iter)[:30]}, a part of the phase map; "
                                        f"not decided")
            if not ok and owner is None and dotted(arg) == f"{code}.phases":
                # the pass is handed the phase map and walks it itself
                callee = P.module(MOD).functions.get(name)
                inner = _loop_over_phases(callee.node, callee.arg(0)) if callee is not None else []
                uses = [(lp, v) for lp, v in inner if any(
                    isinstance(x, ast.Attribute) and dotted(x.value) == v
                    for b in lp.body for x in ast.walk(b))]
                if len(inner) == 1 and uses:
                    run.ob(rule, f, c, True,
                           construct=f"{norm(c)}: the pass walks every phase of the map itself",
                           why="each phase is checked")
                    continue
            run.ob(rule, f, c, ok,
                   construct=f"{norm(c)} inside 'for {owner} in {code}.phases.values()'"
                   if owner else f"{norm(c)} outside any loop over the phases",
                   why="called outside the loop the pass sees only the last phase "
                       "(leaked loop variable): a cycle or doubly assigned flag in "
                       "any other phase is accepted")
        else:
            ok = bool(c.args) and dotted(c.args[0]) == f"{code}.phases"
            if not ok and c.args and isinstance(c.args[0], ast.Name):
                # a part of the phase map (phases that were not verified before, say):
                # whether what is left out may be left out is not decided here
                raise AnalysisError(f"verify_code: {norm(c)[:60]} is handed a part of the phase "
                                    f"map; not decided")
            run.ob(rule, f, c, ok, construct=norm(c),
                   why="the pass must see the whole phase map")
    ex = call_nodes("verify_all_dependencies_exist")
    cy = call_nodes("verify_no_circular_dependencies")
    if ex and cy:
        bad = g.always_preceded(cy, ex)
        run.ob(rule, f, cy[0].ast, not bad,
               construct="existence pass precedes the cycle pass",
               why="the cycle search indexes a per-phase table and relies on dangling "
                   "ids having been reported already (else KeyError with an empty "
                   "error list escapes)")
    # all calls share the same error list
    errs = set()
    for name in passes:
        for n in call_nodes(name):
            for x in walk_fragment(n.ast):
                if isinstance(x, ast.Call) and dotted(x.func) == name and len(x.args) >= 2:
                    errs.add(dotted(x.args[1]))
    run.ob(rule, f, f.node, len(errs) == 1,
           construct=f"all passes append to one error list {sorted(errs)}",
           why="errors collected in a list that is not the one tested at the end are lost")


# raises of dagrt.language that the passes can reach and that are no concern of the
# property: one line of reason each
_REACHABLE_RAISE_OK = {
    ("AssignBase", "get_written_variables"):
        "a left-hand side that is neither a variable nor a subscript is not a statement "
        "form the language defines",
}

_PASSES = ("verify_code", "verify_all_dependencies_exist", "verify_no_circular_dependencies",
           "verify_switch_phases", "verify_single_definition_cond_rule")


def _reachable_raises(run, P):
    """What the passes read from phases and statements (properties, methods of
    dagrt.language) does not raise on its own: an exception that is not a
    CodeGenerationError would leave verify_code while the error list is still empty."""
    m = P.module(MOD)
    lang = P.module("dagrt.language")
    attrs = set()
    for n in _PASSES:
        f = m.functions.get(n)
        if f is None:
            raise AnalysisError(f"{MOD}.{n} not found")
        for x in ast.walk(f.node):
            if isinstance(x, ast.Attribute) and isinstance(x.ctx, ast.Load):
                attrs.add(x.attr)
    n_fn = 0
    for c in sorted(lang.classes.values(), key=lambda c: c.name):
        for a in sorted(attrs):
            f = c.methods.get(a)
            if f is None or f.cls is not c:
                continue
            n_fn += 1
            rs = [r for r in ast.walk(f.node) if isinstance(r, ast.Raise)]
            # a raise that every read in the passes stands inside a handler for is dealt with
            raised = {(dotted(r.exc.func) if isinstance(r.exc, ast.Call) else dotted(r.exc)) or "?"
                      for r in rs if r.exc is not None}
            reads = []
            for pn in _PASSES:
                pf = m.functions[pn]
                phase_vars = {v_ for _lp, v_ in _loop_over_phases(pf.node, pf.arg(0))} \
                    if pn != "verify_code" else {v_ for _lp, v_ in _loop_over_phases(
                        pf.node, f"{pf.arg(0)}.phases")}
                for x in ast.walk(pf.node):
                    if isinstance(x, ast.Attribute) and x.attr == a and isinstance(x.ctx, ast.Load):
                        if c.name == "ExecutionPhase" and dotted(x.value) not in phase_vars:
                            continue        # the attribute of that name of a statement
                        tries = [t_ for t_ in ast.walk(pf.node) if isinstance(t_, ast.Try)
                                 and any(y is x for b in t_.body for y in ast.walk(b))]
                        caught = {dotted(e_) for t_ in tries for h in t_.handlers
                                  for e_ in ([h.type] if not isinstance(h.type, ast.Tuple)
                                             else h.type.elts) if h.type is not None}
                        # the blanket handler of verify_code re-raises: it does not count
                        reads.append(bool(raised) and raised <= caught and pn != "verify_code")
            if rs and reads and all(reads):
                rs = []
            excused = (c.name, a) in _REACHABLE_RAISE_OK
            run.ob("C10.raise", f, rs[0] if rs else f.node, not rs or excused,
                   construct=f"{c.name}.{a} (read by the verifier) raises nothing of its own"
                             + (f" (excused: {len(rs)} raise)" if rs and excused else "")
                             + (f" (found {norm(rs[0], 50)})" if rs and not excused else ""),
                   why="verify_code re-raises what a pass throws while no error has been "
                       "recorded: an ill-formed method is then refused with some other "
                       "exception, or not at all, instead of CodeGenerationError")
    if n_fn < 5:
        raise AnalysisError(f"only {n_fn} properties / methods of dagrt.language read by the verifier")
    # a pass that is not one of the four: what it accepts and refuses is not known here
    vc = m.functions["verify_code"]
    errs = None
    for x in ast.walk(vc.node):
        if isinstance(x, ast.Call) and dotted(x.func) in _PASSES and len(x.args) >= 2:
            errs = dotted(x.args[1])
    for x in ast.walk(vc.node):
        if isinstance(x, ast.Call) and dotted(x.func) not in _PASSES and errs and any(
                dotted(a_) == errs for a_ in list(x.args) + [k.value for k in x.keywords]) \
                and dotted(x.func) not in ("CodeGenerationError", f"{errs}.append", f"{errs}.extend",
                                           "len", "bool"):
            raise AnalysisError(f"verify_code: {norm(x)[:60]} is handed the error list; a verifier "
                                f"pass this check does not know")


def _raise(run, P):
    run.do(_reachable_raises, run, P)
    from .util import find, has
    f = P.func(f"{MOD}.verify_code")
    # the error list: the name passed as second argument to the passes
    errs = None
    for x in ast.walk(f.node):
        if isinstance(x, ast.Call) and dotted(x.func) == "verify_all_dependencies_exist" \
                and len(x.args) >= 2 and isinstance(x.args[1], ast.Name):
            errs = x.args[1].id
    if errs is None:
        raise AnalysisError("verify_code: error list not identified")
    ok = False
    site = f.node
    for n in f.node.body:
        if isinstance(n, ast.If) and dotted(n.test) == errs and n.body \
                and any(has(f"raise CodeGenerationError({errs})", s_) for s_ in n.body) \
                and isinstance(n.body[-1], ast.Raise) and not n.orelse:
            ok = True
            site = n
    run.ob("C10.raise", f, site, ok,
           construct="if <errors>: raise CodeGenerationError(<errors>) at function level",
           why="an ill-formed method must raise the documented error carrying the messages")
    tries = [n for n in ast.walk(f.node) if isinstance(n, ast.Try)]
    for t in tries:
        for h in t.handlers:
            rr = [s_ for s_ in ast.walk(h) if isinstance(s_, ast.Raise)]
            ok = True
            for r in rr:
                par = None
                for n in ast.walk(h):
                    if isinstance(n, ast.If) and any(b_ is r for b_ in n.body):
                        par = n
                tst = ast.unparse(par.test) if par is not None else ""
                ok = ok and par is not None and tst in (
                    f"len({errs}) == 0", f"not {errs}", f"{errs} == []", f"not len({errs})")
            run.ob("C10.raise", f, h, ok and bool(rr),
                   construct=f"except {norm(h.type) if h.type else ''}: re-raise only if no error recorded",
                   why="a pass failing on malformed input after errors were recorded "
                       "must not hide them behind a different exception; with no "
                       "recorded error the failure must not be swallowed (accepting "
                       "an ill-formed method)")
    if not tries:
        run.ob("C10.raise", f, f.node, True, construct="no catch-all around the passes",
               why="exceptions propagate")


def _messages(run, P):
    """Whenever a subset test fails at least one message is appended."""
    f = P.func(f"{MOD}.verify_all_dependencies_exist")
    errs = f.params[1]
    n = 0
    for t in ast.walk(f.node):
        if not isinstance(t, ast.If):
            continue
        test = t.test
        if not (isinstance(test, ast.UnaryOp) and isinstance(test.op, ast.Not)
                and isinstance(test.operand, ast.Compare) and len(test.operand.ops) == 1
                and isinstance(test.operand.ops[0], ast.LtE)):
            continue
        a_, b_ = norm(test.operand.left), norm(test.operand.comparators[0])
        ext = [x for x in ast.walk(t) if isinstance(x, ast.Call)
               and dotted(x.func) in (f"{errs}.extend", f"{errs}.append") and x.args]
        ok = False
        shape = "no message"
        for x in ext:
            arg = x.args[0]
            if dotted(x.func).endswith(".append") or (isinstance(arg, (ast.List, ast.Tuple)) and arg.elts):
                ok = True
                shape = "one message, unconditionally"
            elif isinstance(arg, (ast.ListComp, ast.GeneratorExp)):
                it = norm(arg.generators[0].iter)
                ok = it in (f"{a_} - {b_}", f"sorted({a_} - {b_})") and not arg.generators[0].ifs
                shape = f"one message per element of {it}"
        n += 1
        run.ob("C10.raise", f, t, ok,
               construct=f"if not {a_} <= {b_}: {shape}",
               why="messages enumerated from the wrong difference can be none at all: the "
                   "error list stays empty, the next pass trips over the dangling id and "
                   "a KeyError leaves verify_code instead of the documented error")
    if n < 2:
        raise AnalysisError("verify_all_dependencies_exist: subset tests not found")


def _edges_kept(run, P):
    """The dependency edges a statement is described with reach the verifier
    unchanged (the cycle check reads <statement>.depends_on)."""
    f = P.func("dagrt.language.StatementBase.__init__")
    kw = [x.value for x in ast.walk(f.node) if isinstance(x, ast.keyword) and x.arg == "depends_on"]
    passed = len(kw) == 1
    defs = []
    if passed and isinstance(kw[0], ast.Name):
        defs = [s_ for s_ in ast.walk(f.node) if isinstance(s_, ast.Assign)
                and any(dotted(t) == kw[0].id for t in s_.targets)]
    elif passed:
        defs = [ast.Assign(targets=[], value=kw[0])]
    def popped(v_):
        return isinstance(v_, ast.Call) and dotted(v_.func) in ("kwargs.pop", "kwargs.get") \
            and bool(v_.args) and string_value(v_.args[0]) == "depends_on"
    if len(defs) == 2 and isinstance(kw[0], ast.Name) and popped(defs[0].value) \
            and isinstance(defs[1].value, ast.Call) and dotted(defs[1].value.func) in ("frozenset", "set", "tuple") \
            and len(defs[1].value.args) == 1 and dotted(defs[1].value.args[0]) == kw[0].id \
            and defs[0].lineno < defs[1].lineno:
        # taken out of the keywords, looked at (a better message for a lone string, say), then frozen
        defs = [ast.Assign(targets=[], value=ast.Call(func=defs[1].value.func, args=[defs[0].value],
                                                      keywords=[]), lineno=defs[1].lineno,
                           col_offset=defs[1].col_offset, end_lineno=defs[1].end_lineno,
                           end_col_offset=defs[1].end_col_offset)]
    ok = len(defs) == 1
    shape = norm(defs[0].value, 80) if defs else "?"
    if ok:
        v = defs[0].value
        ok = isinstance(v, ast.Call) and dotted(v.func) in ("frozenset", "set", "tuple") \
            and len(v.args) == 1 and isinstance(v.args[0], ast.Call) \
            and dotted(v.args[0].func) in ("kwargs.pop", "kwargs.get") \
            and v.args[0].args and string_value(v.args[0].args[0]) == "depends_on"
    run.ob("C10.cycle", f, defs[0] if defs else f.node, ok and passed,
           construct=f"StatementBase: depends_on = {shape}, stored as given",
           why="an edge that is normalised away at construction (a statement's "
               "dependency on itself, say) is invisible to the cycle check, and the "
               "ill-formed method is accepted")


def _field_relations(run, P, rule="C10.cycle"):
    """StatementBase.__init__ runs for every copy(), and the passes update one field per copy
    (a fresh id first, the remapped dependencies next): a test that relates two fields there
    meets combinations that exist only between two copies."""
    from .util import path_conditions
    f = P.func("dagrt.language.StatementBase.__init__")
    n = 0
    for r in ast.walk(f.node):
        if not isinstance(r, ast.Raise):
            continue
        n += 1
        names = set()
        for t, _ in path_conditions(f.node, r):
            try:
                names |= {x.id for x in ast.walk(ast.parse(t, mode="eval")) if isinstance(x, ast.Name)}
            except SyntaxError:
                pass
        both = {"id", "depends_on"} <= names
        run.ob(rule, f, r, not both,
               construct="StatementBase.__init__ raises on the form of one field, never on a relation "
                         "between id and depends_on",
               why="fusion gives a statement its new id in one copy and its new dependencies in the "
                   "next: in between it can look self-dependent, and a valid fusion is refused")
    run.ob(rule, f, f.node, True,
           construct=f"StatementBase.__init__: {n} raise statement(s) examined", why="scan summary")


def _cycle_by_components(run, P, f):
    """The pass built on strongly connected components: a component of one statement is a
    cycle too if the statement depends on itself."""
    n = 0
    for x in ast.walk(f.node):
        tests = []
        if isinstance(x, ast.If):
            tests = [x.test]
        elif isinstance(x, ast.comprehension):
            tests = list(x.ifs)
        for t in tests:
            sizes = [c_ for c_ in ast.walk(t) if isinstance(c_, ast.Compare) and isinstance(c_.left, ast.Call)
                     and dotted(c_.left.func) == "len" and len(c_.ops) == 1
                     and isinstance(c_.ops[0], (ast.Gt, ast.GtE, ast.NotEq))]
            if not sizes:
                continue
            comp = norm(sizes[0].left.args[0]) if sizes[0].left.args else "?"
            n += 1
            disj = t.values if isinstance(t, ast.BoolOp) and isinstance(t.op, ast.Or) else []
            self_loop = any(isinstance(c_, ast.Compare) and len(c_.ops) == 1 and isinstance(c_.ops[0], ast.In)
                            and comp in norm(c_.left) and comp in norm(c_.comparators[0])
                            for d_ in disj for c_ in ast.walk(d_))
            run.ob("C10.cycle", f, t, self_loop,
                   construct=f"a component counts as a cycle if it has more than one member *or* its "
                             f"member depends on itself (test: {norm(t, 70)})",
                   why="a statement that lists its own id in depends_on is a strongly connected "
                       "component of size one: accepted by the verifier, it makes the interpreter's "
                       "planner and the lowering recurse without end")
    if n == 0:
        raise AnalysisError("verify_no_circular_dependencies: no size test on the components found")
    raise AnalysisError("verify_no_circular_dependencies is built on compute_sccs; only the self-loop "
                        "clause is decided for that form")


def _cycle(run, P):
    from .util import find, first, has
    f = P.func(f"{MOD}.verify_no_circular_dependencies")
    if any(isinstance(x, ast.Call) and (dotted(x.func) or "").split(".")[-1] == "compute_sccs"
           for x in ast.walk(f.node)):
        return _cycle_by_components(run, P, f)
    stmts_param, errs = f.params[0], f.params[1]
    loop = [n for n in f.node.body if isinstance(n, ast.While) and isinstance(n.test, ast.Name)]
    per_phase = None
    if not loop:
        # the pass may be handed the phase map and walk it itself
        outer = _loop_over_phases(f.node, stmts_param)
        if len(outer) == 1:
            per_phase = outer[0]
            loop = [n for n in per_phase[0].body if isinstance(n, ast.While)
                    and isinstance(n.test, ast.Name)]
            stmts_param = f"{per_phase[1]}.statements"
    if len(loop) != 1:
        raise AnalysisError("verify_no_circular_dependencies: main loop not found")
    lp = loop[0]
    stack = lp.test.id
    if per_phase is not None:
        sets_ = {t.id for s_ in ast.walk(lp) for n_, b_ in find("V_set.add(ANY)", s_)
                 for t in [ast.Name(id=b_["V_set"])]}
        inside = {t.id for s_ in per_phase[0].body if isinstance(s_, ast.Assign)
                  for t in s_.targets if isinstance(t, ast.Name)}
        stale = sorted(sets_ - inside)
        run.ob("C10.cycle", f, per_phase[0], not stale,
               construct="the marks of the search are started afresh for every phase"
                         + (f" (kept across phases: {stale})" if stale else ""),
               why="statement ids repeat from phase to phase: a mark left by an earlier phase "
                   "hides the statement of the same id, and a cycle through it, in a later one")
    init = [s_ for s_ in func_body_stmts(f.node) if isinstance(s_, ast.Assign)
            and any(isinstance(t, ast.Name) and t.id == stack for t in s_.targets)]
    ok = len(init) == 1 and isinstance(init[0].value, ast.Call) \
        and dotted(init[0].value.func) in ("list", "sorted") and init[0].value.args \
        and dotted(init[0].value.args[0]) == stmts_param
    run.ob("C10.cycle", f, init[0] if init else f.node, ok,
           construct=norm(init[0]) if init else "<stack> = ...",
           why="a cycle that is not reachable from the start set (a detached cycle, "
               "a phase that is one big cycle) is never visited")
    top_n, env = first(f"V_top = {stack}[-1]", lp)
    branches = [s_ for s_ in lp.body if isinstance(s_, ast.If)] if top_n is not None else []
    if not branches:
        raise AnalysisError("verify_no_circular_dependencies: expand/finish branch not found")
    top = env["V_top"]
    br = branches[-1]
    m1 = first(f"{top}.id not in V_visited", br.test)
    m2 = first(f"{top}.id in V_visited", br.test)
    if m1[0] is not None:
        visited, expand, finish = m1[1]["V_visited"], br.body, br.orelse
    elif m2[0] is not None:
        visited, expand, finish = m2[1]["V_visited"], br.orelse, br.body
    else:
        raise AnalysisError(f"verify_no_circular_dependencies: unrecognised test {norm(br.test)}")
    adds = []
    for s_ in expand:
        for n_, b_ in find(f"V_set.add({top}.id)", s_):
            adds.append(b_["V_set"])
    visiting = [a_ for a_ in adds if a_ != visited]
    ok = visited in adds and len(visiting) == 1
    run.ob("C10.cycle", f, expand[0], ok,
           construct="first expansion marks visited and visiting",
           why="a node not marked visiting cannot close a cycle; one not marked "
               "visited is expanded forever")
    visiting = visiting[0] if visiting else "?"
    eloops = [n for s_ in expand for n in ast.walk(s_) if isinstance(n, ast.For)
              and norm(n.iter) in (f"{top}.depends_on", f"sorted({top}.depends_on)")]
    if eloops:
        gg = CFG(f.node)
        marks = [n_ for n_ in gg.nodes if n_.kind == "stmt" and n_.ast is not None and any(
            isinstance(x, ast.Call) and dotted(x.func) == f"{visiting}.add" for x in walk_fragment(n_.ast))]
        head_ = gg.node_of(eloops[0])
        run.ob("C10.cycle", f, marks[0].ast if marks else eloops[0],
               bool(marks) and head_ is not None and not gg.always_preceded([head_], marks),
               construct="the node is marked 'visiting' before its dependencies are looked at",
               why="marked afterwards, an edge from a statement to itself is not a back edge "
                   "when it is examined: a self-dependent statement is accepted")
    ok = False
    if len(eloops) == 1 and isinstance(eloops[0].target, ast.Name):
        el = eloops[0]
        v = el.target.id
        body = el.body
        tests_ = [i for i, s_ in enumerate(body) if isinstance(s_, ast.If)
                  and ast.unparse(s_.test) == f"{v} in {visiting}"
                  and isinstance(s_.body[-1], (ast.Return, ast.Break))
                  and any(has(f"{errs}.append(ANY)", x_) for x_ in s_.body)]
        pushes = [i for i, s_ in enumerate(body) if has(f"{stack}.append(V_tbl[{v}])", s_)
                  and not isinstance(s_, ast.If)]
        if tests_ and pushes and tests_[0] < min(pushes):
            ok = True
    run.ob("C10.cycle", f, eloops[0] if eloops else expand[0], ok,
           construct="for every dependency: 'in visiting' -> report and return, else push",
           why="an edge into a node on the current path is a cycle; pushing without "
               "the test loops forever or misses it")
    ok = any(has(f"{visiting}.remove({top}.id)", s_) or has(f"{visiting}.discard({top}.id)", s_)
             for s_ in finish)
    run.ob("C10.cycle", f, finish[0] if finish else br, ok,
           construct="finished node leaves 'visiting'",
           why="a finished node left in 'visiting' reports a false cycle on a diamond")
    pops_ = [s_ for s_ in finish if ast.unparse(s_) == f"{stack}.pop()"]
    last = pops_[-1] if pops_ else (finish[-1] if finish else None)
    ok = bool(pops_) and not any(isinstance(x, (ast.Continue, ast.Break, ast.Return, ast.Raise))
                                 for s_ in finish for x in ast.walk(s_))
    run.ob("C10.cycle", f, last if last is not None else br, ok,
           construct="finished branch ends with an unconditional <stack>.pop()",
           why="termination: every iteration marks a new node or pops")


def flag(run, P, rule):
    f = P.func(f"{MOD}.verify_single_definition_cond_rule")
    # prefix agreement with the builder
    b = P.func("dagrt.language.CodeBuilder.if_")
    bprefix = None
    for x in ast.walk(b.node):
        if isinstance(x, ast.Call) and dotted(x.func) in ("self.fresh_var", "self.fresh_var_name") \
                and x.args:
            bprefix = string_value(x.args[0])
    vprefix = None
    for x in ast.walk(f.node):
        if isinstance(x, ast.Call) and isinstance(x.func, ast.Attribute) \
                and x.func.attr == "startswith" and x.args:
            vprefix = string_value(x.args[0])
    if vprefix is None:
        # the test may live in a helper predicate (is_cond_variable(name)): read it there
        for x in ast.walk(f.node):
            if isinstance(x, ast.Call) and isinstance(x.func, ast.Name) and len(x.args) == 1:
                h = P.resolve_name(f, x.func.id)
                if hasattr(h, "node") and hasattr(h, "params") and len(h.params) == 1:
                    for y in ast.walk(h.node):
                        if isinstance(y, ast.Call) and isinstance(y.func, ast.Attribute) \
                                and y.func.attr == "startswith" and dotted(y.func.value) == h.params[0] \
                                and y.args and string_value(y.args[0]):
                            vprefix = string_value(y.args[0])
                    if vprefix is None and any(isinstance(y, ast.Call) and (dotted(y.func) or "").startswith("re.")
                                               for y in ast.walk(h.node)):
                        raise AnalysisError(f"{h.name}: flags are recognised by a regular expression; "
                                            f"not read by this clause")
    run.ob(rule, f, f.node, bprefix is not None and bprefix == vprefix,
           construct=f"verifier prefix {vprefix!r} == builder flag prefix {bprefix!r}",
           why="flags the builder creates must be the names the rule watches")
    src = ast.unparse(f.node)
    uses_written = "get_written_variables()" in src
    run.ob(rule, f, f.node, uses_written,
           construct="writers found through statement.get_written_variables()",
           why="every kind of assignment to a flag counts")
    # the per-variable collection
    coll_ok = True
    site = f.node
    n_sites = 0
    for x in ast.walk(f.node):
        if isinstance(x, ast.Assign) and isinstance(x.targets[0], ast.Subscript) \
                and dotted(x.targets[0].value) is not None:
            v = x.value
            n_sites += 1
            site = x
            if isinstance(v, (ast.Set, ast.SetComp)) or (
                    isinstance(v, ast.Call) and dotted(v.func) in ("set", "frozenset")):
                coll_ok = False
            if isinstance(v, (ast.List, ast.Set)) and v.elts:
                e = v.elts[0]
                if not isinstance(e, ast.Name):
                    coll_ok = False
        if isinstance(x, ast.Call) and isinstance(x.func, ast.Attribute) \
                and x.func.attr in ("add", "update") and isinstance(x.func.value, ast.Subscript):
            coll_ok = False
            site = x
        if isinstance(x, ast.Call) and isinstance(x.func, ast.Attribute) \
                and x.func.attr == "append" and isinstance(x.func.value, ast.Subscript):
            n_sites += 1
            if not (x.args and isinstance(x.args[0], ast.Name)):
                coll_ok = False
                site = x
    # table.setdefault(key, []).append(statement): one site that does both
    sd = [x for x in ast.walk(f.node) if isinstance(x, ast.Call) and isinstance(x.func, ast.Attribute)
          and x.func.attr == "append" and isinstance(x.func.value, ast.Call)
          and isinstance(x.func.value.func, ast.Attribute) and x.func.value.func.attr == "setdefault"
          and len(x.func.value.args) == 2 and isinstance(x.func.value.args[1], ast.List)
          and not x.func.value.args[1].elts]
    for x in sd:
        n_sites += 2
        if not (x.args and isinstance(x.args[0], ast.Name)):
            coll_ok = False
            site = x
    # a pass that walks the phase map itself counts per phase: its table is started inside
    # the walk, or keyed by the phase as well
    walks = _loop_over_phases(f.node, f.arg(0))
    if walks:
        lp_, pv_ = walks[0]
        names_in_loop = {t_.id for s_ in ast.walk(lp_) if isinstance(s_, ast.Assign)
                         for t_ in s_.targets if isinstance(t_, ast.Name)}
        tables = set()
        for x in ast.walk(lp_):
            if isinstance(x, ast.Subscript) and isinstance(x.value, ast.Name):
                tables.add((x.value.id, x.slice))
            if isinstance(x, ast.Call) and isinstance(x.func, ast.Attribute) \
                    and x.func.attr in ("setdefault", "get") and isinstance(x.func.value, ast.Name) and x.args:
                tables.add((x.func.value.id, x.args[0]))
        phase_names = {pv_} | {t_.id for t_ in ast.walk(lp_.target) if isinstance(t_, ast.Name)}
        made_outside = {s_.targets[0].id for s_ in f.node.body if isinstance(s_, ast.Assign)
                        and isinstance(s_.targets[0], ast.Name)
                        and isinstance(s_.value, (ast.Dict, ast.Call))}
        shared = sorted({t for t, key in tables if t in made_outside and t not in names_in_loop
                         and not any(isinstance(n_, ast.Name) and n_.id in phase_names
                                     for n_ in ast.walk(key))})
        run.ob(rule, f, lp_, not shared,
               construct="flags are counted per phase" + (f" (one table for all phases: {shared})"
                                                          if shared else ""),
               why="a flag name assigned once in each of two phases is no double assignment: "
                   "counted over the whole method a well-formed method is refused")
    leaves = [x for x in ast.walk(f.node) if isinstance(x, (ast.Break, ast.Return))
              and any(isinstance(l_, (ast.For, ast.While)) and any(y is x for y in ast.walk(l_))
                      for l_ in ast.walk(f.node))]
    run.ob(rule, f, leaves[0] if leaves else f.node, not leaves,
           construct="the walk over statements and their written variables is never left early "
                     "(no break / return inside the loops)",
           why="a statement that also writes something that is no flag ends the walk before its "
               "flag is counted: a flag assigned twice goes unreported")
    run.ob(rule, f, site, coll_ok and n_sites >= 2,
           construct="writers are collected per flag as a list of statements",
           why="collecting printed texts or a set merges distinct statements that "
               "print alike, so a doubly assigned flag is accepted")
    report = [n for n in ast.walk(f.node) if isinstance(n, ast.If)
              and isinstance(n.test, ast.Compare) and "len(" in ast.unparse(n.test.left)
              and isinstance(n.test.ops[0], ast.Gt)
              and isinstance(n.test.comparators[0], ast.Constant)
              and n.test.comparators[0].value == 1
              and f"{f.arg(1)}.append(" in ast.unparse(n)]
    run.ob(rule, f, report[0] if report else f.node, bool(report),
           construct="more than one writer -> errors.append(...)",
           why="at most one assignment per flag and phase")


def _membership_checkers(f, phases, errs):
    """nested helpers `def check(target, ...): if target not in <phases>: <errors>.append(...)`"""
    out = {}
    for name, g_ in f.nested.items():
        body = [s_ for s_ in g_.node.body
                if not (isinstance(s_, ast.Expr) and isinstance(s_.value, ast.Constant))]
        if len(body) == 1 and isinstance(body[0], ast.If) and g_.params \
                and norm(body[0].test) == f"{g_.params[0]} not in {phases}" \
                and f"{errs}.append(" in ast.unparse(body[0]) and not body[0].orelse:
            out[name] = g_
    return out


def _switch_by_helper(run, P, f, vc, checkers):
    """verify_switch_phases with the three membership tests made by one nested helper"""
    from .util import path_conditions
    phases = f.params[0]
    code = vc.params[0]
    calls = [(x, norm(x.args[0])) for x in ast.walk(f.node) if isinstance(x, ast.Call)
             and isinstance(x.func, ast.Name) and x.func.id in checkers and x.args]

    def stmt_of(x):
        return next((s_ for s_ in ast.walk(f.node) if isinstance(s_, ast.Expr) and s_.value is x), None)
    loops = _loop_over_phases(f.node, phases)
    if not loops:
        raise AnalysisError("verify_switch_phases: loop over the phases not found")
    lp, var = loops[0]
    pv = var if isinstance(lp.target, ast.Name) else (
        lp.target.elts[1].id if isinstance(lp.target, ast.Tuple) else var)
    inner = [n for n in lp.body if isinstance(n, ast.For) and dotted(n.iter) == f"{pv}.statements"]
    # (a) every SwitchPhase
    ok_sw = False
    if inner:
        iv = inner[0].target.id
        for x, a0 in calls:
            st_ = stmt_of(x)
            if a0 == f"{iv}.next_phase" and st_ is not None and any(y is st_ for y in ast.walk(inner[0])):
                conds = path_conditions(f.node, st_)
                others = {(t, pol) for t, pol in conds
                          if not (t.startswith(f"isinstance({iv}, SwitchPhase") and pol)}
                others = {(t, pol) for t, pol in others if any(y is st_ for s2 in ast.walk(inner[0])
                                                               if isinstance(s2, ast.If) and norm(s2.test).lstrip("not ").startswith(t[:20])
                                                               for y in ast.walk(s2))}
                ok_sw = any(t.startswith(f"isinstance({iv}, SwitchPhase") and pol for t, pol in conds) \
                    and not others
    run.ob("C10.switch", f, inner[0] if inner else f.node, ok_sw,
           construct="for every phase, every SwitchPhase: next_phase not in phases -> error",
           why="a switch to a missing phase raises KeyError at run time")
    # (b) the default successor of every phase
    ok_d = False
    for x, a0 in calls:
        st_ = stmt_of(x)
        if a0 == f"{pv}.next_phase" and st_ is not None and st_ in lp.body:
            ok_d = True
    run.ob("C10.switch", f, lp, ok_d,
           construct="for every phase: its default successor not in phases -> error",
           why="the switch at the end of every step that no statement makes: a phase whose "
               "next_phase names no phase is accepted and the next step fails with KeyError")
    # (c) the initial phase: handed in by verify_code and tested unless the caller gave none -
    # where "none given" must not be a value the initial phase can have
    handed = [k for c_ in ast.walk(vc.node) if isinstance(c_, ast.Call) and dotted(c_.func) == f.name
              for k in c_.keywords if norm(k.value) == f"{code}.initial_phase"]
    if not handed:
        raise AnalysisError("verify_code: the initial phase is neither tested nor handed to "
                            "verify_switch_phases under a keyword")
    pname = handed[0].arg
    site = None
    ok_i = False
    for x, a0 in calls:
        st_ = stmt_of(x)
        if a0 == pname and st_ is not None:
            site = x
            conds = path_conditions(f.node, st_)
            if not conds:
                ok_i = True
            for t, pol in conds:
                m_ = re.match(rf"^{pname} is not (\w+)$", t) if pol else re.match(rf"^{pname} is (\w+)$", t)
                if m_ is None:
                    raise AnalysisError(f"verify_switch_phases: the initial phase is tested under {t[:50]}")
                sentinel = m_.group(1)
                v_ = f.module.assigns.get(sentinel) if hasattr(f.module, "assigns") else None
                ok_i = isinstance(v_, ast.Call) and dotted(v_.func) == "object" and not v_.args
    run.ob("C10.switch", f, site if site is not None else f.node, ok_i,
           construct="the initial phase not in phases -> error (skipped only for a private 'not given' "
                     "object, never for a value the initial phase can have)",
           why="the first step indexes the phase map with it; None is what a method without an "
               "initial phase has, so 'None means not given' accepts exactly that method")


def _switch(run, P):
    f = P.func(f"{MOD}.verify_switch_phases")
    phases = f.params[0]
    checkers = _membership_checkers(f, phases, f.arg(1))
    if checkers:
        run.do(_switch_by_helper, run, P, f, P.func(f"{MOD}.verify_code"), checkers)
        return
    loops = _loop_over_phases(f.node, phases)
    ok = False
    site = f.node
    if loops:
        lp, var = loops[0]
        inner = [n for n in lp.body if isinstance(n, ast.For)
                 and dotted(n.iter) == f"{var}.statements"]
        if inner:
            il = inner[0]
            iv = il.target.id
            src = [ast.unparse(s) for s in il.body]
            skip_ok = any(isinstance(s, ast.If) and
                          ast.unparse(s.test) == f"not isinstance({iv}, SwitchPhase)"
                          and isinstance(s.body[-1], ast.Continue) for s in il.body) \
                or any(isinstance(s, ast.If) and
                       ast.unparse(s.test).startswith(f"isinstance({iv}, SwitchPhase)")
                       for s in il.body)
            test_ok = any(f"{iv}.next_phase not in {phases}" in s and f"{f.arg(1)}.append(" in s
                          for s in src)
            ok = skip_ok and test_ok
            site = il
            n_cont = sum(1 for s in ast.walk(il) if isinstance(s, (ast.Continue, ast.Break)))
            run.ob("C10.switch", f, il, n_cont <= 1,
                   construct="only non-SwitchPhase statements are skipped",
                   why="an extra skip lets a dangling target through")
    run.ob("C10.switch", f, site, ok,
           construct="for every phase, every SwitchPhase: next_phase not in phases -> error",
           why="a switch to a missing phase raises KeyError at run time")
    # the switches no statement makes: the default successor of every phase and the phase
    # the method starts in (both consumers index the phase map with them)
    from .util import path_conditions
    vc = P.func(f"{MOD}.verify_code")
    code = vc.params[0]

    def reports(fn, tests):
        for x in ast.walk(fn.node):
            if isinstance(x, ast.Call) and isinstance(x.func, ast.Attribute) \
                    and x.func.attr in ("append", "extend") and isinstance(x.func.value, ast.Name):
                st_ = None
                for s_ in ast.walk(fn.node):
                    if isinstance(s_, ast.Expr) and s_.value is x:
                        st_ = s_
                if st_ is None:
                    continue
                for t, v in path_conditions(fn.node, st_):
                    if v and any(t == want for want in tests):
                        return x
                    if not v and any(t == want.replace(" not in ", " in ") for want in tests):
                        return x
        return None

    dflt = None
    if loops:
        lp, var = loops[0]
        pv = var if isinstance(lp.target, ast.Name) else (
            lp.target.elts[1].id if isinstance(lp.target, ast.Tuple) else var)
        dflt = reports(f, [f"{pv}.next_phase not in {phases}"])
    run.ob("C10.switch", f, dflt if dflt is not None else f.node, dflt is not None,
           construct="for every phase: its default successor not in phases -> error",
           why="the switch at the end of every step that no statement makes: a phase whose "
               "next_phase names no phase is accepted and the next step fails with KeyError")
    init = reports(vc, [f"{code}.initial_phase not in {code}.phases"])
    run.ob("C10.switch", vc, init if init is not None else vc.node, init is not None,
           construct="the initial phase not in phases -> error",
           why="the first step indexes the phase map with it")


def check(run, P):
    run.do(_check_main, run, P)
    from . import generic
    generic.lints(run, P, "C10")
