"""C13 - distinct IR names map to distinct, legal, stable target identifiers."""

from __future__ import annotations

import ast
import re
import string

from ..engine.match import dotted, norm, func_body_stmts, string_value, kwarg
from ..engine.srcmodel import AnalysisError, Class, Func

EXPLANATION = (
    "Constant evaluation of the identifier alphabet and of every prefix, and "
    "shape analysis of the three name paths (codegen/utils.py, "
    "PythonNameManager, FortranNameManager, utils.is_state_variable). "
    "Decides: the characters kept by make_identifier_from_name are a "
    "constant subset of [A-Za-z0-9_] selected by membership (no locale / "
    "Unicode predicates), leading underscores are stripped and the result is "
    "never empty; within its identifier segment every mapped name is "
    "preceded by a non-empty prefix that starts with a letter, or starts "
    "with the sanitised tag of a persistent name class (evaluated with the "
    "sanitiser's own rule); the memo returns the stored identifier when "
    "present and stores a new one under the same key before returning it; "
    "every cache written on the local lookup path is reset by clear_locals; "
    "the three Fortran maps share one generator object and fold case; the "
    "Python maps have pairwise non-overlapping forced prefixes that no "
    "attribute defined by the templates starts with; both __getitem__ "
    "dispatch on is_state_variable, whose tests are left-anchored prefix / "
    "exact-name tests covering the names set_up() stores; Fortran generated "
    "procedure names use the drtf_ prefix. Reports as a known finding: no "
    "bound on identifier length for Fortran (63 characters). Does not "
    "decide: pairwise distinctness for every finite name set.")

ASSUMPTIONS = [
    "pytools.UniqueNameGenerator returns names that are unique among the names it has seen (case-sensitively) and keeps the forced prefix",
    "target identifier grammar: letters, digits, underscore, not starting with a digit; Fortran compares case-insensitively and limits names to 63 characters",
]

UTILS = "dagrt.codegen.utils"
ALLOWED = set(string.ascii_letters + string.digits + "_")


def _eval_const_str(e, mod):
    """Evaluate module-level string expressions built from string literals
    and names imported from ``string``."""
    if isinstance(e, ast.Constant) and isinstance(e.value, str):
        return e.value
    if isinstance(e, ast.Name):
        imp = mod.imports.get(e.id)
        if imp and imp[0] == "string" and hasattr(string, imp[1] or ""):
            return getattr(string, imp[1])
        v = mod.assigns.get(e.id)
        if v is not None:
            return _eval_const_str(v, mod)
        return None
    if isinstance(e, ast.Attribute) and isinstance(e.value, ast.Name) and e.value.id == "string":
        return getattr(string, e.attr, None)
    if isinstance(e, ast.BinOp) and isinstance(e.op, ast.Add):
        a, b = _eval_const_str(e.left, mod), _eval_const_str(e.right, mod)
        if a is None or b is None:
            return None
        return a + b
    return None


def sanitise(name):
    """The sanitiser's rule as established by C13.charset."""
    out = "".join(c if c in ALLOWED else "_" for c in name).lstrip("_")
    return out


def _check_main(run, P):
    run.rule("C13.charset", "make_identifier_from_name keeps a constant subset of "
             "[A-Za-z0-9_] by membership test, strips leading underscores and "
             "never returns the empty string", minimum=4)
    run.rule("C13.prefix", "within its identifier segment every mapped name starts "
             "with a letter (letter-initial prefix or sanitised persistent tag)",
             minimum=8)
    run.rule("C13.memo", "name map: stored identifier returned when present; a new "
             "one is stored under the same key before it is returned; caches on "
             "the local path are reset by clear_locals", minimum=4)
    run.rule("C13.shared", "Fortran maps share one generator; Python forced prefixes "
             "do not overlap", minimum=4)
    run.rule("C13.reserved", "no attribute defined by the Python templates starts "
             "with the global-variable prefix; Fortran user locals get lploc_ and "
             "only the generator's own names are exempt", minimum=3)
    run.rule("C13.storage", "both name managers dispatch on is_state_variable; its "
             "tests are left-anchored and cover the names set_up() stores", minimum=5)
    run.rule("C13.case", "the Fortran name path folds case before uniquifying",
             minimum=3)
    run.rule("C13.length", "the Fortran name path bounds identifier length", minimum=1)
    run.do(_charset, run, P)
    run.do(_prefix, run, P)
    run.do(_memo, run, P)
    run.do(_shared, run, P)
    run.do(_refcount, run, P)
    run.do(_no_consumer_cache, run, P)
    run.do(_reserved, run, P)
    run.do(_storage, run, P)
    run.do(_case_length, run, P)
    run.do(_python_variables, run, P)
    run.do(_translate_path, run, P)
    run.do(_maps_live, run, P)
    run.do(_no_prefill, run, P)


PROBE = [chr(i) for i in range(32, 127)] + list("\u00e9\u03b5\u00b2\ufb01\u0661\u0394\u2081\u00aa\u4e2d")


def _charset(run, P):
    """Which characters of a name survive into the identifier.  Two idioms are
    understood: a comprehension that keeps the characters of a constant set,
    and a regular-expression substitution whose (constant) pattern is
    evaluated on a probe alphabet of ASCII and non-ASCII word characters."""
    import re as _re
    m = P.module(UTILS)
    f = P.func(f"{UTILS}.make_identifier_from_name")
    comps = [n for n in ast.walk(f.node) if isinstance(n, (ast.ListComp, ast.GeneratorExp))
             and isinstance(n.elt, ast.IfExp)]
    subs = [n for n in ast.walk(f.node) if isinstance(n, ast.Call) and isinstance(n.func, ast.Attribute)
            and n.func.attr == "sub"]
    kept = None
    repl = None
    site = f.node
    detail = ""
    if comps:
        c = comps[0]
        pred, repl_n, keep = c.elt.test, c.elt.orelse, c.elt.body
        site = pred
        repl = repl_n.value if isinstance(repl_n, ast.Constant) and isinstance(keep, ast.Name) else None
        if isinstance(pred, ast.Compare) and len(pred.ops) == 1 and isinstance(pred.ops[0], ast.In) \
                and isinstance(pred.comparators[0], ast.Name):
            v = m.assigns.get(pred.comparators[0].id)
            chars = None
            if isinstance(v, ast.Call) and dotted(v.func) in ("set", "frozenset") and v.args:
                chars = _eval_const_str(v.args[0], m)
            elif v is not None:
                chars = _eval_const_str(v, m)
            if chars is None:
                raise AnalysisError("make_identifier_from_name: character set is not a constant")
            kept = set(chars)
            detail = f"{norm(pred)}, |set|={len(kept)}"
        elif any(isinstance(x, ast.Attribute) and x.attr in (
                "isalnum", "isalpha", "isdigit", "isidentifier", "isnumeric", "isdecimal",
                "islower", "isupper") for x in ast.walk(pred)):
            kept = set(PROBE)          # str predicates accept every Unicode letter / digit
            detail = f"predicate {norm(pred)} is Unicode aware"
        else:
            raise AnalysisError(f"make_identifier_from_name: predicate {norm(pred)} not understood")
    elif subs:
        call = subs[0]
        site = call
        pat = flags = None
        if dotted(call.func.value) in ("re", "_re") and len(call.args) >= 3:
            pat, repl_n = call.args[0], call.args[1]
            flags = kwarg(call, "flags") or (call.args[4] if len(call.args) > 4 else None)
        else:
            repl_n = call.args[0] if call.args else None
            src = call.func.value
            comp = m.assigns.get(src.id) if isinstance(src, ast.Name) else src
            if isinstance(comp, ast.Call) and (dotted(comp.func) or "").endswith("compile") and comp.args:
                pat = comp.args[0]
                flags = comp.args[1] if len(comp.args) > 1 else kwarg(comp, "flags")
        pat_s = _eval_const_str(pat, m) if pat is not None else None
        if pat_s is None:
            raise AnalysisError("make_identifier_from_name: substitution pattern is not a constant")
        fl = 0
        if flags is not None:
            for x in ast.walk(flags):
                if isinstance(x, ast.Attribute) and x.attr in ("ASCII", "A"):
                    fl |= _re.ASCII
                elif isinstance(x, ast.Attribute) and x.attr in ("IGNORECASE", "I"):
                    fl |= _re.IGNORECASE
        rx = _re.compile(pat_s, fl)
        kept = {c_ for c_ in PROBE if not rx.fullmatch(c_)}
        repl = repl_n.value if isinstance(repl_n, ast.Constant) else None
        detail = f"pattern {pat_s!r} flags={'ASCII' if fl & _re.ASCII else 'none'}"
    else:
        raise AnalysisError("make_identifier_from_name: neither a filter comprehension nor a "
                            "substitution found")
    ok = kept <= ALLOWED and set(string.ascii_lowercase) <= kept
    run.ob("C13.charset", f, site, ok,
           construct=f"kept characters ({detail}): outside [A-Za-z0-9_]: "
                     f"{sorted(kept - ALLOWED)[:6]}",
           why="str.isalnum(), \\w and \\W without re.ASCII accept every Unicode letter and "
               "digit: 'k\u00b2' would map to an identifier that neither Python nor Fortran "
               "accepts, and NFKC-equivalent names would collide in Python")
    run.ob("C13.charset", f, f.node, repl == "_",
           construct="every other character is replaced by '_'",
           why="replacement must itself be an identifier character")
    strips = [x for x in ast.walk(f.node) if isinstance(x, ast.Call) and isinstance(x.func, ast.Attribute)
              and x.func.attr == "lstrip" and len(x.args) == 1 and string_value(x.args[0]) == "_"]
    run.ob("C13.charset", f, f.node, bool(strips),
           construct="leading underscores are stripped",
           why="the persistent tags '<p>' etc. must sanitise to a letter-initial "
               "string; C13.prefix relies on it")
    a = f.node.args
    dparam = a.args[-1].arg if a.defaults else None
    ok = False
    if dparam:
        for n in ast.walk(f.node):
            # `if not r: r = default`   or   `return r or default`
            if isinstance(n, ast.If) and isinstance(n.test, ast.UnaryOp) \
                    and isinstance(n.test.op, ast.Not) and isinstance(n.test.operand, ast.Name) \
                    and any(isinstance(s_, ast.Assign) and dotted(s_.value) == dparam
                            and dotted(s_.targets[0]) == n.test.operand.id for s_ in n.body):
                ok = True
            if isinstance(n, ast.Return) and isinstance(n.value, ast.BoolOp) \
                    and isinstance(n.value.op, ast.Or) and dotted(n.value.values[-1]) == dparam:
                ok = True
    dflt = a.defaults[-1] if a.defaults else None
    dval = string_value(dflt) if dflt is not None else None
    run.ob("C13.charset", f, f.node, ok and bool(dval) and dval[0].isalpha()
           and set(dval) <= ALLOWED,
           construct=f"empty result replaced by default {dval!r}",
           why="a name made only of punctuation must still map to an identifier")


def _forced_prefixes(P, cls_fq):
    """{attr: forced_prefix} for KeyToUniqueNameMap(...) assignments in __init__."""
    c = P.cls(cls_fq)
    init = c.methods.get("__init__")
    out = {}
    for s in func_body_stmts(init.node):
        if isinstance(s, ast.Assign) and isinstance(s.value, ast.Call) \
                and dotted(s.value.func) == "KeyToUniqueNameMap":
            fp = kwarg(s.value, "forced_prefix")
            out[dotted(s.targets[0])] = (string_value(fp) if fp is not None else "", s)
    return out


def _segment(prefix):
    return prefix.rsplit(".", 1)[-1]


def _prefix(run, P):
    py = _forced_prefixes(P, "dagrt.codegen.python.PythonNameManager")
    if len(py) < 3:
        raise AnalysisError("PythonNameManager: three name maps expected")
    for attr, (pfx, node) in sorted(py.items()):
        seg = _segment(pfx)
        ok = bool(seg) and seg[0].isalpha() and set(seg) <= ALLOWED
        run.ob("C13.prefix", P.func("dagrt.codegen.python.PythonNameManager.__init__"), node, ok,
               construct=f"{attr}: forced prefix {pfx!r}, identifier segment starts with {seg[:8]!r}",
               why="after the last dot the sanitised name stands alone unless a "
                   "letter-initial prefix precedes it: a name starting with a digit "
                   "or equal to a keyword gives a syntax error")
    # clear_locals re-creates the local map with the same prefix
    cl = P.func("dagrt.codegen.python.PythonNameManager.clear_locals")
    again = [n for n in ast.walk(cl.node) if isinstance(n, ast.Call)
             and dotted(n.func) == "KeyToUniqueNameMap"]
    ok = bool(again) and all(string_value(kwarg(n, "forced_prefix")) ==
                             py.get("self._local_map", ("",))[0] for n in again)
    run.ob("C13.prefix", cl, cl.node, ok,
           construct="clear_locals re-creates the local map with the same forced prefix",
           why="locals of later phases must keep a letter-initial, non-overlapping prefix")
    # Fortran
    F = "dagrt.codegen.fortran.FortranNameManager"
    nl = P.func(f"{F}.name_local")
    ok = False
    for n in ast.walk(nl.node):
        if isinstance(n, ast.If) and "startswith('dagrt_')" in ast.unparse(n.test) \
                and "not" in ast.unparse(n.test):
            asg = [s for s in n.body if isinstance(s, ast.Assign)]
            if any(string_value(a_.value) == "lploc_" for a_ in asg):
                ok = True
    run.ob("C13.prefix", nl, nl.node, ok,
           construct="name_local: prefix 'lploc_' unless the name starts with 'dagrt_'",
           why="user locals need a letter-initial prefix that cannot collide with "
               "generator-reserved names")
    nf = P.func(f"{F}.name_function")
    pfx = None
    for n in ast.walk(nf.node):
        if isinstance(n, ast.Call) and (dotted(n.func) or "").endswith("get_or_make_name_for_key"):
            v = kwarg(n, "prefix", 1)
            pfx = string_value(v) if v is not None else None
    run.ob("C13.prefix", nf, nf.node, bool(pfx) and pfx[0].isalpha(),
           construct=f"name_function: prefix {pfx!r}",
           why="a function called '1f' must not map to the identifier '1f'")
    mu = P.func(f"{F}.make_unique_fortran_name")
    src = ast.unparse(mu.node)
    run.ob("C13.prefix", mu, mu.node, "'drtf_' + prefix" in src,
           construct="make_unique_fortran_name: 'drtf_' + prefix",
           why="generated names must not collide with user names")
    # globals: sanitised persistent tags start with a letter
    isv = P.func("dagrt.utils.is_state_variable")
    exact, prefixes = state_classes(isv)
    ng = P.func(f"{F}.name_global")
    has_prefix = any(kwarg(n, "prefix", 1) is not None for n in ast.walk(ng.node)
                     if isinstance(n, ast.Call)
                     and (dotted(n.func) or "").endswith("get_or_make_name_for_key"))
    for p in sorted(prefixes):
        s = sanitise(p + "x")
        ok = has_prefix or (bool(s) and s[0].isalpha())
        run.ob("C13.prefix", ng, ng.node, ok,
               construct=f"global names of class {p!r} sanitise to {sanitise(p)!r}...",
               why="Fortran state components have no forced prefix; they rely on the "
                   "persistent tag sanitising to a letter-initial string")
    # start maps cover the exact names
    for fq in ("dagrt.codegen.python.PythonNameManager.__init__", f"{F}.__init__"):
        fi = P.func(fq)
        starts = {}
        for n in ast.walk(fi.node):
            if isinstance(n, ast.Call) and dotted(n.func) == "KeyToUniqueNameMap":
                st = kwarg(n, "start")
                if isinstance(st, ast.Dict):
                    for k, v in zip(st.keys, st.values):
                        starts[string_value(k)] = string_value(v)
        ok = set(exact) <= set(starts) and all(
            _segment(v)[0].isalpha() and set(_segment(v)) <= ALLOWED for v in starts.values())
        run.ob("C13.prefix", fi, fi.node, ok,
               construct=f"start map {starts} covers the exact persistent names {sorted(exact)}",
               why="'<t>' / '<dt>' sanitise to 't' / 'dt'; they get fixed, legal identifiers")


def state_classes(isv: Func):
    """(exact names, prefixes) accepted by is_state_variable; raises
    AnalysisError for unrecognised forms."""
    exact, prefixes = set(), set()
    p = isv.params[0]
    for n in ast.walk(isv.node):
        if isinstance(n, ast.Compare) and len(n.ops) == 1 and isinstance(n.ops[0], ast.In) \
                and dotted(n.left) == p:
            c = n.comparators[0]
            if isinstance(c, ast.Name):
                c = isv.module.assigns.get(c.id, c)
            if isinstance(c, (ast.Tuple, ast.List, ast.Set)):
                exact |= {string_value(e) for e in c.elts}
            elif isinstance(c, ast.Call) and c.args and isinstance(c.args[0], (ast.Tuple, ast.List, ast.Set)):
                exact |= {string_value(e) for e in c.args[0].elts}
            elif string_value(c) is not None:
                # `name in "<t><dt>"` (a tuple that lost its comma) is a substring test
                isv.substring_tests = getattr(isv, "substring_tests", []) + [string_value(c)]
        if isinstance(n, ast.Compare) and len(n.ops) == 1 and isinstance(n.ops[0], ast.Eq) \
                and dotted(n.left) == p:
            exact.add(string_value(n.comparators[0]))
        if isinstance(n, ast.Call) and isinstance(n.func, ast.Attribute) \
                and n.func.attr == "startswith" and dotted(n.func.value) == p and n.args:
            a = n.args[0]
            if isinstance(a, ast.Tuple):
                prefixes |= {string_value(e) for e in a.elts}
            elif isinstance(a, ast.Name):
                v = isv.module.assigns.get(a.id)
                if isinstance(v, (ast.Tuple, ast.List)):
                    prefixes |= {string_value(e) for e in v.elts}
                elif isinstance(v, ast.Call) and v.args and isinstance(v.args[0], (ast.Tuple, ast.List)):
                    prefixes |= {string_value(e) for e in v.args[0].elts}
            else:
                prefixes.add(string_value(a))
    # classification by the leading tag, taken off the name by a helper: `helper(name) in tags`
    for n in ast.walk(isv.node):
        if isinstance(n, ast.Compare) and len(n.ops) == 1 and isinstance(n.ops[0], ast.In) \
                and isinstance(n.left, ast.Call) and isinstance(n.left.func, ast.Name) \
                and len(n.left.args) == 1 and dotted(n.left.args[0]) == p:
            h = isv.module.functions.get(n.left.func.id)
            if h is None:
                raise AnalysisError(f"is_state_variable: helper {n.left.func.id} not resolved")
            hp = h.params[0]
            src = ast.unparse(h.node)
            # the helper returns name[:name.find('>') + 1] for names that start with '<'
            cuts = any(isinstance(r, ast.Return) and isinstance(r.value, ast.Subscript)
                       and dotted(r.value.value) == hp and isinstance(r.value.slice, ast.Slice)
                       and r.value.slice.lower is None for r in ast.walk(h.node))
            if not (cuts and f"{hp}.startswith('<')" in src and (f"{hp}.find('>')" in src
                                                                 or f"{hp}.index('>')" in src)):
                raise AnalysisError(f"is_state_variable: what {h.name} takes off the name is not "
                                    f"recognised")
            c = n.comparators[0]
            if isinstance(c, ast.Name):
                c = isv.module.assigns.get(c.id, c)
            if isinstance(c, ast.Call) and c.args:
                c = c.args[0]
            if not isinstance(c, (ast.Tuple, ast.List, ast.Set)):
                raise AnalysisError("is_state_variable: collection of tags not resolved")
            # a name whose leading tag is in the collection: every name that starts with it
            prefixes |= {string_value(e_) for e_ in c.elts}
    # classification by a compiled regular expression "<(tag)>": read the pattern
    for n in ast.walk(isv.node):
        if isinstance(n, ast.Call) and isinstance(n.func, ast.Attribute) \
                and n.func.attr in ("match", "search", "fullmatch") and isinstance(n.func.value, ast.Name) \
                and n.args and dotted(n.args[0]) == p:
            pat = isv.module.assigns.get(n.func.value.id)
            src = string_value(pat.args[0]) if isinstance(pat, ast.Call) and pat.args \
                and (dotted(pat.func) or "").endswith("compile") else None
            if src is None:
                raise AnalysisError("is_state_variable: regular expression not resolved")
            verdict = _tag_regex(src, n.func.attr)
            tags = set()
            for c_ in ast.walk(isv.node):
                if isinstance(c_, ast.Compare) and len(c_.ops) == 1 and isinstance(c_.ops[0], ast.In) \
                        and "group(1)" in ast.unparse(c_.left):
                    col = c_.comparators[0]
                    if isinstance(col, ast.Name):
                        col = isv.module.assigns.get(col.id, col)
                    if isinstance(col, ast.Call) and col.args:
                        col = col.args[0]
                    if isinstance(col, (ast.Tuple, ast.List, ast.Set)):
                        tags |= {string_value(e) for e in col.elts}
            if verdict is None:
                prefixes |= {f"<{t}>" for t in tags if t}
            else:
                isv.regex_problem = f"pattern {src!r}: {verdict}"
    exact.discard(None)
    prefixes.discard(None)
    return exact, prefixes


def _tag_regex(src, how):
    """None if the pattern reads the *leading* tag '<tag>' of a name; else why not."""
    import re._parser as rp
    try:
        parsed = list(rp.parse(src))
    except Exception as e:                      # pragma: no cover
        raise AnalysisError(f"is_state_variable: cannot parse pattern {src!r}: {e}")
    if how == "search" and not (parsed and parsed[0][0] == rp.AT):
        return "search() without '^' finds a tag anywhere in the name"
    i = 1 if parsed and parsed[0][0] == rp.AT else 0
    if not (len(parsed) > i and parsed[i] == (rp.LITERAL, ord("<"))):
        return "does not start with a literal '<'"
    if not (len(parsed) > i + 1 and parsed[i + 1][0] == rp.SUBPATTERN):
        raise AnalysisError(f"is_state_variable: pattern {src!r} not understood")
    inner = list(parsed[i + 1][1][3])
    for op, av in inner:
        if op == rp.MAX_REPEAT:
            item = list(av[2])
            if item and item[0][0] == rp.ANY:
                return ("a greedy '.*' runs to the LAST '>' of the name: '<p>w_<func>f' is "
                        "read as tag 'p>w_<func', which is not persistent")
            if item and item[0][0] == rp.IN and not any(
                    x == (rp.NEGATE, None) for x in item[0][1]):
                pass
        if op == rp.ANY:
            return "'.' in the tag"
    if not (len(parsed) > i + 2 and parsed[i + 2] == (rp.LITERAL, ord(">"))):
        return "tag group is not followed by a literal '>'"
    return None


RIGHT_ANCHORED = {"rpartition", "rsplit", "rfind", "rindex", "endswith", "removesuffix"}


def _storage(run, P):
    from .c01 import _persist
    from .c01 import _alias
    _alias(run, "C01.persist", "C13.storage", lambda: _persist(run, P))
    isv = P.func("dagrt.utils.is_state_variable")
    bad = [n for n in ast.walk(isv.node) if isinstance(n, ast.Attribute)
           and n.attr in RIGHT_ANCHORED]
    run.ob("C13.storage", isv, bad[0] if bad else isv.node, not bad,
           construct="is_state_variable uses left-anchored tests only"
                     + (f" (found .{bad[0].attr})" if bad else ""),
           why="the persistent class of a name is decided by its leading tag; a test "
               "anchored at the right end misclassifies names whose NAME part "
               "contains the separator, and the variable silently becomes per-step")
    isv.substring_tests = []
    isv.regex_problem = None
    exact, prefixes = state_classes(isv)
    if isv.regex_problem:
        run.ob("C13.storage", isv, isv.node, False,
               construct=f"is_state_variable reads the leading tag of the name ({isv.regex_problem})",
               why="a persistent variable whose name contains a second tag is classified "
                   "per-step: fusion renames it, the generators keep it in locals")
    run.ob("C13.storage", isv, isv.node, not isv.substring_tests,
           construct="is_state_variable: membership tests are against collections of names"
                     + (f" (found: name in {isv.substring_tests[0]!r}, a substring test)"
                        if isv.substring_tests else ""),
           why="'in' against a string matches every substring: temporaries called 't', "
               "'dt' or 'd' become persistent, survive a failed step and are stored on "
               "the generated object")
    # names the interpreter's set_up stores
    su = P.func("dagrt.exec_numpy.NumpyInterpreter.set_up")
    stored_exact, stored_prefix = set(), set()
    for n in ast.walk(su.node):
        if isinstance(n, ast.Subscript) and dotted(n.value) == "self.context" \
                and isinstance(n.ctx, ast.Store):
            s = string_value(n.slice)
            if s is not None:
                stored_exact.add(s)
            elif isinstance(n.slice, ast.BinOp) and string_value(n.slice.left):
                stored_prefix.add(string_value(n.slice.left))
    if not bad and not (exact or prefixes):
        raise AnalysisError("is_state_variable: classification tests not recognised")
    covered = {n_ for n_ in stored_exact if n_ in exact or any(n_.startswith(p_) for p_ in prefixes)}
    ok = stored_exact <= covered and stored_prefix <= prefixes and not bad
    whole = sorted({"<t>", "<dt>"} & prefixes)
    run.ob("C13.storage", isv, isv.node, not whole,
           construct="'<t>' and '<dt>' are persistent as whole names only"
                     + (f" (accepted as prefixes: {whole})" if whole else ""),
           why="a temporary called '<dt>_prev' or '<t>0' is per-step by the identifier "
               "conventions; classified by prefix it is kept on the stepper, survives a failed "
               "step and becomes a component of the Fortran state type")
    run.ob("C13.storage", isv, isv.node, ok,
           construct=f"exact {sorted(exact)} / prefixes {sorted(prefixes)} cover what "
                     f"set_up() stores: {sorted(stored_exact)} / {sorted(stored_prefix)}",
           why="state handed to set_up must be classified persistent")


def _memo(run, P):
    f = P.func(f"{UTILS}.KeyToUniqueNameMap.get_or_make_name_for_key")
    tries = [n for n in ast.walk(f.node) if isinstance(n, ast.Try)]
    ok_hit = ok_store = False
    if tries:
        t = tries[0]
        from ..engine.match import leaves_with
        ok_hit = leaves_with(t.body, ast.Return, "self._dict[key]")
        for h in t.handlers:
            if h.type is not None and "KeyError" in ast.unparse(h.type):
                src = [ast.unparse(s) for s in h.body]
                store = [i for i, s in enumerate(src) if s.startswith("self._dict[key] = ")]
                ret = [i for i, s in enumerate(src) if s.startswith("return ")]
                if store and ret and store[0] < ret[0]:
                    stored = src[store[0]].split("= ", 1)[1]
                    ok_store = src[ret[0]] == f"return {stored}"
    else:
        src = ast.unparse(f.node)
        ok_hit = "if key in self._dict" in src and "return self._dict[key]" in src
        ok_store = "self._dict[key] = " in src
    run.ob("C13.memo", f, f.node, ok_hit,
           construct="present key -> return self._dict[key]",
           why="the same identifier on every later lookup")
    run.ob("C13.memo", f, f.node, ok_store,
           construct="absent key -> store the new name under the same key, then return it",
           why="a name returned without being stored is generated afresh next time")
    init = P.func(f"{UTILS}.KeyToUniqueNameMap.__init__")
    # pre-seeded identifiers are made known to the generator in use, own or passed in
    from ..engine.cfg import CFG, walk_fragment
    gi = CFG(init.node)
    st = init.params[1]
    gen = init.params[4] if len(init.params) > 4 else "name_generator"
    regs = [n for n in gi.nodes if n.kind == "for" and norm(n.ast.iter) in (f"{st}.values()",)
            and any(isinstance(x, ast.Call) and dotted(x.func) == f"{gen}.add_name"
                    for x in ast.walk(n.ast))]
    wrap = [n for n in gi.nodes if n.kind == "stmt" and isinstance(n.ast, ast.Assign)
            and any(dotted(t) == "self._generator" for t in n.ast.targets)]
    ok = bool(regs) and bool(wrap) and not gi.always_preceded(wrap, regs)
    run.ob("C13.memo", init, regs[0].ast if regs else init.node, ok,
           construct=f"for <name> in {st}.values(): {gen}.add_name(<name>) on every path to the "
                     f"generator's use, whichever generator it is",
           why="registered only with a generator the map creates itself, the predefined "
               "names of a map that shares a generator (dagrt_t, dagrt_dt of the Fortran "
               "global map) can be handed out a second time")
    src = ast.unparse(init.node)
    run.ob("C13.memo", init, init.node, "self._dict = dict(start)" in src,
           construct="the start table is copied (self._dict = dict(start))",
           why="sharing the caller's dict lets one generator's names leak into the next")
    # caches written on the local path must be reset by clear_locals
    for cls_fq in ("dagrt.codegen.python.PythonNameManager",):
        C = P.cls(cls_fq)
        cl = C.methods.get("clear_locals")
        reset = set()
        for n in ast.walk(cl.node):
            if isinstance(n, ast.Assign):
                for t in n.targets:
                    d = dotted(t)
                    if d and d.startswith("self."):
                        reset.add(d)
            if isinstance(n, ast.Call) and isinstance(n.func, ast.Attribute) \
                    and n.func.attr == "clear":
                d = dotted(n.func.value)
                if d:
                    reset.add(d)
        local_path = [C.methods.get("__getitem__"), C.methods.get("name_local")]
        touched = set()
        for m_ in local_path:
            if m_ is None:
                continue
            for n in ast.walk(m_.node):
                if isinstance(n, ast.Subscript) and isinstance(n.ctx, ast.Store):
                    d = dotted(n.value)
                    if d and d.startswith("self."):
                        touched.add(d)
                if isinstance(n, ast.Call) and isinstance(n.func, ast.Attribute) \
                        and n.func.attr in ("get_or_make_name_for_key", "setdefault", "update", "add"):
                    d = dotted(n.func.value)
                    if d and d.startswith("self.") and m_.name == "name_local":
                        touched.add(d)
        for a in sorted(touched):
            run.ob("C13.memo", cl, cl.node, a in reset,
                   construct=f"{a} (written on the local lookup path) is reset by clear_locals",
                   why="a cache that survives clear_locals hands a later phase the "
                       "identifier of an earlier phase's variable while the fresh "
                       "local map gives the same identifier to another name")


def _refcount(run, P):
    from .util import split_by
    f = P.func("dagrt.codegen.fortran.FortranNameManager.name_refcount")
    nm = f.params[1]

    def is_isv(t):
        return t.startswith("is_state_variable(")

    _, wt, wf = split_by(f.node, is_isv, kinds=(ast.Return,))
    ok_state = bool(wt) and all(any(isinstance(x, ast.Call) and dotted(x.func) == "self.name_global"
                                    and x.args and dotted(x.args[0]) == nm for x in ast.walk(r_))
                                for r_ in wt)
    ok_local = bool(wf) and all(any(isinstance(x, ast.Call) and dotted(x.func) == "self.name_local"
                                    for x in ast.walk(r_)) for r_ in wf)
    run.ob("C13.shared", f, wt[0] if wt else f.node, ok_state and ok_local,
           construct="name_refcount: persistent -> built on self.name_global(<name>), per-step -> "
                     "through self.name_local(...)",
           why="the reference count of a variable is named after the variable's *unique* "
               "identifier: derived from the sanitised name alone, '<p>y^' and '<p>y*' (or "
               "'<p>K' and '<p>k') share one count component")


# what carries identifiers of the current phase: the manager's answers and text printed with them
SOURCES = ("self._name_manager", "self._expr_mapper(", "self._expr_mapper.rec(", "self._expr(")


def _no_consumer_cache(run, P):
    """Classes that hold a name manager do not remember its answers: the answers
    change when the manager's local map is reset."""
    n = 0
    for modname in ("dagrt.codegen.expressions", "dagrt.codegen.python"):
        m = P.module(modname)
        for c in m.classes.values():
            if c.name.endswith("NameManager"):
                continue
            holds = any(isinstance(x, ast.Attribute) and x.attr == "_name_manager"
                        for meth in c.methods.values() for x in ast.walk(meth.node))
            if not holds:
                continue
            bad = []
            for meth in c.methods.values():
                tainted = set()
                for x in ast.walk(meth.node):
                    if isinstance(x, ast.Assign) and len(x.targets) == 1 and isinstance(x.targets[0], ast.Name) \
                            and any(k_ in ast.unparse(x.value) for k_ in SOURCES):
                        tainted.add(x.targets[0].id)
                for x in ast.walk(meth.node):
                    if isinstance(x, ast.Assign) and any(
                            isinstance(t, ast.Subscript) and (dotted(t.value) or "").startswith("self.")
                            for t in x.targets):
                        v = ast.unparse(x.value)
                        if any(k_ in v for k_ in SOURCES) or any(
                                isinstance(y, ast.Name) and y.id in tainted for y in ast.walk(x.value)):
                            bad.append((meth, x))
            # a table that is emptied wherever the manager's local map is reset lives exactly
            # as long as the answers it holds
            resets = [meth for meth in c.methods.values()
                      if any(isinstance(x, ast.Call) and (dotted(x.func) or "").endswith("_name_manager.clear_locals")
                             for x in ast.walk(meth.node))]

            def emptied(meth, table):
                return any((isinstance(x, ast.Call) and isinstance(x.func, ast.Attribute)
                            and x.func.attr == "clear" and dotted(x.func.value) == table)
                           or (isinstance(x, ast.Assign) and isinstance(x.value, ast.Dict) and not x.value.keys
                               and any(dotted(t) == table for t in x.targets))
                           for x in ast.walk(meth.node))
            bad = [(meth, x) for meth, x in bad
                   if not (resets and all(emptied(r_, dotted(t.value)) for r_ in resets
                                          for t in x.targets if isinstance(t, ast.Subscript)))]
            n += 1
            run.ob("C13.memo", c, bad[0][1] if bad else c.node, not bad,
                   construct=f"{c.name} keeps no table of identifiers it obtained from the name manager"
                             + (f" (found in {bad[0][0].name}: {norm(bad[0][1], 60)})" if bad else ""),
                   why="emit_def_begin resets the local map for every phase: an identifier "
                       "remembered from an earlier phase is used for reads while the fresh "
                       "map gives assignment targets another one")
    if n == 0:
        raise AnalysisError("no consumer of the Python name manager found")


def _shared(run, P):
    # an identifier that was handed out stays taken: nothing in the generators reaches
    # into a name generator's books to take names or counters out again
    # (the counters only say where the search for a free name starts; what is free is
    # decided by the set of existing names)
    books = ("existing_names",)
    takers = []
    n_scanned = 0
    for m in P.repo_modules():
        if not m.name.startswith("dagrt.codegen"):
            continue
        for fn in m.functions.values():
            n_scanned += 1
            for x in ast.walk(fn.node):
                tgt = None
                if isinstance(x, ast.Call) and isinstance(x.func, ast.Attribute) \
                        and x.func.attr in ("discard", "remove", "clear", "pop", "popitem",
                                            "difference_update", "intersection_update") \
                        and isinstance(x.func.value, ast.Attribute) and x.func.value.attr in books:
                    tgt = x
                elif isinstance(x, ast.Delete) and any(
                        isinstance(z, ast.Attribute) and z.attr in books
                        for t in x.targets for z in ast.walk(t)):
                    tgt = x
                elif isinstance(x, (ast.Assign, ast.AugAssign)) and any(
                        isinstance(t, ast.Attribute) and t.attr in books
                        for t in (x.targets if isinstance(x, ast.Assign) else [x.target])):
                    tgt = x
                if tgt is not None:
                    # taken out for the length of one request and put back in a finally
                    # clause of the same function: the names stay taken for everybody else
                    arg_ = norm(tgt.args[0]) if isinstance(tgt, ast.Call) and tgt.args else None
                    restored = arg_ is not None and any(
                        isinstance(t_, ast.Try) and any(
                            isinstance(y, ast.Call) and isinstance(y.func, ast.Attribute)
                            and y.func.attr in ("update", "add") and isinstance(y.func.value, ast.Attribute)
                            and y.func.value.attr in books and y.args and norm(y.args[0]) == arg_
                            for b in t_.finalbody for y in ast.walk(b))
                        for t_ in ast.walk(fn.node))
                    if not restored:
                        takers.append((fn, tgt))
    run.ob("C13.shared", takers[0][0] if takers else P.module("dagrt.codegen.fortran"),
           takers[0][1] if takers else None, not takers,
           construct=f"no function of dagrt.codegen ({n_scanned} scanned) takes names or counters "
                     f"out of a name generator" + (f" (found {norm(takers[0][1], 60)})" if takers else ""),
           why="all Fortran identifiers of a module share one scope for the functions and one "
               "generator: a name that is forgotten is handed out a second time, for another "
               "variable or another function")
    F = P.cls("dagrt.codegen.fortran.FortranNameManager")
    init = F.methods["__init__"]
    gens = []
    for n in ast.walk(init.node):
        if isinstance(n, ast.Call) and dotted(n.func) == "KeyToUniqueNameMap":
            g = kwarg(n, "name_generator")
            gens.append(dotted(g) if g is not None else None)
    ok = len(gens) == 3 and len(set(gens)) == 1 and gens[0] is not None
    run.ob("C13.shared", init, init.node, ok,
           construct=f"three Fortran maps use name_generator={sorted(set(map(str, gens)))}",
           why="locals, globals and functions live in one Fortran scope; separate "
               "generators can hand out the same identifier twice")
    mu = F.methods["make_unique_fortran_name"]
    run.ob("C13.shared", mu, mu.node, "self.local_map.get_mapped_identifier_without_key" in ast.unparse(mu.node),
           construct="generated drtf_ names go through the shared generator",
           why="same scope")
    py = _forced_prefixes(P, "dagrt.codegen.python.PythonNameManager")
    pf = sorted(v[0] for v in py.values())
    overlap = [(a, b) for a in pf for b in pf if a != b and b.startswith(a)]
    run.ob("C13.shared", P.func("dagrt.codegen.python.PythonNameManager.__init__"), None,
           not overlap and len(set(pf)) == len(pf),
           construct=f"Python forced prefixes {pf} are pairwise non-overlapping",
           why="each Python map has its own generator; overlapping prefixes let two "
               "maps produce the same identifier")
    # start names do not fall under a forced prefix of another map
    starts = []
    for n in ast.walk(P.func("dagrt.codegen.python.PythonNameManager.__init__").node):
        if isinstance(n, ast.Call) and dotted(n.func) == "KeyToUniqueNameMap":
            st = kwarg(n, "start")
            if isinstance(st, ast.Dict):
                starts += [string_value(v) for v in st.values]
    bad = [s for s in starts for p in pf if s.startswith(p)]
    run.ob("C13.shared", P.func("dagrt.codegen.python.PythonNameManager.__init__"), None,
           not bad,
           construct=f"fixed names {starts} lie outside every forced prefix",
           why="a generated name could equal a fixed one")


def _reserved(run, P):
    m = P.module("dagrt.codegen.python")
    py = _forced_prefixes(P, "dagrt.codegen.python.PythonNameManager")
    gp = _segment(py["self._global_map"][0]) if "self._global_map" in py else None
    if gp is None:
        raise AnalysisError("python global prefix not found")
    attrs = set()
    import re
    for n in ast.walk(m.tree):
        if isinstance(n, ast.Constant) and isinstance(n.value, str):
            attrs |= set(re.findall(r"self\.([A-Za-z_][A-Za-z0-9_]*)", n.value))
    attrs.discard(gp)      # the forced-prefix literal itself
    bad = sorted(a for a in attrs if a.startswith(gp))
    run.ob("C13.reserved", m, None, not bad and len(attrs) >= 5,
           construct=f"{len(attrs)} attributes named in templates; none starts with {gp!r} {bad}",
           why="a generator-defined attribute could coincide with a user variable's identifier")
    f = P.func("dagrt.codegen.fortran.FortranNameManager.name_local")
    src = ast.unparse(f.node)
    run.ob("C13.reserved", f, f.node, "lploc_" in src and "dagrt_" in src,
           construct="Fortran locals: lploc_ unless dagrt_ (reserved for the generator)",
           why="user locals must not take generator-reserved names")
    # who decides that a name is the generator's own?
    by_spelling = [n for n in ast.walk(f.node) if isinstance(n, ast.Call)
                   and isinstance(n.func, ast.Attribute) and n.func.attr == "startswith"
                   and any(isinstance(x, ast.Name) and x.id == f.params[1] for x in ast.walk(n.func.value))
                   and n.args and (string_value(n.args[0]) or "").lower().startswith("dagrt")]
    how = norm(by_spelling[0]).replace(f.params[1] + ".", "<name>.", 1) if by_spelling else ""
    run.ob("C13.reserved", f, by_spelling[0] if by_spelling else f.node, not by_spelling,
           construct="FortranNameManager.name_local: names spelled dagrt_* are exempt from the user prefix"
                     + (f" (test: {how})" if how else ""),
           why="the exemption is meant for the generator's own variables but is decided by "
               "the spelling of the name: a user variable called dagrt_ierr, dagrt_state, "
               "dagrt_nan or dagrt_refcnt_<y> maps to exactly the identifier the generator "
               "reserves for itself")


def _python_variables(run, P):
    """Every variable the Python printer prints is an answer of the name manager: the
    Python generator has no names of its own making inside expressions, so a way
    past the manager lets a user name choose its identifier."""
    from .util import path_conditions
    C = P.cls("dagrt.codegen.expressions.PythonExpressionMapper")
    f = P.method(C, "map_variable")
    if f is None or f.module.trusted:
        raise AnalysisError("PythonExpressionMapper.map_variable not found in the repository")
    rets = [r for r in ast.walk(f.node) if isinstance(r, ast.Return) and r.value is not None]
    if not rets:
        raise AnalysisError("PythonExpressionMapper.map_variable: no return")

    def class_const(attr):
        for k in P.mro(C):
            if attr in getattr(k, "attrs", {}):
                return k.attrs[attr]
        return None
    def is_through(v, depth=0):
        if isinstance(v, ast.Name) and depth < 3:
            srcs = [a_.value for a_ in ast.walk(f.node) if isinstance(a_, ast.Assign)
                    and any(isinstance(t_, ast.Name) and t_.id == v.id for t_ in a_.targets)]
            return bool(srcs) and all(is_through(x, depth + 1) for x in srcs)
        if isinstance(v, ast.IfExp):
            return is_through(v.body, depth + 1) and is_through(v.orelse, depth + 1)
        return (isinstance(v, ast.Subscript) and (dotted(v.value) or "").endswith("_name_manager")) or (
            isinstance(v, ast.Call) and ".".join((dotted(v.func) or "").split(".")[:2]) == "self._name_manager") \
            or (isinstance(v, ast.Call) and (dotted(v.func) or "").startswith("super()."))

    for r in rets:
        v = r.value
        if is_through(v):
            run.ob("C13.reserved", f, r, True,
                   construct=f"{C.name}.map_variable ({f.qualname}): {norm(r, 60)} is an answer of the name manager",
                   why="held")
            continue
        through = (isinstance(v, ast.Subscript) and (dotted(v.value) or "").endswith("_name_manager")) or (
            isinstance(v, ast.Call) and ".".join((dotted(v.func) or "").split(".")[:2]) == "self._name_manager") \
            or (isinstance(v, ast.Call) and (dotted(v.func) or "").startswith("super()."))
        ok = through
        if not through:
            # unreachable for this class: guarded by a class attribute that is None here
            for t, pol in path_conditions(f.node, r):
                m_ = re.match(r"^self\.(\w+) is not None\b", t) if pol else re.match(r"^self\.(\w+) is None$", t) \
                    if pol is False else None
                if m_:
                    cv = class_const(m_.group(1))
                    if isinstance(cv, ast.Constant) and cv.value is None:
                        ok = True
                    elif cv is None:
                        raise AnalysisError(f"{f.qualname}: a return past the name manager is guarded by "
                                            f"self.{m_.group(1)}, which is no class constant")
        run.ob("C13.reserved", f, r, ok,
               construct=f"{C.name}.map_variable ({f.qualname}): {norm(r, 60)} is an answer of the name manager",
               why="a name printed as it is spelled (a prefix cut off, say) can be any identifier "
                   "the user likes: that of another variable, of a generator attribute, a keyword")


def _case_length(run, P):
    F = P.cls("dagrt.codegen.fortran.FortranNameManager")
    init = F.methods["__init__"]
    m = P.module("dagrt.codegen.fortran")
    n_maps = 0
    for n in ast.walk(init.node):
        if isinstance(n, ast.Call) and dotted(n.func) == "KeyToUniqueNameMap":
            n_maps += 1
            tf = kwarg(n, "key_translate_func")
            folds = False
            bounded = False
            if tf is not None:
                tgt = P.resolve_expr(init, tf)
                if isinstance(tgt, Func):
                    src = ast.unparse(tgt.node)
                    folds = any(k in src for k in (".lower()", ".upper()", ".casefold()"))
                    bounded = _has_length_bound(tgt)
            if tf is not None:
                tgt2 = P.resolve_expr(init, tf)
                if isinstance(tgt2, Func) and tgt2.fq != f"{UTILS}.make_identifier_from_name":
                    rets = [r_ for r_ in ast.walk(tgt2.node) if isinstance(r_, ast.Return)]
                    byp = [r_ for r_ in rets if r_.value is None or not any(
                        isinstance(y, ast.Call) and (dotted(y.func) or "").split(".")[-1]
                        == "make_identifier_from_name" for y in ast.walk(r_.value))]
                    # a shortcut is no by-pass where the sanitiser would hand the name back as
                    # it is: ASCII, an identifier, lower case, no leading underscore
                    from .util import path_conditions as _pc
                    p0 = tgt2.params[0]

                    def harmless(r_):
                        if dotted(r_.value) != p0:
                            return False
                        txt = " and ".join(t_ for t_, v_ in _pc(tgt2.node, r_) if v_) + " "
                        neg = " ".join(t_ for t_, v_ in _pc(tgt2.node, r_) if not v_)
                        return all(w_ in txt for w_ in (f"{p0}.isascii()", f"{p0}.isidentifier()",
                                                         f"{p0}.islower()")) and (
                            f"not {p0}.startswith('_')" in txt or f"{p0}.startswith('_')" in neg)
                    byp = [r_ for r_ in byp if not harmless(r_)]
                    run.ob("C13.charset", tgt2, byp[0] if byp else tgt2.node, bool(rets) and not byp,
                           construct=f"{tgt2.name}: every result comes out of make_identifier_from_name"
                                     + (f" (not: {norm(byp[0], 40)})" if byp else ""),
                           why="a shortcut for names that 'already are identifiers' by Python's "
                               "Unicode notion (str.isidentifier) lets non-ASCII letters through "
                               "to a target that accepts ASCII only")
            if not folds:
                # the case may be folded by a name generator of the repository's own instead
                # (its conflict test compares folded names): whether it also *records* every
                # name folded is a fact about pytools' hooks that this clause does not read
                for c_ in m.classes.values():
                    ic = c_.methods.get("is_name_conflicting")
                    if ic is not None and any(k in ast.unparse(ic.node) for k in (".lower()", ".upper()",
                                                                                   ".casefold()")) \
                            and any(isinstance(x, ast.Call) and dotted(x.func) == c_.name
                                    for x in ast.walk(init.node)):
                        # pytools records a name in two places (add_name and __call__), both of which
                        # call the hook _name_added afterwards: a generator that compares folded names
                        # records them folded in that hook, or in both places
                        U = P.cls("pytools.UniqueNameGenerator")
                        recorders = sorted(nm for nm, mm in U.methods.items() if any(
                            isinstance(x, ast.Call) and dotted(x.func) == "self.existing_names.add"
                            for x in ast.walk(mm.node)))
                        hook_called = all(any(isinstance(x, ast.Call) and dotted(x.func) == "self._name_added"
                                              for x in ast.walk(U.methods[nm].node)) for nm in recorders)
                        if not recorders or not hook_called:
                            raise AnalysisError("pytools.UniqueNameGenerator: where names are recorded is not read")

                        def folds_into_books(mm):
                            return mm is not None and any(
                                isinstance(x, ast.Call) and dotted(x.func) == "self.existing_names.add"
                                and any(k in ast.unparse(x) for k in (".lower()", ".upper()", ".casefold()"))
                                for x in ast.walk(mm.node))
                        covered = folds_into_books(c_.methods.get("_name_added")) or all(
                            folds_into_books(c_.methods.get(nm)) for nm in recorders)
                        run.ob("C13.case", c_, ic.node, covered,
                               construct=f"{c_.name} compares folded names and records every name folded: in "
                                         f"_name_added, or in each of {recorders}",
                               why="a generated name is entered by __call__, not by add_name: recorded with "
                                   "its capitals it is never seen as conflicting, and 'X' then 'x' get "
                                   "identifiers that differ in case only")
                        raise AnalysisError(f"FortranNameManager: case is folded by {c_.name}, not by the "
                                            "translate function; only the recording clause is decided")
            run.ob("C13.case", init, n, folds,
                   construct=f"{norm(n, 90)}: translate function folds case",
                   why="Fortran compares identifiers case-insensitively and the unique-"
                       "name generator does not: 'y' and 'Y' would map to one identifier")
    if n_maps != 3:
        raise AnalysisError("FortranNameManager: three maps expected")
    # length: anywhere on the path
    bounded = False
    for fq in ("dagrt.codegen.fortran.make_fortran_identifier_from_name",
               f"{UTILS}.make_identifier_from_name",
               f"{UTILS}.KeyToUniqueNameMap.get_or_make_name_for_key"):
        if P.has_func(fq) and _has_length_bound(P.func(fq)):
            bounded = True
    run.ob("C13.length", init, init.node, bounded,
           construct="FortranNameManager: no bound on identifier length on the name path",
           why="Fortran 2003 limits names to 63 characters: an 80-character IR name "
               "maps to an 86-character identifier that gfortran rejects")


def _translate_path(run, P):
    """Every name handed to the underlying unique-name generator went through the
    translation function the map was built with (which is where the Fortran
    manager folds case), whichever entry point was used."""
    m = P.module(UTILS)
    K = m.classes["KeyToUniqueNameMap"]
    init = K.methods["__init__"]
    if "key_translate_func" not in init.params or "name_generator" not in init.params:
        raise AnalysisError("KeyToUniqueNameMap.__init__: key_translate_func / name_generator expected")
    # roles of attributes: GEN raw generator, TR translate function, TGEN translating callable
    roles = {}          # (class name, attr) -> role
    prole = {("KeyToUniqueNameMap", "key_translate_func"): "TR",
             ("KeyToUniqueNameMap", "name_generator"): "GEN"}
    changed = True
    n_iter = 0
    while changed and n_iter < 6:
        changed = False
        n_iter += 1
        for c in m.classes.values():
            ci = c.methods.get("__init__")
            if ci is None:
                continue
            for s_ in ast.walk(ci.node):
                if not (isinstance(s_, ast.Assign) and len(s_.targets) == 1):
                    continue
                t = dotted(s_.targets[0])
                if not t or not t.startswith("self."):
                    continue
                v = s_.value
                role = None
                if isinstance(v, ast.Name) and (c.name, v.id) in prole:
                    role = prole[(c.name, v.id)]
                elif isinstance(v, ast.Call) and dotted(v.func) in m.classes:
                    w = m.classes[dotted(v.func)]
                    wi = w.methods.get("__init__")
                    if wi is not None:
                        for k, a in enumerate(v.args):
                            if isinstance(a, ast.Name) and (c.name, a.id) in prole and k + 1 < len(wi.params):
                                key = (w.name, wi.params[k + 1])
                                if prole.get(key) != prole[(c.name, a.id)]:
                                    prole[key] = prole[(c.name, a.id)]
                                    changed = True
                        role = "TGEN"
                if role and roles.get((c.name, t[5:])) != role:
                    roles[(c.name, t[5:])] = role
                    changed = True
    n = 0
    for c in m.classes.values():
        for name, f in sorted(c.methods.items()):
            for x in ast.walk(f.node):
                if not (isinstance(x, ast.Call) and x.args):
                    continue
                d = dotted(x.func)
                role = None
                if d and d.startswith("self.") and (c.name, d[5:]) in roles:
                    role = roles[(c.name, d[5:])]
                elif isinstance(x.func, ast.Name) and (c.name, x.func.id) in prole and name == "__init__":
                    role = prole[(c.name, x.func.id)]
                if role != "GEN":
                    continue
                n += 1
                arg = x.args[0]
                tr_calls = [y for y in ast.walk(arg) if isinstance(y, ast.Call) and (
                    (dotted(y.func) or "").startswith("self.") and roles.get((c.name, dotted(y.func)[5:])) == "TR"
                    or (isinstance(y.func, ast.Name) and prole.get((c.name, y.func.id)) == "TR"))]
                run.ob("C13.case", f, x, bool(tr_calls),
                       construct=f"{c.name}.{name}: the name handed to the generator is translated by "
                                 f"the map's own function ({norm(x, 60)})",
                       why="a path that sanitises with the module default instead skips what the "
                           "owner configured - the Fortran manager's case folding: 'rhs' and "
                           "'RHS' then get two identifiers that Fortran cannot tell apart")
    if n < 1:
        raise AnalysisError("KeyToUniqueNameMap: no call of the underlying name generator found")


def _no_prefill(run, P):
    """Names reserved for the generator are made known to the *generator*, never
    entered as keys of a map that user names are looked up in."""
    for cls_fq in ("dagrt.codegen.fortran.FortranNameManager", "dagrt.codegen.python.PythonNameManager"):
        C = P.cls(cls_fq)
        init = C.methods["__init__"]
        for s_ in ast.walk(init.node):
            if isinstance(s_, ast.Assign) and isinstance(s_.value, ast.Call) \
                    and dotted(s_.value.func) == "KeyToUniqueNameMap":
                st = kwarg(s_.value, "start", 0)
                ok = st is None or (isinstance(st, ast.Dict) and all(
                    isinstance(k, ast.Constant) and isinstance(k.value, str) and k.value.startswith("<")
                    for k in st.keys))
                run.ob("C13.reserved", init, s_, ok,
                       construct=f"{C.name}: {norm(s_.targets[0])} is pre-filled only with the generator's "
                                 f"own tagged names ({norm(st, 50) if st is not None else 'nothing'})",
                       why="a reserved identifier entered as a *key* is what a user variable of that "
                           "spelling is mapped to - without prefix, onto the reserved identifier itself")


def _maps_live(run, P):
    """A name map that shares a long-lived generator is never replaced or
    emptied: the generator would still reserve the forgotten identifiers, and
    the same IR name would get a new one."""
    for cls_fq in ("dagrt.codegen.fortran.FortranNameManager", "dagrt.codegen.python.PythonNameManager"):
        C = P.cls(cls_fq)
        init = C.methods["__init__"]
        maps = {}
        for s_ in ast.walk(init.node):
            if isinstance(s_, ast.Assign) and isinstance(s_.value, ast.Call) \
                    and dotted(s_.value.func) == "KeyToUniqueNameMap":
                maps[dotted(s_.targets[0])] = s_.value
        bad = []
        for name, f in sorted(C.methods.items()):
            if name == "__init__":
                continue
            for x in ast.walk(f.node):
                if isinstance(x, ast.Assign) and any(dotted(t) in maps for t in x.targets):
                    v = x.value
                    own_gen = isinstance(v, ast.Call) and dotted(v.func) == "KeyToUniqueNameMap" \
                        and kwarg(v, "name_generator") is None
                    if not own_gen:
                        bad.append((f, x, f"{name} re-binds {norm(x.targets[0])} to a map that shares "
                                          f"the manager's generator"))
                if isinstance(x, ast.Call) and isinstance(x.func, ast.Attribute) \
                        and x.func.attr in ("clear", "pop", "popitem") \
                        and any((dotted(x.func.value) or "").startswith(mp) for mp in maps):
                    bad.append((f, x, f"{name} empties {norm(x.func.value)}"))
        run.ob("C13.memo", bad[0][0] if bad else init, bad[0][1] if bad else init.node, not bad,
               construct=f"{C.name}: a map is replaced only together with its generator "
                         f"({bad[0][2] if bad else 'no re-binding of a map that shares a generator'})",
               why="after forgetting a key whose identifier the shared generator still reserves, "
                   "the next lookup of the same name returns another identifier: "
                   "dagrt_time_final becomes the undeclared dagrt_time_final_0 in the second "
                   "phase function")


def _has_length_bound(f: Func):
    for n in ast.walk(f.node):
        if isinstance(n, ast.Subscript) and isinstance(n.slice, ast.Slice) \
                and n.slice.upper is not None and n.slice.lower is None:
            return True
        if isinstance(n, ast.Compare) and any(isinstance(x, ast.Call) and dotted(x.func) == "len"
                                              for x in ast.walk(n)):
            return True
    return False


def check(run, P):
    run.do(_check_main, run, P)
    from . import generic
    generic.lints(run, P, "C13")
