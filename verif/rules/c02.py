"""C02 - recorded dependencies make every admissible schedule equal to program
order."""

from __future__ import annotations

import ast

from ..engine.cfg import CFG, walk_fragment
from ..engine.match import dotted, norm, func_body_stmts, string_value
from ..engine.srcmodel import AnalysisError

EXPLANATION = (
    "Symbolic set-algebra summary of CodeBuilder._add_statement plus CFG "
    "ordering/pairing rules on if_/else_/fresh_var_name. Decides: the "
    "depends_on stored in a new statement contains last-writer edges for "
    "every variable in R u C u {exec} u W (and all persistent names seen, for "
    "non-assignments, which also write {exec}) and readers-since-last-write "
    "edges for every written variable (RAW, WAW, WAR, barrier); map look-ups "
    "precede map updates; the writer map is updated for all written "
    "variables and the reader map accumulates (never overwrites) readers of "
    "read-but-not-written variables, readers being cleared only after they "
    "were added to depends_on; the appended statement is the copy carrying "
    "this id, condition and depends_on; seen names absorb R u W; the "
    "'assignment' class tuple lists exactly Assign and the AssignmentBase "
    "subclasses; the guard is the conjunction of the whole stack; if_ assigns "
    "a fresh flag before pushing it, pushes only that flag, pops after the "
    "yield and records the flag for else_ only after the block; else_ "
    "pushes the negation of that flag and clears it; fresh names are tested "
    "against and added to the seen set. Completeness of R and W themselves is "
    "C08 (shared). Does not decide: equality of executions.")

ASSUMPTIONS = [
    "_add_statement keeps the loop-over-set / map-get / add idioms the summary recognises (else exit 2)",
    "read/write sets are complete (C08)",
]

CB = "dagrt.language.CodeBuilder"


class Summary:
    """Abstract state of _add_statement."""

    def __init__(self):
        self.sets = {}          # local name -> frozenset of atoms
        self.dep = set()        # atoms like "WM[R]", "RM[W]"
        self.dep_name = None
        self.events = []        # (kind, node, info) in textual order


def _atoms_of_expr(e, S: Summary, P, func, cond_flag=None):
    """Abstract value of a set-valued expression."""
    if isinstance(e, ast.Name):
        if e.id in S.sets:
            return set(S.sets[e.id])
        raise AnalysisError(f"_add_statement: unknown set variable {e.id}")
    if isinstance(e, ast.BinOp) and isinstance(e.op, ast.BitOr):
        return _atoms_of_expr(e.left, S, P, func) | _atoms_of_expr(e.right, S, P, func)
    if isinstance(e, ast.Call):
        d = dotted(e.func)
        if d in ("set", "frozenset") and not e.args:
            return set()
        if d in ("set", "frozenset", "sorted", "list") and e.args:
            return _atoms_of_expr(e.args[0], S, P, func)
        if d == f"{S.roles['stmt']}.get_read_variables":
            return {"R"}
        if d == f"{S.roles['stmt']}.get_written_variables":
            return {"W"}
        if d == "get_variables" and e.args and dotted(e.args[0]) == S.roles["condition"]:
            return {"C"}
        if d == "get_variables" and e.args and dotted(e.args[0]) == f"{S.roles['stmt']}.condition":
            # the incoming statement still carries its default condition (True): the
            # guard being built is in the local, so this contributes nothing
            return set()
    if isinstance(e, ast.SetComp) and len(e.generators) == 1:
        g = e.generators[0]
        if dotted(g.iter) == "self._seen_var_names" and len(g.ifs) == 1 \
                and isinstance(g.ifs[0], ast.Call) \
                and dotted(g.ifs[0].func) == "is_state_variable" \
                and isinstance(e.elt, ast.Name) and isinstance(g.target, ast.Name) \
                and e.elt.id == g.target.id:
            return {"S"}
    if isinstance(e, ast.Set):
        out = set()
        for x in e.elts:
            if dotted(x) == "self._EXECUTION_STATE":
                out.add("X")
            else:
                raise AnalysisError(f"_add_statement: set element {norm(x)}")
        return out
    raise AnalysisError(f"_add_statement: set expression not recognised: {norm(e)}")


def _tag(atoms, flag):
    return {f"NA:{a}" if flag and not a.startswith("NA:") else a for a in atoms}


def _roles(f):
    stmt = f.params[1]
    sid = None
    for s_ in func_body_stmts(f.node):
        if isinstance(s_, ast.Assign) and isinstance(s_.value, ast.Call) \
                and dotted(s_.value.func) == "self.next_statement_id" \
                and isinstance(s_.targets[0], ast.Name):
            sid = s_.targets[0].id
    if sid is None:
        raise AnalysisError("_add_statement: statement id variable not found")
    return {"stmt": stmt, "stmt_id": sid, "condition": _cond_var(f)}


def summarise(P):
    f = P.func(f"{CB}._add_statement")
    S = Summary()
    S.roles = _roles(f)
    na_name = None
    assign_tuple = None

    def handle(stmts, na):
        nonlocal na_name, assign_tuple
        for s in stmts:
            if isinstance(s, (ast.ImportFrom, ast.Import, ast.Pass)):
                continue
            if isinstance(s, ast.Expr) and isinstance(s.value, ast.Constant):
                continue
            if isinstance(s, ast.Assign) and len(s.targets) == 1 \
                    and isinstance(s.targets[0], ast.Name):
                name = s.targets[0].id
                v = s.value
                if isinstance(v, ast.Constant) and name not in S.sets \
                        and name not in S.roles.values():
                    # a constant bound to a name the summary does not track: if it
                    # were used in a set expression later, that expression would
                    # not be recognised and the analysis would stop there
                    continue
                # is_non_assignment = not isinstance(stmt, (A, B, C))
                if isinstance(v, ast.UnaryOp) and isinstance(v.op, ast.Not) \
                        and isinstance(v.operand, ast.Call) \
                        and dotted(v.operand.func) == "isinstance":
                    na_name = name
                    assign_tuple = v.operand.args[1]
                    S.events.append(("na", s, None))
                    continue
                role = [r for r, nm in S.roles.items() if nm == name]
                if role and not (isinstance(v, ast.Call) and dotted(v.func) in ("set", "frozenset")):
                    S.events.append((f"bind:{role[0]}", s, None))
                    continue
                try:
                    S.sets[name] = frozenset(_tag(_atoms_of_expr(v, S, P, f), na))
                    if not S.sets[name] and dotted(v.func if isinstance(v, ast.Call) else v) in ("set", "frozenset"):
                        S.dep_name = S.dep_name or name
                    continue
                except AnalysisError:
                    raise
            if isinstance(s, ast.AugAssign) and isinstance(s.target, ast.Name) \
                    and isinstance(s.op, ast.BitOr) and s.target.id in S.sets:
                S.sets[s.target.id] = S.sets[s.target.id] | frozenset(
                    _tag(_atoms_of_expr(s.value, S, P, f), na))
                continue
            if isinstance(s, ast.AugAssign) and isinstance(s.target, ast.Name) \
                    and isinstance(s.op, ast.Sub) and s.target.id in S.sets:
                # names are taken out of a tracked set in place: what is left is a part of
                # each class it held (written 'R-' for a part of the reads)
                S.sets[s.target.id] = frozenset(a + "-" for a in S.sets[s.target.id])
                S.events.append(("minus", s, s.target.id))
                continue
            if isinstance(s, ast.AugAssign) and dotted(s.target) == "self._seen_var_names":
                S.events.append(("seen", s, frozenset(_atoms_of_expr(s.value, S, P, f))))
                continue
            if isinstance(s, ast.Expr) and isinstance(s.value, ast.Call):
                c = s.value
                d = dotted(c.func)
                if d and d.endswith(".add") and d[:-4] in S.sets and c.args:
                    if dotted(c.args[0]) == "self._EXECUTION_STATE":
                        S.sets[d[:-4]] = S.sets[d[:-4]] | frozenset(_tag({"X"}, na))
                        continue
                if d == "self.statements.append":
                    pass
                if d == "self.statements.append":
                    S.events.append(("append", s, dotted(c.args[0]) if c.args else None))
                    continue
            if isinstance(s, ast.If):
                t = s.test
                if isinstance(t, ast.Name) and t.id == na_name:
                    handle(s.body, True)
                    if s.orelse:
                        raise AnalysisError("_add_statement: else branch of non-assignment test")
                    continue
                if "_conditional_expression_stack" in ast.unparse(t) or \
                        any("_conditional_expression_stack" in ast.unparse(x) for x in s.orelse):
                    S.events.append(("condition", s, None))
                    continue
            if isinstance(s, ast.For):
                _loop(s, S, P, f)
                continue
            raise AnalysisError(
                f"_add_statement: statement not understood by the summary "
                f"(line {s.lineno}): {norm(s, 100)}")

    handle(f.node.body, False)
    return f, S, na_name, assign_tuple


def _loop(lp, S, P, f):
    if not isinstance(lp.target, ast.Name):
        raise AnalysisError("_add_statement: loop target")
    v = lp.target.id
    dom = frozenset(_atoms_of_expr(lp.iter, S, P, f))
    body_src = [ast.unparse(s) for s in lp.body]
    lookups = {}     # local name -> map
    filt = None
    info = {"dom": dom, "adds": [], "wm_update": False, "rm_update": None,
            "clear_after_add": None, "filter": None, "node": lp}
    added_from = set()
    for i, s in enumerate(lp.body):
        if isinstance(s, ast.Assign) and len(s.targets) == 1 \
                and isinstance(s.targets[0], ast.Name) and isinstance(s.value, ast.Call):
            d = dotted(s.value.func)
            if d in ("self._writer_map.get", "self._reader_map.get") and s.value.args \
                    and dotted(s.value.args[0]) == v:
                lookups[s.targets[0].id] = "WM" if "writer" in d else "RM"
                continue
        if isinstance(s, ast.If):
            t = ast.unparse(s.test)
            # if writer is not None: depends_on.add(writer)
            names = [n for n in lookups if n in t]
            if names and len(s.body) == 1:
                c = s.body[0]
                if isinstance(c, ast.Expr) and isinstance(c.value, ast.Call) \
                        and dotted(c.value.func) in (f"{S.dep_name}.add",) \
                        and dotted(c.value.args[0]) == names[0] \
                        and t in (f"{names[0]} is not None", names[0]):
                    info["adds"].append(lookups[names[0]])
                    added_from.add(names[0])
                    continue
            # if var in written_variables: continue
            if isinstance(s.test, ast.Compare) and len(s.test.ops) == 1 \
                    and isinstance(s.test.ops[0], ast.In) and dotted(s.test.left) == v \
                    and isinstance(s.test.comparators[0], ast.Name) \
                    and len(s.body) == 1 and isinstance(s.body[0], ast.Continue):
                info["filter"] = frozenset(S.sets.get(s.test.comparators[0].id, ()))
                continue
        if isinstance(s, ast.AugAssign) and dotted(s.target) == S.dep_name \
                and isinstance(s.op, ast.BitOr) and dotted(s.value) in lookups:
            info["adds"].append(lookups[dotted(s.value)])
            added_from.add(dotted(s.value))
            continue
        if isinstance(s, ast.Expr) and isinstance(s.value, ast.Call):
            c = s.value
            d = dotted(c.func)
            if d and d.endswith(".clear") and d[:-6] in lookups:
                info["clear_after_add"] = d[:-6] in added_from
                continue
            if d == f"{S.dep_name}.update" and c.args and dotted(c.args[0]) in lookups:
                info["adds"].append(lookups[dotted(c.args[0])])
                added_from.add(dotted(c.args[0]))
                continue
            # self._reader_map.setdefault(var, set()).add(stmt_id)
            if isinstance(c.func, ast.Attribute) and c.func.attr == "add" \
                    and isinstance(c.func.value, ast.Call) \
                    and dotted(c.func.value.func) == "self._reader_map.setdefault" \
                    and dotted(c.func.value.args[0]) == v and dotted(c.args[0]) == S.roles["stmt_id"]:
                info["rm_update"] = "accumulate"
                continue
        if isinstance(s, ast.Assign) and len(s.targets) == 1 \
                and isinstance(s.targets[0], ast.Subscript) \
                and dotted(s.targets[0].slice) == v:
            m = dotted(s.targets[0].value)
            if m == "self._writer_map" and dotted(s.value) == S.roles["stmt_id"]:
                info["wm_update"] = True
                continue
            if m == "self._reader_map":
                # overwrite unless it visibly keeps the old readers
                keeps = "self._reader_map" in ast.unparse(s.value)
                info["rm_update"] = "accumulate" if keeps else "overwrite"
                info["rm_node"] = s
                continue
        if isinstance(s, ast.Assign) and isinstance(s.value, ast.Constant) \
                and all(isinstance(t_, ast.Name) and t_.id not in lookups
                        and t_.id not in S.sets and t_.id != v for t_ in s.targets):
            continue
        raise AnalysisError(
            f"_add_statement: loop body statement not understood "
            f"(line {s.lineno}): {norm(s, 100)}")
    S.events.append(("loop", lp, info))


def _check_main(run, P):
    run.rule("C02.raw_waw", "depends_on contains the last writer of every variable "
             "in R u C u {exec} u W (plus all persistent names seen, for "
             "non-assignments, which also write {exec})", minimum=6)
    run.rule("C02.war", "depends_on contains the readers-since-last-write of every "
             "written variable", minimum=2)
    run.rule("C02.order", "map look-ups that feed depends_on precede the map updates",
             minimum=1)
    run.rule("C02.maps", "writer map updated for all written variables; reader map "
             "accumulates readers of read-but-not-written variables; readers are "
             "cleared only after being added to depends_on", minimum=4)
    run.rule("C02.stored", "the appended statement is the copy carrying this id, "
             "condition and depends_on; seen names absorb R u W", minimum=3)
    run.rule("C02.barrier", "the class tuple defining 'assignment' is exactly Assign "
             "plus the AssignmentBase subclasses", minimum=1)
    run.rule("C02.cond", "the guard of a new statement is the conjunction of the "
             "whole conditional stack", minimum=3)
    run.rule("C02.guard", "if_/else_: fresh flag assigned before it is pushed; only "
             "the flag is pushed; push/pop paired around the yield; the flag is "
             "recorded for else_ after the block; else_ pushes its negation and "
             "clears it", minimum=8)
    run.rule("C02.fresh", "fresh_var_name returns only names absent from the seen "
             "set and records them before returning", minimum=2)

    run.rule("C02.readsets", "the read/write sets that feed the maps cover what "
             "the interpreter touches and every collected name reaches the result "
             "(shared with C08.reads / C08.writes / C08.flow)", minimum=20)
    from . import c08, stmtmodel
    classes = stmtmodel.statement_classes(P)
    c08.reads_writes(run, P, classes, "C02.readsets", "C02.readsets")
    run.do(c08._flow, run, P, classes, "C02.readsets")
    run.do(c08._written_whole, run, P, classes, "C02.readsets")
    from .c01 import _alias
    _alias(run, "C08.mapper", "C02.readsets", lambda: c08._mapper_config(run, P))

    run.rule("C02.alias", "dependencies are recorded by name, so no two names may come to "
             "hold one mutable array: where element assignment changes an array in place, "
             "a whole-variable assignment stores a copy (both Python back ends)", minimum=2)
    run.do(_alias_rule, run, P)
    run.do(_whole_map_reduction, run, P)

    run.do(_guard_reads, run, P)
    f = run.do(edges, run, P)
    if f is None:
        f = P.func(f"{CB}._add_statement")
    run.do(_condition, run, P, f)
    run.do(_guard, run, P)
    run.do(_fresh, run, P)


COPIES = ("copy", "deepcopy", "array", "copy.copy", "copy.deepcopy", "np.array", "numpy.array",
          "np.copy", "numpy.copy")


def _alias_rule(run, P):
    why = ("after `b <- a` both names hold the same ndarray: a later `a[0] <- 5` also changes b, "
           "but the builder records no edge between that write and the readers of b, so "
           "`c <- b[0]` gives 1 or 5 depending on the admissible order chosen "
           "(a=array(3); a[0]=1; b=a; c=b[0]; a[0]=5)")
    # interpreter
    f = P.func("dagrt.exec_numpy.NumpyInterpreter.exec_Assign")
    st = f.params[1]
    whole, inplace = [], []
    for s_ in ast.walk(f.node):
        if not isinstance(s_, ast.Assign) or len(s_.targets) != 1:
            continue
        t = s_.targets[0]
        if isinstance(t, ast.Subscript) and dotted(t.value) == "self.context" \
                and norm(t.slice) == f"{st}.assignee":
            whole.append(s_)
        if isinstance(t, ast.Subscript) and isinstance(t.value, ast.Subscript) \
                and dotted(t.value.value) == "self.context":
            inplace.append(s_)
    if not whole:
        raise AnalysisError("exec_Assign: whole-variable store not found")
    mv = P.func("dagrt.expression.EvaluationMapper.map_variable")
    fresh_lookup = all(
        isinstance(r.value, ast.Call) and (dotted(r.value.func) or "").split(".")[-1] in ("copy", "deepcopy")
        for r in ast.walk(mv.node) if isinstance(r, ast.Return) and r.value is not None
        and "context" in ast.unparse(r.value))

    def copied(v):
        return isinstance(v, ast.Call) and (
            (dotted(v.func) or "") in COPIES or (isinstance(v.func, ast.Attribute) and v.func.attr == "copy")
            or "copy" in (dotted(v.func) or "").lower())

    ok = not inplace or fresh_lookup or all(copied(s_.value) for s_ in whole)
    run.ob("C02.alias", f, whole[0], ok,
           construct="exec_Assign: the value stored under the assignee is not the object held "
                     "under another name (element assignment works in place)",
           why=why)
    # generated Python
    g = P.func("dagrt.codegen.python.CodeGenerator.emit_inst_Assign")
    tmpl = [x for x in ast.walk(g.node) if isinstance(x, ast.Call) and isinstance(x.func, ast.Attribute)
            and x.func.attr == "format" and isinstance(x.func.value, ast.Constant)
            and isinstance(x.func.value.value, str) and "=" in x.func.value.value]
    if not tmpl:
        raise AnalysisError("emit_inst_Assign: assignment template not found")
    text = tmpl[0].func.value.value
    rhs = text.split("=", 1)[1]
    ok = "copy" in rhs or any("copy" in ast.unparse(k.value) for k in tmpl[0].keywords)
    run.ob("C02.alias", g, tmpl[0], ok,
           construct=f"emit_inst_Assign: the emitted assignment {text!r} stores a copy of an array "
                     f"value (element assignment is emitted as in-place subscripting)",
           why=why)


def edges(run, P):
    """Dependency edges recorded by CodeBuilder._add_statement (abstract summary)."""
    f, S, na_name, assign_tuple = summarise(P)
    loops = [(n, i) for k, n, i in S.events if k == "loop"]
    if len(loops) < 4:
        raise AnalysisError(f"_add_statement: {len(loops)} map loops, expected 4")

    dep = set()
    for lp, info in loops:
        for m in info["adds"]:
            for a in info["dom"]:
                dep.add(f"{m}[{a}]")
    run.extra["depends_on_summary"] = sorted(dep)

    need_w = ["R", "C", "X", "W", "NA:S", "NA:X"]
    why_w = {
        "R": "a read may overtake the write that precedes it (RAW)",
        "C": "a guarded statement may run before its flag is assigned",
        "X": "a statement may overtake an earlier externally visible statement",
        "W": "two writes of one variable may be swapped (WAW)",
        "NA:S": "an externally visible statement may run before an earlier state update",
        "NA:X": "two externally visible statements may be swapped",
    }
    for a in need_w:
        run.ob("C02.raw_waw", f, f.node, f"WM[{a}]" in dep,
               construct=f"depends_on >= writer_map[{a}]", why=why_w[a],
               detail=f"summary={sorted(dep)}")
    for a in ["W", "NA:X"]:
        run.ob("C02.war", f, f.node, f"RM[{a}]" in dep,
               construct=f"depends_on >= reader_map[{a}]",
               why="a later write may overtake an earlier read (WAR)"
               if a == "W" else "an externally visible statement may overtake "
                                "statements that ran before it",
               detail=f"summary={sorted(dep)}")

    # order: lookup loops before update loops
    order = [(lp.lineno, bool(info["adds"]), bool(info["wm_update"] or info["rm_update"]))
             for lp, info in loops]
    last_lookup = max((ln for ln, a, u in order if a), default=0)
    first_update = min((ln for ln, a, u in order if u), default=10**9)
    mixed = any(a and u for _, a, u in order)
    run.ob("C02.order", f, f.node, last_lookup < first_update and not mixed,
           construct="all look-up loops textually precede all update loops",
           why="looking up after updating makes a statement depend on itself or "
               "miss the previous writer")

    wm = [(lp, i) for lp, i in loops if i["wm_update"]]
    ok = bool(wm) and all({"W", "NA:X"} <= set(i["dom"]) for _, i in wm)
    run.ob("C02.maps", f, wm[0][0] if wm else f.node, ok,
           construct="writer_map[v] = stmt_id for v in W u NA:{exec}",
           why="a write not recorded lets later readers miss it")
    rm = [(lp, i) for lp, i in loops if i["rm_update"]]
    ok = bool(rm) and all({"R", "C", "X", "NA:S"} <= set(i["dom"]) for _, i in rm)
    run.ob("C02.maps", f, rm[0][0] if rm else f.node, ok,
           construct="reader_map updated for v in R u C u {exec} u NA:S",
           why="a read not recorded lets a later write overtake it")
    for lp, i in rm:
        run.ob("C02.maps", f, i.get("rm_node", lp), i["rm_update"] == "accumulate",
               construct="reader_map[v] accumulates readers (setdefault(...).add)",
               why="overwriting keeps only the latest reader: with two independent "
                   "reads between two writes the earlier reader gets no WAR edge")
        ok = i["filter"] is not None and {"W"} <= set(i["filter"])
        run.ob("C02.maps", f, lp, ok,
               construct="reads of variables this statement also writes are not recorded",
               why="otherwise the next writer depends on a reader that precedes the write")
    cl = [(lp, i) for lp, i in loops if i["clear_after_add"] is not None]
    for lp, i in cl:
        run.ob("C02.maps", f, lp, i["clear_after_add"] is True,
               construct="readers.clear() only after depends_on |= readers",
               why="clearing first loses the WAR edges")

    # stored
    R = S.roles
    copies = [x for x in ast.walk(f.node) if isinstance(x, ast.Call)
              and dotted(x.func) == f"{R['stmt']}.copy"]
    ok = len(copies) == 1
    if ok:
        kws = {k.arg: k.value for k in copies[0].keywords}
        ok = dotted(kws.get("id")) == R["stmt_id"] and dotted(kws.get("condition")) == R["condition"] \
            and kws.get("depends_on") is not None \
            and S.dep_name in ast.unparse(kws["depends_on"]) \
            and set(kws) == {"id", "condition", "depends_on"}
    run.ob("C02.stored", f, copies[0] if copies else f.node, ok,
           why="the stored statement must carry exactly the computed edges and guard")
    app = [(n, i) for k, n, i in S.events if k == "append"]
    stored = None
    for s_ in func_body_stmts(f.node):
        if isinstance(s_, ast.Assign) and copies and s_.value is copies[0] \
                and isinstance(s_.targets[0], ast.Name):
            stored = s_.targets[0].id
    ok = len(app) == 1 and stored is not None and app[0][1] == stored
    # the append follows the copy
    run.ob("C02.stored", f, app[0][0] if app else f.node,
           ok and copies and app[0][0].lineno > copies[0].lineno,
           construct="self.statements.append(stmt) after stmt = stmt.copy(...)",
           why="appending the original loses id, guard and edges")
    seen = [(n, i) for k, n, i in S.events if k == "seen"]
    ok = bool(seen) and {"R", "W"} <= set(seen[0][1])
    run.ob("C02.stored", f, seen[0][0] if seen else f.node, ok,
           construct="_seen_var_names |= read u written",
           why="names not recorded can be handed out again by fresh_var_name and "
               "state variables are missed by later barriers")

    # stmt_id before use
    # barrier tuple
    lang = P.module("dagrt.language")
    base = P.cls("dagrt.language.AssignmentBase")
    expected = {c.name for c in P.subclasses(base, modules={"dagrt.language"})} | {"Assign"}
    got = set()
    if isinstance(assign_tuple, ast.Tuple):
        got = {dotted(e) for e in assign_tuple.elts}
    elif assign_tuple is not None:
        got = {dotted(assign_tuple)}
    if got == {"AssignmentBase", "Assign"}:
        got = expected
    run.ob("C02.barrier", f, assign_tuple if assign_tuple is not None else f.node,
           got == expected,
           construct=f"assignment classes {sorted(got)} vs hierarchy {sorted(expected)}",
           why="a statement kind wrongly treated as an assignment is no barrier; "
               "an assignment treated as barrier only costs parallelism")
    return f


def _cond_var(f):
    """The local holding the guard: the name passed as condition= to stmt.copy()."""
    for x in ast.walk(f.node):
        if isinstance(x, ast.Call) and isinstance(x.func, ast.Attribute) and x.func.attr == "copy":
            for k in x.keywords:
                if k.arg == "condition" and isinstance(k.value, ast.Name):
                    return k.value.id
    raise AnalysisError("_add_statement: condition= of the stored copy not found")


def _guard_reads(run, P):
    """What the guard reads is taken from the guard that is attached to the
    statement - not from a list kept beside it."""
    f = P.func(f"{CB}._add_statement")
    # the expression stored as condition= of the statement
    conds = set()
    for x in ast.walk(f.node):
        if isinstance(x, ast.keyword) and x.arg == "condition" and isinstance(x.value, ast.Name):
            conds.add(x.value.id)
    if not conds:
        raise AnalysisError("_add_statement: condition= of the stored statement not found")
    cv = sorted(conds)[0]
    hits = []
    for x in ast.walk(f.node):
        src = None
        if isinstance(x, ast.AugAssign) and isinstance(x.op, ast.BitOr):
            src = x.value
        elif isinstance(x, ast.Call) and isinstance(x.func, ast.Attribute) and x.func.attr == "update" and x.args:
            src = x.args[0]
        elif isinstance(x, ast.Assign) and isinstance(x.value, ast.BinOp) and isinstance(x.value.op, ast.BitOr):
            src = x.value
        if src is None:
            continue
        # directly, or through a local that holds get_variables(<guard>) and nothing else
        holders = {t_.id for s_ in ast.walk(f.node) if isinstance(s_, ast.Assign)
                   and isinstance(s_.value, ast.Call)
                   and (dotted(s_.value.func) or "").split(".")[-1] == "get_variables"
                   and s_.value.args and dotted(s_.value.args[0]) == cv
                   for t_ in s_.targets if isinstance(t_, ast.Name)
                   and sum(1 for z in ast.walk(f.node) if isinstance(z, ast.Name)
                           and z.id == t_.id and isinstance(z.ctx, ast.Store)) == 1}
        for y in ast.walk(src):
            if isinstance(y, ast.Call) and (dotted(y.func) or "").split(".")[-1] == "get_variables" \
                    and y.args and dotted(y.args[0]) == cv:
                hits.append(x)
            if isinstance(y, ast.Name) and y.id in holders:
                hits.append(x)
    if not hits:
        kept = [x for x in ast.walk(f.node) if isinstance(x, (ast.AugAssign, ast.Call))
                and any(isinstance(y, ast.Attribute) and dotted(y.value) == "self"
                        and ("flag" in y.attr or "guard" in y.attr or "cond" in y.attr)
                        and "stack" not in y.attr.replace("_names", "") or (
                            isinstance(y, ast.Attribute) and dotted(y.value) == "self" and y.attr.endswith("_names")
                            and y.attr != "_seen_var_names" and y.attr != "_seen_state_var_names")
                        for y in ast.walk(x))]
        if kept:
            # the names the guard reads are kept beside the guard (a second stack): right
            # exactly when every push and pop of the guard stack moves that one, too - a
            # pairing over if_ / else_ / end that this clause does not follow
            raise AnalysisError("_add_statement takes the guard's reads from names kept beside the "
                                "guard stack; not decided")
    run.ob("C02.cond", f, hits[0] if hits else f.node, bool(hits),
           construct=f"the read set of a new statement takes in get_variables({cv}), the guard "
                     f"it is given",
           why="a guard assembled from the stack of open blocks (if_ pushes the flag, else_ its "
               "negation) reads every flag in it: names kept in a second list that only some of "
               "the pushes feed leave a statement of an else block without an edge to the "
               "assignment of its flag")


def _condition(run, P, f):
    cv = _cond_var(f)
    stack = "self._conditional_expression_stack"
    from .util import path_conditions
    assigns = [s_ for s_ in ast.walk(f.node) if isinstance(s_, ast.Assign)
               and any(dotted(t_) == cv for t_ in s_.targets)]
    if not assigns:
        raise AnalysisError("_add_statement: guard construction not found")
    by_value = {}
    for a_ in assigns:
        by_value.setdefault(ast.unparse(a_.value), []).append(path_conditions(f.node, a_))
    want = [
        ("True", {(stack, False)}, "empty stack -> condition = True",
         "unguarded statements must run unconditionally"),
        (f"{stack}[0]", {(stack, True), (f"len({stack}) == 1", True)},
         "one entry -> condition = stack[0]", "single guard"),
        (f"LogicalAnd(tuple({stack}))", {(stack, True), (f"len({stack}) == 1", False)},
         "several entries -> LogicalAnd(tuple(stack))",
         "a nested block must be guarded by all enclosing guards, not only the innermost"),
    ]
    for value, conds, construct, why in want:
        got = by_value.get(value, [])
        ok = len(got) == 1 and got[0] == conds and len(assigns) == 3
        run.ob("C02.cond", f, assigns[0], ok, construct=construct, why=why)


def _condition_names(f):
    """Locals of if_ that hold the user's condition: assigned from the
    argument tuple, parse(...) of it, or Comparison(...)."""
    out = set()
    va = f.node.args.vararg.arg if f.node.args.vararg else None
    changed = True
    while changed:
        changed = False
        for s_ in func_body_stmts(f.node):
            if isinstance(s_, ast.Assign) and len(s_.targets) == 1 \
                    and isinstance(s_.targets[0], ast.Name) and s_.targets[0].id not in out:
                v = s_.value
                src = ast.unparse(v)
                if (va and src == f"{va}[0]") or (
                        isinstance(v, ast.Call) and dotted(v.func) == "parse" and v.args
                        and dotted(v.args[0]) in out) or (
                        isinstance(v, ast.Call) and dotted(v.func) == "Comparison"):
                    out.add(s_.targets[0].id)
                    changed = True
    return out


def _guard(run, P):
    f = P.func(f"{CB}.if_")
    g = CFG(f.node)
    stack = "self._conditional_expression_stack"
    slot = "self._last_if_block_conditional_expression"

    def find_stmt(pred):
        return [n for n in g.nodes if n.kind == "stmt" and pred(n.ast)]

    yields = find_stmt(lambda s: isinstance(s, ast.Expr) and isinstance(s.value, ast.Yield))
    pushes = find_stmt(lambda s: any(isinstance(x, ast.Call) and dotted(x.func) == f"{stack}.append"
                                     for x in walk_fragment(s)))
    pops = find_stmt(lambda s: any(isinstance(x, ast.Call) and dotted(x.func) == f"{stack}.pop"
                                   for x in walk_fragment(s)))
    fresh = find_stmt(lambda s: isinstance(s, ast.Assign) and isinstance(s.value, ast.Call)
                      and dotted(s.value.func) in ("self.fresh_var",))
    adds = find_stmt(lambda s: any(isinstance(x, ast.Call) and dotted(x.func) == "self._add_statement"
                                   for x in walk_fragment(s)))
    sets = find_stmt(lambda s: isinstance(s, ast.Assign) and any(dotted(t) == slot for t in s.targets))
    if not yields or not fresh:
        raise AnalysisError("if_: yield / fresh_var call not found")
    flags = {n.ast.targets[0].id for n in fresh if isinstance(n.ast.targets[0], ast.Name)}
    flag = fresh[0].ast.targets[0].id
    for fr in fresh:
        prefix = string_value(fr.ast.value.args[0]) if fr.ast.value.args else None
        run.ob("C02.guard", f, fr.ast, prefix == "<cond>",
               construct=norm(fr.ast),
               why="the flag must be a fresh '<cond>' variable (single-assignment rule)")
    # every push pushes a fresh flag
    for p in pushes:
        c = [x for x in walk_fragment(p.ast) if isinstance(x, ast.Call)
             and dotted(x.func) == f"{stack}.append"][0]
        run.ob("C02.guard", f, c, dotted(c.args[0]) in flags,
               construct=norm(c),
               why="pushing the condition expression itself (instead of a fresh "
                   "single-assignment flag) lets the block overwrite its own guard")
    for y in yields:
        ok = len(pushes) >= 1 and not g.always_preceded([y], pushes)
        run.ob("C02.guard", f, y.ast, ok,
               construct="a push precedes the yield on every path",
               why="statements of the block would be unguarded")
    # flag assignment statement added before the push
    flag_pushes = [p for p in pushes if any(
        isinstance(x, ast.Call) and dotted(x.func) == f"{stack}.append"
        and dotted(x.args[0]) in flags for x in walk_fragment(p.ast))]
    ok = bool(adds) and bool(flag_pushes) and not g.always_preceded(flag_pushes, adds)
    if adds and flag_pushes and not ok:
        after = g.reachable(flag_pushes, follow_exc=False)
        if not any(a_ in after for a_ in adds):
            # some path pushes a flag without assigning one (a flag of an earlier test of
            # the same condition is used again): when that is sound is not decided here
            raise AnalysisError("if_: a flag can be pushed without a flag assignment on the way "
                                "(re-use of an earlier flag); not decided")
    run.ob("C02.guard", f, adds[0].ast if adds else f.node, ok,
           construct="_add_statement(<flag assignment>) before the push",
           why="added after the push the flag assignment would be guarded by itself")
    # the flag assignment assigns the flag from the condition
    ok = False
    for s_ in func_body_stmts(f.node):
        if isinstance(s_, ast.Assign) and isinstance(s_.value, ast.Call) \
                and dotted(s_.value.func) == "Assign":
            kws = {k.arg: k.value for k in s_.value.keywords}
            cond_names = _condition_names(f)
            ok = dotted(kws.get("assignee")) == f"{flag}.name" \
                and dotted(kws.get("expression")) in cond_names
    run.ob("C02.guard", f, f.node, ok,
           construct=f"Assign(assignee={flag}.name, expression=condition)",
           why="the flag must hold the value of the condition at block entry")
    # pop after yield, slot set after pop
    bad = g.always_followed(yields, pops)
    run.ob("C02.guard", f, pops[0].ast if pops else f.node, bool(pops) and not bad,
           construct="pop after the yield on every normal path",
           why="the guard would leak onto statements after the block")
    if not sets:
        run.ob("C02.guard", f, f.node, False,
               construct=f"{slot} is recorded for else_",
               why="else_ has nothing to negate")
    for st in sets:
        ok = dotted(st.ast.value) in flags and not g.always_preceded([st], yields)
        run.ob("C02.guard", f, st.ast, ok,
               construct=f"{norm(st.ast)} only after the block body has run",
               why="set before the body, a nested if_ overwrites it and a following "
                   "else_ negates the inner flag instead of this one; recording "
                   "anything but the fresh flag lets the block change it")

    e = P.func(f"{CB}.else_")
    ge = CFG(e.node)
    ye = [n for n in ge.nodes if n.kind == "stmt" and isinstance(n.ast, ast.Expr)
          and isinstance(n.ast.value, ast.Yield)]
    pe = [n for n in ge.nodes if n.kind == "stmt" and any(
        isinstance(x, ast.Call) and dotted(x.func) == f"{stack}.append"
        for x in walk_fragment(n.ast))]
    if len(ye) != 1 or len(pe) != 1:
        raise AnalysisError("else_: yield / push not found")
    c = [x for x in walk_fragment(pe[0].ast) if isinstance(x, ast.Call)
         and dotted(x.func) == f"{stack}.append"][0]
    a = c.args[0]
    ok = isinstance(a, ast.Call) and dotted(a.func) == "LogicalNot" \
        and dotted(a.args[0]) == slot and not ge.always_preceded(ye, pe)
    run.ob("C02.guard", e, c, ok, construct=norm(c),
           why="the else block runs exactly when the flag of the preceding if_ is false")
    po = [n for n in ge.nodes if n.kind == "stmt" and any(
        isinstance(x, ast.Call) and dotted(x.func) == f"{stack}.pop"
        for x in walk_fragment(n.ast))]
    cl = [n for n in ge.nodes if n.kind == "stmt" and isinstance(n.ast, ast.Assign)
          and any(dotted(t) == slot for t in n.ast.targets)
          and isinstance(n.ast.value, ast.Constant) and n.ast.value.value is None]
    ok = bool(po) and not ge.always_followed(ye, po) and bool(cl) \
        and not ge.always_preceded(cl, ye)
    run.ob("C02.guard", e, po[0].ast if po else e.node, ok,
           construct="pop and clear the slot after the yield",
           why="a second else_ must not reuse the flag; the guard must not leak")
    asserts = [s for s in func_body_stmts(e.node) if isinstance(s, ast.Assert)
               and slot in ast.unparse(s.test)]
    run.ob("C02.guard", e, asserts[0] if asserts else e.node, bool(asserts),
           construct=f"assert {slot} is not None",
           why="else_ without a preceding if_ must not push not(None)")


def _fresh(run, P):
    f = P.func(f"{CB}.fresh_var_name")
    ok_test = ok_add = False
    site = f.node
    for n in ast.walk(f.node):
        if isinstance(n, ast.If) and isinstance(n.test, ast.Compare) \
                and isinstance(n.test.ops[0], ast.NotIn) \
                and dotted(n.test.comparators[0]) == "self._seen_var_names":
            v = dotted(n.test.left)
            ok_test = len(n.body) >= 1 and isinstance(n.body[-1], ast.Return) \
                and dotted(n.body[-1].value) == v
            ok_add = any(isinstance(s, ast.Expr) and isinstance(s.value, ast.Call)
                         and dotted(s.value.func) == "self._seen_var_names.add"
                         and dotted(s.value.args[0]) == v for s in n.body[:-1])
            site = n
    rets = [s for s in func_body_stmts(f.node) if isinstance(s, ast.Return)]
    # the builder may leave the job to a name generator object it keeps: that object has its
    # own books, so every name a statement reads or writes has to be entered there as well
    gen_ret = [r for r in rets if isinstance(r.value, ast.Call) and (dotted(r.value.func) or "").startswith("self.")
               and dotted(r.value.func).count(".") == 1 and not ok_test]
    if gen_ret and len(rets) == 1:
        gen = dotted(gen_ret[0].value.func)
        init = P.func(f"{CB}.__init__")
        made = any(isinstance(x, ast.Assign) and any(dotted(t_) == gen for t_ in x.targets)
                   and isinstance(x.value, ast.Call)
                   and (dotted(x.value.func) or "").split(".")[-1] == "UniqueNameGenerator"
                   for x in ast.walk(init.node))
        if not made:
            raise AnalysisError(f"fresh_var_name hands the request to {gen}, which is no "
                                f"UniqueNameGenerator made in __init__; not recognised")
        add = P.func(f"{CB}._add_statement")
        feeds = [x for x in ast.walk(add.node) if isinstance(x, ast.Call)
                 and dotted(x.func) in (f"{gen}.add_names", f"{gen}.add_name") and x.args]
        names_fed = {n_.id for x in feeds for n_ in ast.walk(x.args[0]) if isinstance(n_, ast.Name)}
        seen_src = set()
        for x in ast.walk(add.node):
            if isinstance(x, ast.AugAssign) and dotted(x.target) == "self._seen_var_names":
                seen_src |= {n_.id for n_ in ast.walk(x.value) if isinstance(n_, ast.Name)}
        ok_feed = bool(feeds) and bool(seen_src) and seen_src <= names_fed
        # ... or the set of seen names *is* the generator's own set: bound to it once, in
        # __init__, and only ever updated in place (|=, add, update) afterwards
        C_ = P.cls(CB)
        binds = [(m_, x) for m_ in C_.methods.values() for x in ast.walk(m_.node)
                 if isinstance(x, ast.Assign) and any(dotted(t_) == "self._seen_var_names" for t_ in x.targets)]
        shared = len(binds) == 1 and binds[0][0].name == "__init__" \
            and dotted(binds[0][1].value) == f"{gen}.existing_names"
        if shared and seen_src:
            ok_feed = True
        run.ob("C02.fresh", add, feeds[0] if feeds else add.node, ok_feed,
               construct=f"every name _add_statement records as seen ({sorted(seen_src)}) is also "
                         f"entered into {gen}" + ("" if feeds else " (no add_names call)"),
               why="the generator copies the names it is constructed with: a name that only "
                   "turns up later in a statement is unknown to it and is handed out again, "
                   "capturing the user's variable")
        run.ob("C02.fresh", f, gen_ret[0], True,
               construct=f"fresh names come from {gen}, which never repeats one",
               why="pytools.UniqueNameGenerator records what it hands out")
        return
    run.ob("C02.fresh", f, site, ok_test and len(rets) == 1,
           construct="return only under 'name not in self._seen_var_names'",
           why="a returned name that is already in use captures a user variable")
    run.ob("C02.fresh", f, site, ok_add,
           construct="self._seen_var_names.add(name) before returning it",
           why="the same name could be handed out twice")


def _whole_map_reduction(run, P):
    """The readers of a variable stay on record until that variable is overwritten: nothing
    in _add_statement takes readers out of the sets of *all* variables at once."""
    f = P.func(f"{CB}._add_statement")
    n = 0
    for lp in ast.walk(f.node):
        if not isinstance(lp, ast.For):
            continue
        it = lp.iter
        whole = isinstance(it, ast.Call) and isinstance(it.func, ast.Attribute) \
            and it.func.attr in ("values", "items") and dotted(it.func.value) == "self._reader_map"
        if not whole:
            continue
        n += 1
        tnames = {x.id for x in ast.walk(lp.target) if isinstance(x, ast.Name)}
        reduces = [x for x in ast.walk(lp) if (isinstance(x, ast.AugAssign) and isinstance(x.op, ast.Sub)
                                              and dotted(x.target) in tnames)
                   or (isinstance(x, ast.Call) and isinstance(x.func, ast.Attribute)
                       and x.func.attr in ("difference_update", "discard", "remove", "clear", "pop")
                       and dotted(x.func.value) in tnames)]
        run.ob("C02.maps", f, reduces[0] if reduces else lp, not reduces,
               construct=f"for {norm(lp.target)} in {norm(it)}: no reader set is reduced in a walk over the "
                         f"whole reader map",
               why="a reader r of x that the new statement happens to depend on is still a reader of x: "
                   "taken off x's record although the statement does not write x, the next writer of x "
                   "gets no edge to r and an admissible schedule overwrites x before r has read it")
    run.ob("C02.maps", f, f.node, True,
           construct=f"_add_statement: {n} walk(s) over the whole reader map examined", why="scan summary")


def check(run, P):
    run.do(_check_main, run, P)
    from . import generic
    generic.lints(run, P, "C02")
