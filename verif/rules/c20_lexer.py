"""C20 - the character-level tokeniser as a finite automaton.

The tokeniser is a loop over the characters of a line whose body consults a
few plain local variables (the quote state) and feeds two accumulators (the
current token, the list of tokens).  Nothing in that body depends on a
character beyond which *class* it falls into: a quote of either kind, the
escape character, white space, anything else, or one of the other literal
characters the source names.  The body is therefore interpreted abstractly,
one representative character per class, with the quote-state variables held
as concrete constants; that yields the transition table of a finite
automaton (state x class -> state, actions).  It is explored together with
the language's own notion of "inside a string literal" (a two-quote, one
escape reference automaton) and the product is searched for a reachable
step at which

  * a token is ended or discarded while the reference is inside a literal,
  * a character is not appended exactly once (blanks outside literals may be
    dropped),
  * at end of input an open literal is accepted, or a closed line is refused
    or loses its last token,
  * a blank after a non-empty token outside literals ends no token.

Each finding carries the shortest input that reaches it.  A loop body that
uses anything this interpreter does not model is an AnalysisError.
"""

from __future__ import annotations

import ast
from collections import deque

from ..engine.match import dotted, norm
from ..engine.srcmodel import AnalysisError, Func

NEXT = ("next",)      # the character fetched with next(): never inspected
TOKEN = ("token",)    # the joined current token


class _Stop(Exception):
    def __init__(self, kind):
        self.kind = kind


class Lexer:
    def __init__(self, t: Func):
        self.t = t
        node = t.node
        args = node.args.args
        if not args:
            raise AnalysisError(f"{t.qualname}: no parameters")
        self.line = args[0].arg
        self.defaults = {}
        for a, d in zip(reversed(args), reversed(node.args.defaults)):
            if not isinstance(d, ast.Constant):
                raise AnalysisError(f"{t.qualname}: default of {a.arg} is not a constant")
            self.defaults[a.arg] = d.value
        body = [s for s in node.body
                if not (isinstance(s, ast.Expr) and isinstance(s.value, ast.Constant))]
        loops = [i for i, s in enumerate(body) if isinstance(s, (ast.For, ast.While))]
        if len(loops) != 1 or not isinstance(body[loops[0]], ast.For):
            raise AnalysisError(f"{t.qualname}: no single character loop; splitter idiom "
                                f"not recognised")
        self.pre = body[:loops[0]]
        self.loop = body[loops[0]]
        self.post = body[loops[0] + 1:]
        self.index = None
        tgt, it_ = self.loop.target, self.loop.iter
        if isinstance(tgt, ast.Tuple) and len(tgt.elts) == 2 and all(
                isinstance(x, ast.Name) for x in tgt.elts) and isinstance(it_, ast.Call) \
                and dotted(it_.func) == "enumerate" and len(it_.args) == 1:
            # for position, character in enumerate(line): the position is never inspected
            self.index = tgt.elts[0].id
            tgt, it_ = tgt.elts[1], it_.args[0]
        if self.loop.orelse or not isinstance(tgt, ast.Name):
            raise AnalysisError(f"{t.qualname}: loop target / else clause")
        self.ch = tgt.id
        self.loop_iter = it_
        # accumulators and plain state
        self.acc = {}       # name -> "list" | "str"
        self.iter_name = None
        self.init = {}
        for s in self.pre:
            if not (isinstance(s, ast.Assign) and len(s.targets) == 1
                    and isinstance(s.targets[0], ast.Name)):
                raise AnalysisError(f"{t.qualname}: set-up statement {norm(s)!r}")
            name, v = s.targets[0].id, s.value
            if isinstance(v, ast.List) and not v.elts:
                self.acc[name] = "list"
            elif isinstance(v, ast.Constant) and v.value == "" and any(
                    isinstance(n, ast.AugAssign) and dotted(n.target) == name
                    for n in ast.walk(self.loop)):
                self.acc[name] = "str"
            elif isinstance(v, ast.Call) and dotted(v.func) == "iter" and len(v.args) == 1 \
                    and dotted(v.args[0]) == self.line:
                self.iter_name = name
            elif isinstance(v, ast.Constant) and (v.value is None or isinstance(v.value, (bool, str, int))):
                self.init[name] = v.value
            else:
                raise AnalysisError(f"{t.qualname}: set-up statement {norm(s)!r}")
        it = dotted(self.loop_iter)
        if it not in (self.line, self.iter_name):
            raise AnalysisError(f"{t.qualname}: the loop does not walk the line ({norm(self.loop.iter)})")
        self.can_next = it == self.iter_name and it is not None
        # output list = what is returned; current token = the other accumulator
        rets = [n for s in self.post for n in ast.walk(s) if isinstance(n, ast.Return)]
        if len(rets) != 1 or dotted(rets[0].value) not in self.acc:
            raise AnalysisError(f"{t.qualname}: 'return <token list>' not found")
        self.out = dotted(rets[0].value)
        others = [a for a in self.acc if a != self.out]
        if len(others) != 1:
            raise AnalysisError(f"{t.qualname}: current-token accumulator not identified")
        self.cur = others[0]
        # alphabet: literal characters named in the source
        self.literals = set()
        for n in ast.walk(node):
            if isinstance(n, ast.Constant) and isinstance(n.value, str):
                if n.value and len(n.value) <= 8 and not n.value.isalnum():
                    self.literals.update(n.value)

    # -- abstract evaluation ------------------------------------------------

    def _eval(self, e, env):
        if isinstance(e, ast.Constant):
            return e.value
        if isinstance(e, ast.Name):
            if e.id in env:
                return env[e.id]
            if e.id == self.cur:
                return ("acc", env["@nonempty"])
            if e.id == self.index:
                return ("index",)
            raise AnalysisError(f"{self.t.qualname}: reads {e.id}")
        if isinstance(e, ast.UnaryOp) and isinstance(e.op, ast.Not):
            return not self._truth(self._eval(e.operand, env))
        if isinstance(e, ast.BoolOp):
            is_and = isinstance(e.op, ast.And)
            v = None
            for x in e.values:
                v = self._eval(x, env)
                if self._truth(v) != is_and:
                    return v
            return v
        if isinstance(e, ast.Compare) and len(e.ops) == 1:
            a = self._eval(e.left, env)
            b = self._eval(e.comparators[0], env)
            for v in (a, b):
                if isinstance(v, tuple):
                    raise AnalysisError(f"{self.t.qualname}: compares {norm(e)}")
            op = e.ops[0]
            if isinstance(op, ast.Is):
                return (a is b) if (a is None or b is None or isinstance(a, bool)
                                    or isinstance(b, bool)) else self._unknown(e)
            if isinstance(op, ast.IsNot):
                return (a is not b) if (a is None or b is None or isinstance(a, bool)
                                        or isinstance(b, bool)) else self._unknown(e)
            if isinstance(op, ast.Eq):
                return a == b
            if isinstance(op, ast.NotEq):
                return a != b
            if isinstance(op, (ast.In, ast.NotIn)):
                if not isinstance(b, str) or not isinstance(a, str):
                    self._unknown(e)
                r = a in b
                return r if isinstance(op, ast.In) else not r
            self._unknown(e)
        if isinstance(e, ast.Call):
            fn = dotted(e.func)
            if isinstance(e.func, ast.Attribute) and e.func.attr == "isspace" and not e.args:
                v = self._eval(e.func.value, env)
                if not isinstance(v, str):
                    self._unknown(e)
                return v.isspace()
            if fn == "next" and e.args and dotted(e.args[0]) == self.iter_name and self.can_next:
                if len(e.args) != 2 or not (isinstance(e.args[1], ast.Constant)
                                            and e.args[1].value == ""):
                    raise AnalysisError(f"{self.t.qualname}: next() without an empty default")
                env["@acts"].append("skip?")
                return NEXT
            if isinstance(e.func, ast.Attribute) and e.func.attr == "join" \
                    and isinstance(e.func.value, ast.Constant) and e.func.value.value == "" \
                    and len(e.args) == 1 and dotted(e.args[0]) == self.cur:
                return TOKEN
        self._unknown(e)

    def _unknown(self, e):
        raise AnalysisError(f"{self.t.qualname}: expression {norm(e)!r} is outside the "
                            f"tokeniser model")

    def _truth(self, v):
        if isinstance(v, tuple):
            if v[0] == "acc":
                return v[1]
            raise AnalysisError(f"{self.t.qualname}: truth of an uninspected value")
        return bool(v)

    def _exec(self, stmts, env):
        for s in stmts:
            if isinstance(s, ast.If):
                self._exec(s.body if self._truth(self._eval(s.test, env)) else s.orelse, env)
            elif isinstance(s, ast.Continue):
                raise _Stop("continue")
            elif isinstance(s, ast.Raise):
                raise _Stop("raise")
            elif isinstance(s, ast.Return):
                raise _Stop("return")
            elif isinstance(s, ast.Pass):
                pass
            elif isinstance(s, ast.Assign) and len(s.targets) == 1 \
                    and isinstance(s.targets[0], ast.Name):
                name = s.targets[0].id
                if name == self.cur:
                    v = s.value
                    empty = (isinstance(v, ast.List) and not v.elts) or \
                        (isinstance(v, ast.Constant) and v.value == "")
                    if not empty:
                        self._unknown(s.value)
                    if env["@nonempty"] and not env["@emitted"]:
                        env["@acts"].append("clear")
                    env["@nonempty"] = False
                    env["@emitted"] = False
                elif name in self.acc or name in (self.ch, self.iter_name, self.line):
                    self._unknown(s.value)
                else:
                    v = self._eval(s.value, env)
                    if isinstance(v, tuple) and v != ("index",):
                        raise AnalysisError(f"{self.t.qualname}: state from an uninspected value")
                    env[name] = v
            elif isinstance(s, ast.AugAssign) and isinstance(s.op, ast.Add) \
                    and dotted(s.target) == self.cur:
                self._add(s.value, env)
            elif isinstance(s, ast.Expr) and isinstance(s.value, ast.Call) \
                    and isinstance(s.value.func, ast.Attribute) \
                    and dotted(s.value.func.value) in self.acc and len(s.value.args) == 1 \
                    and not s.value.keywords:
                which, meth = dotted(s.value.func.value), s.value.func.attr
                if which == self.cur and meth in ("append", "extend"):
                    self._add(s.value.args[0], env)
                elif which == self.out and meth == "append":
                    a = s.value.args[0]
                    v = TOKEN if dotted(a) == self.cur and self.acc[self.cur] == "str" \
                        else self._eval(a, env)
                    if v != TOKEN:
                        self._unknown(a)
                    env["@acts"].append("emit" if env["@nonempty"] else "emit-empty")
                    env["@emitted"] = True
                else:
                    self._unknown(s.value)
            else:
                raise AnalysisError(f"{self.t.qualname}: statement {norm(s)[:60]!r} is outside "
                                    f"the tokeniser model")

    def _add(self, a, env):
        if isinstance(a, ast.List) and len(a.elts) == 1:
            a = a.elts[0]
        v = self._eval(a, env)
        if v == NEXT:
            env["@acts"][-1] = "skip"     # fetched and appended unseen
        elif isinstance(a, ast.Name) and a.id == self.ch:
            env["@acts"].append("app")
        else:
            self._unknown(a)
        env["@nonempty"] = True

    # -- the automaton ---------------------------------------------------------

    def step(self, state, c, esc):
        vars_, nonempty = state
        env = dict(vars_)
        env.update({self.ch: c, "@nonempty": nonempty, "@acts": [], "@emitted": False})
        for p, d in self.defaults.items():
            env[p] = d
        env.update(esc)
        kind = "fall"
        try:
            self._exec(self.loop.body, env)
        except _Stop as st:
            kind = st.kind
        if kind in ("raise", "return"):
            return None, env["@acts"] + [kind]
        if "skip?" in env["@acts"]:
            raise AnalysisError(f"{self.t.qualname}: a character fetched with next() is not appended")
        if env["@emitted"] and env["@nonempty"]:
            env["@acts"].append("noreset")
        new = tuple(sorted((k, v) for k, v in env.items()
                           if not k.startswith("@") and k != self.ch and k not in self.defaults
                           and k not in esc))
        return (new, env["@nonempty"]), env["@acts"]

    def finish(self, state, esc):
        vars_, nonempty = state
        env = dict(vars_)
        env.update({"@nonempty": nonempty, "@acts": [], "@emitted": False})
        for p, d in self.defaults.items():
            env[p] = d
        env.update(esc)
        kind = "fall"
        try:
            self._exec(self.post, env)
        except _Stop as st:
            kind = st.kind
        return kind, env["@acts"], env["@nonempty"]

    def start(self):
        return (tuple(sorted(self.init.items())), False)


def explore(lx: Lexer, esc_param, esc_char):
    """Product of the tokeniser with the language's literal automaton.
    Returns (findings, n_states, n_steps); a finding is (kind, witness)."""
    quotes = "\"'"
    other = next(c for c in "xyzwvu" if c not in lx.literals)
    alphabet = list(dict.fromkeys(list(quotes) + [" ", "\t", other]
                                  + ([esc_char] if esc_char else [])
                                  + sorted(lx.literals - set(quotes))))
    esc = {esc_param: esc_char}
    start = (lx.start(), None, False, False)   # impl, open quote, spec escape pending, impl skip pending
    seen = {start: ""}
    todo = deque([start])
    findings = {}
    steps = 0

    def note(kind, w):
        if kind not in findings or len(w) < len(findings[kind]):
            findings[kind] = w

    while todo:
        cur = todo.popleft()
        impl, q, spend, ipend = cur
        w = seen[cur]
        # end of input here
        kind, acts, nonempty = lx.finish(impl, esc)
        inside = q is not None
        if inside and kind != "raise":
            note("an unterminated literal is accepted", w)
        if not inside:
            if kind != "return":
                note("a complete line is refused", w)
            elif impl[1] and "emit" not in acts:
                note("the last token is lost at the end of the line", w)
        for c in alphabet:
            if esc_char and c == esc_char and not inside:
                continue      # generated code has no escape character outside literals
            steps += 1
            # reference
            nq, nspend = q, False
            if spend:
                pass
            elif q is None:
                if c in quotes:
                    nq = c
            else:
                if esc_char and c == esc_char:
                    nspend = True
                elif c == q:
                    nq = None
            # tokeniser
            if ipend:
                nimpl, acts, nipend = impl, ["app"], False
            else:
                nimpl, acts = lx.step(impl, c, esc)
                nipend = "skip" in acts
                if nimpl is None:
                    note(f"the line is refused at a character ({acts[-1]})", w + c)
                    continue
            wc = w + c
            apps = acts.count("app")
            cut = [a for a in acts if a in ("emit", "clear", "emit-empty")]
            if inside and cut:
                note("a token ends inside a string literal", wc)
            if "clear" in acts:
                note("collected characters are discarded", wc)
            if "noreset" in acts:
                note("a token is handed over and kept", wc)
            blank_outside = not inside and c.isspace()
            if apps > 1 or (apps == 0 and not blank_outside):
                note("a character is not kept exactly once", wc)
            if blank_outside and c == " " and impl[1] and not ipend and "emit" not in acts:
                note("a blank after a token ends no token", wc)
            nxt = (nimpl, nq, nspend, nipend)
            if nxt not in seen:
                if len(seen) > 4000:
                    raise AnalysisError(f"{lx.t.qualname}: tokeniser state space does not close")
                seen[nxt] = wc
                todo.append(nxt)
    return findings, len(seen), steps
