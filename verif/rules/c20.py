"""C20 - line wrapping of generated code changes layout only."""

from __future__ import annotations

import ast

from ..engine.match import dotted, norm, func_body_stmts, string_value, leaves_with
from ..engine.srcmodel import AnalysisError, Func

EXPLANATION = (
    "Path enumeration over the body of the wrapper loop with sensitivity to "
    "its boolean flag, plus shape rules on the lexer, the fit test, the pad "
    "functions and the per-line use in both generators. The default tokeniser's "
    "character loop is interpreted abstractly (one representative per class "
    "of character: either quote, the escape character, blank, tab, every "
    "other literal the source names, anything else; the quote-state locals "
    "are constants) into a finite automaton, and its product with the "
    "language's own inside-a-literal automaton is searched exhaustively. "
    "Decides: no reachable step ends or discards a token inside a string "
    "literal, wherever the string starts; every character is kept exactly "
    "once (blanks outside literals may go); an open literal at the end of the "
    "line is refused, a complete line is accepted with its last token; a "
    "blank after a token outside literals ends it; the tokeniser is not shlex "
    "based; on every feasible path through the loop body each "
    "word is concatenated exactly once, after a single-space separator when "
    "the line is not at its start and after the continuation indentation "
    "when a new line was started; a non-strict comparison of the prospective "
    "length with the width is accepted only for the last word (which gets "
    "no continuation marker); every line appended inside the loop goes "
    "through pad_func and the one after the loop does not; the pad "
    "functions fill to width-1 and end with the continuation marker; the "
    "Fortran generator tests for a comment on the same stripped text that it "
    "would wrap, and the Python generator wraps every emitted line at the "
    "combined indentation level. Does not decide: the width bound for "
    "arbitrary token lengths (a single over-long token), nor equality of "
    "Python syntax trees.")

ASSUMPTIONS = [
    "non-POSIX shlex keeps a quoted string together only at token start and a shlex object interprets '#' (library facts that make shlex-based lexers violations)",
]

UTILS = "dagrt.codegen.utils"


def _check_main(run, P):
    run.rule("C20.lexer", "default tokeniser splits at whitespace outside quoted "
             "strings only, wherever the string starts, and interprets no comment "
             "characters; the Python wrapper's lexer honours backslash escapes, the "
             "Fortran wrapper's has none", minimum=4)
    run.rule("C20.once", "each word is concatenated exactly once on every feasible "
             "path of the loop body, with separator / continuation indentation",
             minimum=3)
    run.rule("C20.fit", "a non-strict length comparison against the width applies to "
             "the last word only", minimum=1)
    run.rule("C20.pad", "lines appended in the loop are padded, the final line is not; "
             "pad functions fill to width-1 and end with the marker", minimum=4)
    run.rule("C20.use", "Fortran: comment test and wrapping use the same stripped "
             "text, only directive lines have their '#' moved; Python: every emitted line "
             "is wrapped at the combined level", minimum=3)
    f = P.func(f"{UTILS}.wrap_line_base")
    run.do(_lexer, run, P, f)
    run.do(_once_fit_pad, run, P, f)
    run.do(_pads, run, P)
    run.do(_use, run, P)


def _lexer(run, P, f: Func):
    dflt = None
    for n in ast.walk(f.node):
        if isinstance(n, ast.If) and norm(n.test) == "lex_func is None" and n.body:
            for s in n.body:
                if isinstance(s, ast.Assign) and dotted(s.targets[0]) == "lex_func":
                    dflt = s.value
    if dflt is None:
        raise AnalysisError("wrap_line_base: default lexer not found")
    target = None
    desc = norm(dflt)
    inner = dflt
    if isinstance(dflt, ast.Call) and dotted(dflt.func) in ("functools.partial", "partial") and dflt.args:
        inner = dflt.args[0]
    if isinstance(inner, ast.Name):
        t = P.resolve_name(f, inner.id)
        if isinstance(t, Func):
            target = t
    def _names_shlex(node):
        return any(isinstance(x, ast.Name) and x.id == "shlex" for x in ast.walk(node))
    uses_shlex = _names_shlex(dflt) or (target is not None and _names_shlex(target.node))
    if uses_shlex:
        run.ob("C20.lexer", f, dflt, False,
               construct=f"default lexer: {desc} (shlex based)",
               why="non-POSIX shlex keeps a quoted string together only when the quote "
                   "starts the token (\"f('a b')\" is cut at the blank, and a line "
                   "wrapped there continues inside the string literal); a shlex object "
                   "also treats '#' as a comment start unless commenters is cleared")
        for lang in ("Python", "Fortran"):
            run.ob("C20.lexer", f, dflt, False,
                   construct=f"{lang} wrap_line lexer: shlex based, no per-language escape handling",
                   why="see above")
        return
    if target is None:
        raise AnalysisError(f"wrap_line_base: default lexer {desc} not resolved")
    from .c20_lexer import Lexer, explore
    lx = Lexer(target)
    esc_name = [a.arg for a, d in zip(reversed(target.node.args.args),
                                      reversed(target.node.args.defaults))
                if a.arg != target.params[0]]
    if len(esc_name) != 1:
        raise AnalysisError(f"{target.name}: escape-character parameter not found")
    for esc_char, label in (("\\", "with a backslash escape"), (None, "without an escape character")):
        found, n_states, n_steps = explore(lx, esc_name[0], esc_char)
        msg = "; ".join(f"{k} (input {w!r})" for k, w in sorted(found.items()))
        run.ob("C20.lexer", target, target.node, not found,
               construct=f"default lexer {target.name} {label}: "
                         + (msg or f"{n_states} product states, {n_steps} steps explored"),
               why="a blank inside a quoted string must never end a token, wherever the "
                   "string starts; nothing but whitespace outside quotes separates tokens; "
                   "every character is kept once; an open literal at the end of the line "
                   "is refused")
    # which escape character each wrapper's lexer ends up with
    esc_param = None
    for a, d in zip(reversed(target.node.args.args), reversed(target.node.args.defaults)):
        if isinstance(d, ast.Constant) and (d.value is None or isinstance(d.value, str)) \
                and a.arg != target.params[0]:
            esc_param = (a.arg, d.value)
    if esc_param is None:
        raise AnalysisError(f"{target.name}: escape-character parameter not found")

    def effective(lex):
        """(escape char, description) for a lex_func expression; None = inherits."""
        if lex is None:
            return effective(dflt)[0], "default"
        if isinstance(lex, ast.Name):
            t = P.resolve_name(f, lex.id)
            if t is target or lex.id == target.name:
                return esc_param[1], lex.id
            return "?", norm(lex)
        if isinstance(lex, ast.Call) and dotted(lex.func) in ("functools.partial", "partial") \
                and lex.args and isinstance(lex.args[0], ast.Name) and lex.args[0].id == target.name:
            kws = {k.arg: k.value for k in lex.keywords}
            v = kws.get(esc_param[0])
            if v is None:
                return esc_param[1], norm(lex)
            if isinstance(v, ast.Constant):
                return v.value, norm(lex)
        return "?", norm(lex)

    for modname, want, lang in (("dagrt.codegen.python", "\\", "Python"),
                                ("dagrt.codegen.fortran", None, "Fortran")):
        m = P.module(modname)
        w = m.assigns.get("wrap_line")
        if not isinstance(w, ast.Call):
            raise AnalysisError(f"{modname}: wrap_line is not a partial() call")
        kws = {k.arg: k.value for k in w.keywords}
        got, desc = effective(kws.get("lex_func"))
        run.ob("C20.lexer", m, w, got == want,
               construct=f"{lang} wrap_line lexer: {desc}, escape character {got!r} (needs {want!r})",
               why="Python string literals escape a quote with a backslash (repr() "
                   "produces \\' for text holding both quote kinds): a lexer that "
                   "does not know this ends the string early, cuts the literal at a "
                   "blank, and the continuation lands inside the constant. Fortran "
                   "has no escape character (a quote is doubled), so a backslash "
                   "before a closing quote must not keep the string open")


class _PathState:
    def __init__(self, flag):
        self.flag = flag          # at_line_start: True / False
        self.word_adds = []       # descriptions
        self.appends = []         # (padded?, node)
        self.reset = False        # current_line = indentation happened
        self.trace = []


def _token_source(run, P, f: Func, lp):
    """The words that are laid out come from the quote-aware lexer on every path."""
    it = lp.iter
    if isinstance(it, ast.Call) and dotted(it.func) == "enumerate" and it.args:
        it = it.args[0]
    if not isinstance(it, ast.Name):
        raise AnalysisError("wrap_line_base: the main loop does not walk a named token list")
    tok = it.id
    lex = None
    for s_ in ast.walk(f.node):
        if isinstance(s_, ast.If) and isinstance(s_.test, ast.Compare) \
                and isinstance(s_.test.ops[0], ast.Is) and isinstance(s_.test.left, ast.Name) \
                and s_.test.left.id in f.params:
            lex = s_.test.left.id
    defs = [s_ for s_ in ast.walk(f.node) if isinstance(s_, (ast.Assign, ast.AugAssign))
            and any(isinstance(t, ast.Name) and t.id == tok
                    for t in (s_.targets if isinstance(s_, ast.Assign) else [s_.target]))]
    bad = [d for d in defs if not (isinstance(d, ast.Assign) and isinstance(d.value, ast.Call)
                                   and isinstance(d.value.func, ast.Name) and d.value.func.id == lex
                                   and len(d.value.args) == 1 and dotted(d.value.args[0]) == f.params[0])]
    run.ob("C20.lexer", f, bad[0] if bad else (defs[0] if defs else f.node), bool(defs) and not bad,
           construct=f"'{tok}' is only ever {lex}({f.params[0]})"
                     + (f" (also: {norm(bad[0], 50)})" if bad else ""),
           why="the words are re-joined with single blanks even when the line is not broken: "
               "split on white space, a quoted string with two blanks or a tab in it comes "
               "back changed although nothing was wrapped")


def _once_fit_pad(run, P, f: Func):
    from .util import find, first, has
    loops = [n for n in f.node.body if isinstance(n, ast.For)]
    if len(loops) != 1:
        raise AnalysisError("wrap_line_base: main loop not found")
    lp = loops[0]
    run.do(_token_source, run, P, f, lp)
    word = None
    if isinstance(lp.target, ast.Tuple) and len(lp.target.elts) == 2:
        word = lp.target.elts[1].id
    elif isinstance(lp.target, ast.Name):
        word = lp.target.id
    if word is None:
        raise AnalysisError("wrap_line_base: loop target")
    # roles
    rets = [s_ for s_ in f.node.body if isinstance(s_, ast.Return) and isinstance(s_.value, ast.Name)]
    if len(rets) != 1:
        raise AnalysisError("wrap_line_base: 'return <lines>' not found")
    lines = rets[0].value.id
    flags = {}
    for x in ast.walk(f.node):
        if isinstance(x, ast.Assign) and len(x.targets) == 1 and isinstance(x.targets[0], ast.Name) \
                and isinstance(x.value, ast.Constant) and isinstance(x.value.value, bool):
            flags.setdefault(x.targets[0].id, set()).add(x.value.value)
    fl = [n for n, v in flags.items() if v == {True, False}]
    if len(fl) != 1:
        raise AnalysisError("wrap_line_base: line-start flag not identified")
    flag = fl[0]
    after = f.node.body[f.node.body.index(lp) + 1:]
    fin = [s_ for s_ in after if isinstance(s_, ast.Expr) and isinstance(s_.value, ast.Call)
           and dotted(s_.value.func) == f"{lines}.append" and s_.value.args
           and isinstance(s_.value.args[0], ast.Name)]
    if len(fin) != 1:
        run.ob("C20.pad", f, lp, False,
               construct="after the loop: <lines>.append(<current line>) without marker",
               why="the last line is not continued")
        return
    cur = fin[0].value.args[0].id
    pad = "pad_func"
    indent = "indentation"
    paths = []

    def run_block(stmts, st, k):
        if not stmts:
            k(st)
            return
        s_, rest = stmts[0], stmts[1:]
        cont = lambda st2: run_block(rest, st2, k)
        if isinstance(s_, ast.If):
            t = s_.test
            known = None
            if isinstance(t, ast.Name) and t.id == flag:
                known = st.flag
            elif isinstance(t, ast.UnaryOp) and isinstance(t.op, ast.Not) \
                    and isinstance(t.operand, ast.Name) and t.operand.id == flag:
                known = not st.flag
            for val, body in ((True, s_.body), (False, s_.orelse)):
                if known is not None and val != known:
                    continue
                st2 = _copy(st)
                st2.trace.append(f"{'if' if val else 'else'} {norm(t, 40)}")
                run_block(body, st2, cont)
            return
        if isinstance(s_, ast.Assign) and len(s_.targets) == 1 and isinstance(s_.targets[0], ast.Name):
            name = s_.targets[0].id
            if name == flag and isinstance(s_.value, ast.Constant):
                st.flag = bool(s_.value.value)
            elif name == cur:
                if word in {x.id for x in ast.walk(s_.value) if isinstance(x, ast.Name)}:
                    st.word_adds.append(("assign", norm(s_.value), st.reset))
                else:
                    st.reset = norm(s_.value) == indent
                    st.trace.append(f"line = {norm(s_.value)}")
            cont(st)
            return
        if isinstance(s_, ast.AugAssign) and dotted(s_.target) == cur \
                and isinstance(s_.op, ast.Add):
            if word in {x.id for x in ast.walk(s_.value) if isinstance(x, ast.Name)}:
                st.word_adds.append(("aug", norm(s_.value), st.reset, st.flag))
            cont(st)
            return
        if isinstance(s_, ast.Expr) and isinstance(s_.value, ast.Call) \
                and dotted(s_.value.func) == f"{lines}.append":
            a_ = s_.value.args[0]
            padded = isinstance(a_, ast.Call) and dotted(a_.func) == pad \
                and a_.args and dotted(a_.args[0]) == cur
            st.appends.append((padded, s_))
            cont(st)
            return
        if isinstance(s_, ast.Continue):
            k(st)
            return
        cont(st)

    for init in (True, False):
        st0 = _PathState(init)
        st0.trace.append(f"at_start={init}")
        run_block(lp.body, st0, lambda st: paths.append(st))
    if len(paths) < 3:
        raise AnalysisError("wrap_line_base: fewer than three feasible paths")
    n_app = 0
    for st in paths:
        adds = st.word_adds
        ok = len(adds) == 1
        sep_ok = True
        if ok:
            kind = adds[0]
            text = kind[1]
            flag_at_add = kind[3] if len(kind) > 3 else None
            if kind[0] == "aug":
                if flag_at_add is False:
                    sep_ok = text in (f"' ' + {word}", f'" " + {word}')
                else:
                    sep_ok = text == word
        run.ob("C20.once", f, lp, ok and sep_ok and st.flag is False,
               construct=f"path [{' ; '.join(st.trace)}]: word added {len(adds)} time(s) "
                         f"{[a_[1] for a_ in adds]}",
               why="a word added twice, not at all, or without its separator changes "
                   "the token sequence of the wrapped line")
        for padded, node in st.appends:
            n_app += 1
            run.ob("C20.pad", f, node, padded,
                   construct=f"in-loop append: {norm(node, 70)}",
                   why="a line that is continued must carry the continuation marker")
    if n_app == 0:
        raise AnalysisError("wrap_line_base: no in-loop append found")
    run.ob("C20.pad", f, fin[0], True,
           construct="after the loop: <lines>.append(<current line>) without marker",
           why="the last line is not continued")
    # fit test
    width = "width"
    fit = None
    for n in ast.walk(lp):
        if isinstance(n, ast.If) and any(isinstance(x, ast.Compare) and any(
                isinstance(y, ast.Name) and y.id == width for y in ast.walk(x))
                for x in ast.walk(n.test)):
            fit = n
    if fit is None:
        raise AnalysisError("wrap_line_base: fit test not found")
    hn = first(f"V_h = V_i < len(V_t) - 1", lp)
    has_next = hn[1]["V_h"] if hn[0] is not None else None
    if has_next is None:
        # a count-down: <left> = len(<tokens>) before the loop, <left> -= 1 as the first thing
        # in it, <h> = <left> > 0
        toks = norm(lp.iter)
        body = [s_ for s_ in lp.body if not (isinstance(s_, ast.Expr) and isinstance(s_.value, ast.Constant))]
        for s_ in body:
            m_ = first("V_h = V_left > 0", s_)
            if m_[0] is None:
                continue
            left = m_[1]["V_left"]
            init = [x for x in func_body_stmts(f.node) if isinstance(x, ast.Assign)
                    and norm(x) == f"{left} = len({toks})"]
            decs = [x for x in ast.walk(f.node) if isinstance(x, ast.AugAssign) and dotted(x.target) == left]
            others = [x for x in ast.walk(f.node) if isinstance(x, ast.Assign)
                      and any(dotted(t_) == left for t_ in x.targets) and x not in init]
            if len(init) == 1 and len(decs) == 1 and not others and body and decs[0] is body[0] \
                    and norm(decs[0]) == f"{left} -= 1" and body.index(s_) >= 1:
                has_next = m_[1]["V_h"]
    if has_next is None:
        negs = {v.operand.id for v in ast.walk(fit.test) if isinstance(v, ast.UnaryOp)
                and isinstance(v.op, ast.Not) and isinstance(v.operand, ast.Name)}
        word_ = dotted(lp.target) if isinstance(lp.target, ast.Name) else None
        for nm in sorted(negs):
            for x in ast.walk(lp):
                if isinstance(x, ast.Assign) and any(dotted(t_) == nm for t_ in x.targets) \
                        and isinstance(x.value, ast.Compare) and len(x.value.ops) == 1 \
                        and isinstance(x.value.ops[0], (ast.Is, ast.IsNot, ast.Eq, ast.NotEq)) \
                        and word_ in (dotted(x.value.left), dotted(x.value.comparators[0])):
                    run.ob("C20.fit", f, x, False,
                           construct=f"'{nm}' (is this the last word?) is decided by comparing the word "
                                     f"itself: {norm(x, 60)}",
                           why="an earlier word that is equal to (or the same object as) the last one "
                               "is taken for the last: it is allowed to fill the line, and the "
                               "continuation marker after it makes the line too wide")
                    return
        if negs:
            raise AnalysisError(f"wrap_line_base: what {sorted(negs)} in the fit test stand for is not "
                                "recognised (neither index < len - 1 nor a count-down)")
    bad = []

    def visit(e, guarded):
        if isinstance(e, ast.BoolOp) and isinstance(e.op, ast.And):
            gd = guarded or any(has_next and norm(v) == f"not {has_next}" for v in e.values)
            for v in e.values:
                visit(v, gd)
        elif isinstance(e, ast.BoolOp):
            for v in e.values:
                visit(v, guarded)
        elif isinstance(e, ast.Compare) and len(e.ops) == 1:
            l_is_w = dotted(e.left) == width
            r_is_w = dotted(e.comparators[0]) == width
            if not (l_is_w or r_is_w):
                return
            op = e.ops[0]
            nonstrict = isinstance(op, (ast.LtE, ast.Eq)) if r_is_w \
                else isinstance(op, (ast.GtE, ast.Eq))
            if nonstrict and not guarded:
                bad.append(e)

    visit(fit.test, False)
    run.ob("C20.fit", f, bad[0] if bad else fit.test, not bad,
           construct=f"fit test: {norm(fit.test, 100)}",
           why="a word that is not the last one gets a continuation marker after it: "
               "allowed to end exactly in the last column, the padded line is one "
               "column too wide")


def _copy(st):
    n = _PathState(st.flag)
    n.word_adds = list(st.word_adds)
    n.appends = list(st.appends)
    n.reset = st.reset
    n.trace = list(st.trace)
    return n


def _pads(run, P):
    for fq, marker in (("dagrt.codegen.python.pad_python", "\\"),
                       ("dagrt.codegen.fortran.pad_fortran", "&")):
        f = P.func(fq)
        body = [s for s in f.node.body if not (isinstance(s, ast.Expr)
                                               and isinstance(s.value, ast.Constant))]
        ln_, wd_ = f.params[0], f.params[1]
        ok = len(body) == 3 \
            and norm(body[0]) == f"{ln_} += ' ' * ({wd_} - 1 - len({ln_}))" \
            and isinstance(body[1], ast.AugAssign) and string_value(body[1].value) == marker \
            and dotted(body[1].target) == ln_ \
            and isinstance(body[2], ast.Return) and dotted(body[2].value) == ln_
        run.ob("C20.pad", f, f.node, ok,
               construct=f"{f.name}: fill to width-1, append {marker!r}, return",
               why="the continuation marker must be the last character of a continued line")


def _use(run, P):
    f = P.func("dagrt.codegen.fortran.CodeGenerator.get_code")
    tests = [n for n in ast.walk(f.node) if isinstance(n, ast.If)
             and "startswith('!')" in ast.unparse(n.test)]
    wraps = [x for x in ast.walk(f.node) if isinstance(x, ast.Call) and dotted(x.func) == "wrap_line"]
    ok = False
    recv = arg = None
    if tests and wraps:
        from .util import path_conditions, _strip_not
        t, _pol = _strip_not(tests[0].test)
        whole = t
        if isinstance(t, ast.BoolOp) and isinstance(t.op, ast.Or):
            # a comment, or a line short enough to need no wrapping: passed through as it is
            others = [v_ for v_ in t.values if "startswith('!')" not in ast.unparse(v_)]
            t = next((v_ for v_ in t.values if "startswith('!')" in ast.unparse(v_)), t)
            lines = {dotted(l_.target) for l_ in ast.walk(f.node) if isinstance(l_, ast.For)
                     and any(y is tests[0] for y in ast.walk(l_))}
            for o_ in others:
                measured = [c_.args[0] for c_ in ast.walk(o_) if isinstance(c_, ast.Call)
                            and dotted(c_.func) == "len" and c_.args]
                if not (isinstance(o_, ast.Compare) and len(measured) == 1):
                    raise AnalysisError(f"get_code: lines are also passed through under {norm(o_, 60)}; "
                                        "not read")
                run.ob("C20.use", f, o_, dotted(measured[0]) in lines,
                       construct=f"short lines are passed through by the length of the whole line "
                                 f"(measured: {norm(measured[0], 40)})",
                       why="the limit applies to the line as emitted, indentation included: measured "
                           "without it, an indented line that is too long is not wrapped")
        recv = t.func.value if isinstance(t, ast.Call) and isinstance(t.func, ast.Attribute) else None
        arg = wraps[0].args[0] if wraps[0].args else None
        # the wrapping call runs only when the comment test fails, however that is laid out
        def holds(s_):
            if isinstance(s_, (ast.For, ast.While)):
                head = s_.iter if isinstance(s_, ast.For) else s_.test
                return any(x is wraps[0] for x in ast.walk(head))
            if isinstance(s_, (ast.If, ast.Try, ast.With, ast.FunctionDef)):
                return False
            return any(x is wraps[0] for x in ast.walk(s_))
        guarded = any((norm(whole), False) in path_conditions(f.node, s_)
                      for s_ in ast.walk(f.node) if isinstance(s_, ast.stmt) and holds(s_))
        ok = recv is not None and arg is not None and norm(recv) == norm(arg) and guarded
    # the nesting level handed to the wrapper accounts for all leading blanks of the line
    for a_ in ast.walk(f.node):
        if isinstance(a_, ast.Assign) and any(dotted(t_) == "level" for t_ in a_.targets) \
                and isinstance(a_.value, ast.BinOp) and isinstance(a_.value.op, ast.FloorDiv):
            div = a_.value.right
            unit = None
            if isinstance(div, ast.Constant):
                unit = div.value
            elif isinstance(div, ast.Name):
                defs_ = [x.value for x in ast.walk(f.node) if isinstance(x, ast.Assign)
                         and any(dotted(t_) == div.id for t_ in x.targets)]
                if len(defs_) == 1 and isinstance(defs_[0], ast.Constant):
                    unit = defs_[0].value
            run.ob("C20.use", f, a_, unit == 1,
                   construct=f"level = {norm(a_.value, 50)}: the blanks are divided by one (or rounded up "
                             f"another way), never rounded down",
                   why="rounded down to whole indentation steps the wrapper believes the line starts up "
                       "to step-1 columns further left than it does: wrapped lines come out too wide")
    run.ob("C20.use", f, tests[0] if tests else f.node, ok,
           construct=f"comment test on {norm(recv) if tests and wraps and recv is not None else '?'}; "
                     f"wrapping {norm(arg) if tests and wraps and arg is not None else '?'}",
           why="an indented comment that is tested on the unstripped line is wrapped "
               "like code: its continuation lines lack the '!' and the module does "
               "not compile")
    # preprocessor lines: only a line that *starts* with '#' has it moved to column one
    from .util import path_conditions
    call = P.func("dagrt.codegen.fortran.CodeGenerator.__call__")
    moves = [s_ for s_ in ast.walk(call.node) if isinstance(s_, ast.Assign)
             and isinstance(s_.value, ast.BinOp) and ast.unparse(s_.value).startswith("'#' + ")]
    ok = bool(moves)
    for mv in moves:
        v = dotted(mv.targets[0])
        pc = path_conditions(call.node, mv)
        ok = ok and (f"{v}.lstrip().startswith('#')", True) in pc
    run.ob("C20.use", call, moves[0] if moves else call.node, ok,
           construct="'#' is moved to column one only under <line>.lstrip().startswith('#')",
           why="moved out of any line that contains one, a '#' inside a character constant "
               "(or on a continuation line) is cut out of its token: the emitted tokens "
               "change and gfortran meets a malformed directive")
    g = P.func("dagrt.codegen.python.CodeGenerator._emit")
    from .util import first, has
    lv = first("V_l = self._class_emitter.level + self._emitter.level", g.node)
    ok = False
    if lv[0] is not None:
        for lp_ in ast.walk(g.node):
            if isinstance(lp_, ast.For) and isinstance(lp_.target, ast.Name) \
                    and norm(lp_.iter) == f"wrap_line({g.params[1]}, {lv[1]['V_l']})" \
                    and has(f"self._emitter({lp_.target.id})", lp_):
                ok = True
    emits = [x for x in ast.walk(g.node) if isinstance(x, ast.Call)
             and dotted(x.func) == "self._emitter"]
    for x in emits:
        inside = [lp_ for lp_ in ast.walk(g.node) if isinstance(lp_, ast.For)
                  and isinstance(lp_.target, ast.Name)
                  and isinstance(lp_.iter, ast.Call) and dotted(lp_.iter.func) == "wrap_line"
                  and any(y is x for y in ast.walk(lp_))
                  and len(x.args) == 1 and dotted(x.args[0]) == lp_.target.id]
        if not inside:
            ok = False
    # comments do not go through the wrapper: what it cuts off a comment is a line of code
    from ..engine.match import string_prefix
    G_ = g.cls
    n_emit = 0
    for name_, m_ in sorted(G_.methods.items()):
        for x in ast.walk(m_.node):
            if isinstance(x, ast.Call) and dotted(x.func) == "self._emit" and x.args:
                n_emit += 1
                pre = string_prefix(x.args[0]) or ""
                whole = string_value(x.args[0])
                # (a constant comment that fits any line is never cut)
                if pre.lstrip().startswith("#") and not (whole is not None and len(whole) <= 40):
                    run.ob("C20.use", m_, x, False,
                           construct=f"{name_}: a comment is emitted through the line wrapper: {norm(x, 60)}",
                           why="the wrapper continues a long line with a backslash; the rest of a "
                               "comment becomes a line of its own without '#': the module does not "
                               "compile (or runs the words of the comment)")
    if n_emit < 10:
        raise AnalysisError("python generator: self._emit call sites not found")
    run.ob("C20.use", g, g.node, ok,
           construct="_emit: wrap_line(line, class level + function level), every piece emitted, "
                     "nothing emitted that did not come out of wrap_line",
           why="the width budget depends on the real indentation")


def check(run, P):
    run.do(_check_main, run, P)
    from . import generic
    generic.lints(run, P, "C20")
