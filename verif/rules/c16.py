"""C16 - fusing two methods runs both on shared persistent state without
interference."""

from __future__ import annotations

import ast

from ..engine.match import dotted, norm, func_body_stmts, kwarg
from ..engine.srcmodel import AnalysisError, Func
from . import stmtmodel as sm

EXPLANATION = (
    "Def-use flow and field-coverage analysis of dagrt/transform.py, "
    "dagrt.language map_expressions/get_read_variables and pymbolic's "
    "imperative/transform.py (read from source). Decides: the caller's "
    "renaming predicate reaches pymbolic's disambiguate_and_fuse; when it is "
    "None the predicate used is exactly 'not is_state_variable(name)' "
    "(pymbolic's own default renames every clashing name); with "
    "include_lhs=True every path that feeds get_read_variables / "
    "get_written_variables, and every string field naming a bound variable "
    "(loop identifiers), is rebuilt from the mapper and no part of such a "
    "field reaches the copy un-mapped (flow-sensitive); names bound by a "
    "statement are not removed from its read set (clash detection works on "
    "read u written sets); the fused statements come from the id-uniquifying "
    "concatenation that remaps depends_on through the same id map; both "
    "disagreement checks raise before a result is returned; phases are "
    "inserted in sorted order. Does not decide: equality of fused and "
    "separate runs.")

ASSUMPTIONS = [
    "clash detection uses pymbolic.imperative.analysis.get_all_used_identifiers = read u written sets (read from source)",
]

MOD = "dagrt.transform"


def _check_main(run, P):
    run.rule("C16.pred", "the renaming predicate reaches disambiguate_and_fuse; its "
             "default protects exactly the persistent name classes", minimum=4)
    run.rule("C16.fields", "with include_lhs=True every read/written/bound-name path "
             "is mapped and nothing of it reaches the copy un-mapped", minimum=20)
    run.rule("C16.clash", "bound names stay visible to clash detection (read u "
             "written sets are never reduced by names the statement binds)", minimum=2)
    run.rule("C16.ids", "fused statements come from the id-uniquifying concatenation "
             "which remaps depends_on through the same id map", minimum=3)
    run.rule("C16.agree", "default-transition and initial-phase disagreement raise "
             "before a fused result is returned", minimum=2)
    run.rule("C16.phases", "every phase of either method is in the result: the phase "
             "loop ranges over the union of both phase maps, each side is looked up "
             "in its own map, and a one-sided phase is returned as it is", minimum=5)
    run.rule("C16.order", "phases of the result are inserted in sorted order", minimum=1)
    run.do(_pred, run, P)
    run.do(_fields, run, P)
    run.do(_clash, run, P)
    run.do(_fast_path, run, P)
    run.do(_ids, run, P)
    from .c01 import _alias
    from . import c10 as _c10
    _alias(run, "C10.cycle", "C16.ids", lambda: _c10._edges_kept(run, P))
    run.do(_c10._field_relations, run, P, "C16.ids")
    run.do(_agree, run, P)
    run.do(_phases, run, P)
    run.do(_table, run, P)
    # clash detection works on the declared read / write sets (shared with C08)
    for r_ in ("C08.reads", "C08.writes"):
        run.rule_docs.setdefault(r_, "")
        run.minimum.setdefault(r_, 0)
    n0_ = len(run.obs)
    from . import c08 as _c08r
    run.do(_c08r.reads_writes, run, P, sm.statement_classes(P))
    for o_ in run.obs[n0_:]:
        if o_.rule in ("C08.reads", "C08.writes"):
            o_.rule = "C16.clash"
    for r_ in ("C08.reads", "C08.writes"):
        run.rule_docs.pop(r_, None)
        run.minimum.pop(r_, None)
    # the read sets clash detection works on, and the rebuilding of mapped fields
    # (shared with C08.mapper / C08.ident)
    from . import c08 as _c08
    for r_ in ("C08.mapper", "C08.ident"):
        run.rule_docs.setdefault(r_, "")
        run.minimum.setdefault(r_, 0)
    n1_ = len(run.obs)
    run.do(_c08._mapper_config, run, P)
    run.do(_c08._ident, run, P, sm.statement_classes(P))
    for o_ in run.obs[n1_:]:
        if o_.rule in ("C08.mapper", "C08.ident"):
            o_.rule = "C16.fields"
    for r_ in ("C08.mapper", "C08.ident"):
        run.rule_docs.pop(r_, None)
        run.minimum.pop(r_, None)
    # what the default predicate protects (shared with C13.storage)
    from . import c13
    for r_ in ("C13.storage", "C01.persist"):
        run.rule_docs.setdefault(r_, "")
        run.minimum.setdefault(r_, 0)
    n0_ = len(run.obs)
    run.do(c13._storage, run, P)
    for o_ in run.obs[n0_:]:
        if o_.rule in ("C13.storage", "C01.persist"):
            o_.rule = "C16.pred"
    for r_ in ("C13.storage", "C01.persist"):
        run.rule_docs.pop(r_, None)
        run.minimum.pop(r_, None)


def _pred(run, P):
    fd = P.func(f"{MOD}.fuse_two_dags")
    fp = P.func(f"{MOD}.fuse_two_phases")
    pname = "should_disambiguate_name"
    if pname not in fd.params or pname not in fp.params:
        for what in ("fuse_two_dags passes it on", "fuse_two_phases passes it to "
                     "disambiguate_and_fuse", "default protects persistent names"):
            run.ob("C16.pred", fd, fd.node, False,
                   construct=f"'{pname}' is a parameter of fuse_two_dags and "
                             f"fuse_two_phases ({what})",
                   why="a predicate that is accepted and dropped lets pymbolic's "
                       "default (rename every clashing name) apply: <t>, <dt>, "
                       "<state>, <p> of the second method are renamed and no longer shared")
        di = P.func("pymbolic.imperative.transform.disambiguate_identifiers")
        run.ob("C16.pred", di, di.node, "lambda name: True" in ast.unparse(di.node),
               construct="pymbolic default predicate renames every clashing name",
               why="trusted-base fact")
        return
    calls = [n for n in ast.walk(fd.node) if isinstance(n, ast.Call)
             and dotted(n.func) == "fuse_two_phases"]
    idx = fp.params.index(pname)
    ok = bool(calls) and all(
        (len(c.args) > idx and dotted(c.args[idx]) == pname) or
        dotted(kwarg(c, pname)) == pname for c in calls)
    if not ok:
        # handed on inside another expression (a wrapper, a local it was assigned to):
        # what reaches the phase fusion is then not decided here
        for c in calls:
            a_ = c.args[idx] if len(c.args) > idx else kwarg(c, pname)
            if a_ is not None and dotted(a_) != pname and (
                    not isinstance(a_, ast.Constant)):
                raise AnalysisError(f"fuse_two_dags: {pname} reaches fuse_two_phases as "
                                    f"{norm(a_)[:60]}; not recognised")
    run.ob("C16.pred", fd, calls[0] if calls else fd.node, ok,
           construct=f"fuse_two_dags passes {pname} on to fuse_two_phases",
           why="a predicate that is accepted and dropped lets pymbolic's default "
               "(rename every clashing name) apply: <t>, <dt>, <state>, <p> of the "
               "second method are renamed and no longer shared")
    calls = [n for n in ast.walk(fp.node) if isinstance(n, ast.Call)
             and dotted(n.func) == "disambiguate_and_fuse"]
    ok = bool(calls) and all(
        (len(c.args) >= 3 and dotted(c.args[2]) == pname) or
        dotted(kwarg(c, pname)) == pname for c in calls)
    run.ob("C16.pred", fp, calls[0] if calls else fp.node, ok,
           construct=f"fuse_two_phases passes {pname} to disambiguate_and_fuse",
           why="see above")
    # default
    ok = False
    site = fp.node
    for n in ast.walk(fp.node):
        if isinstance(n, ast.If) and norm(n.test) == f"{pname} is None":
            site = n
            defs = [s for s in n.body if isinstance(s, ast.FunctionDef) and s.name == pname]
            lams = [s for s in n.body if isinstance(s, ast.Assign)
                    and isinstance(s.value, ast.Lambda)
                    and any(dotted(t) == pname for t in s.targets)]
            body = None
            arg = None
            from .util import nodoc
            if defs and len(nodoc(defs[0].body)) == 1 \
                    and isinstance(nodoc(defs[0].body)[0], ast.Return):
                body = nodoc(defs[0].body)[0].value
                arg = defs[0].args.args[0].arg
            elif lams:
                body = lams[0].value.body
                arg = lams[0].value.args.args[0].arg
            if body is not None and isinstance(body, ast.UnaryOp) \
                    and isinstance(body.op, ast.Not) and isinstance(body.operand, ast.Call) \
                    and len(body.operand.args) == 1 and dotted(body.operand.args[0]) == arg:
                # resolve the callee (imported locally)
                nested = fp.nested.get(pname, fp)
                tgt = P.resolve_name(nested, dotted(body.operand.func) or "") \
                    or P.resolve_name(fp, dotted(body.operand.func) or "")
                ok = isinstance(tgt, Func) and tgt.fq == "dagrt.utils.is_state_variable"
    run.ob("C16.pred", fp, site, ok,
           construct="default predicate: lambda name: not is_state_variable(name)",
           why="the default must leave persistent variables, <t> and <dt> shared and "
               "rename every per-step temporary (including <cond> flags); any other "
               "test shares temporaries between the two methods or splits state")
    # pymbolic default renames everything
    di = P.func("pymbolic.imperative.transform.disambiguate_identifiers")
    src = ast.unparse(di.node)
    ok = "should_disambiguate_name is None" in src and "lambda name: True" in src
    run.ob("C16.pred", di, di.node, ok,
           construct="pymbolic default predicate renames every clashing name",
           why="trusted-base fact that makes the repository's own default necessary")


def _fields(run, P):
    from . import c07
    c07.coverage(run, P, "C16.fields", include_written=True)
    for K in sm.statement_classes(P):
        D = sm.read_set(P, K)
        W = sm.written_set(P, K)
        names = c07._name_fields(P, K)
        need = D | W | names
        raw = sm.raw_copy_values(P, K, include_lhs=True)
        for field, (paths, f, node) in sorted(raw.items()):
            bad = set()
            for p in paths:
                for q in need:
                    qb = q[:-5] if q.endswith(".name") else q
                    if sm.covered(p, {qb}) or sm.covered(qb, {p}) \
                            or sm.covered(p.replace("[*]", ""), {qb.replace("[*]", "")}):
                        bad.add(p)
            run.ob("C16.fields", f, node, not bad,
                   construct=f"{K.name}: copy({field}={norm(node, 70)}) with include_lhs=True",
                   why=f"un-mapped {sorted(bad)} reaches the rebuilt statement: renaming "
                       f"the second method's variables leaves this part pointing at "
                       f"the first method's variable")


def _fast_path(run, P):
    """A path of fuse_two_phases that skips the renaming (it fuses by the id-uniquifying
    concatenation alone) is taken on the word of a clash test; the names that test looks
    at are, like pymbolic's own, read u written: a loop identifier is bound, not written."""
    f = P.func("dagrt.transform.fuse_two_phases")
    direct = [x for x in ast.walk(f.node) if isinstance(x, ast.Call)
              and (dotted(x.func) or "").split(".")[-1] == "fuse_statement_streams_with_unique_ids"]
    if not direct:
        return
    m = f.module
    helpers = {}
    for x in ast.walk(f.node):
        if isinstance(x, ast.BinOp) and isinstance(x.op, ast.BitAnd):
            for side in (x.left, x.right):
                if isinstance(side, ast.Call) and isinstance(side.func, ast.Name) and side.func.id in m.functions \
                        and side.args and norm(side.args[0]).endswith(".statements"):
                    helpers[side.func.id] = m.functions[side.func.id]
    if not helpers:
        raise AnalysisError("fuse_two_phases: a path fuses without renaming; the clash test in front of "
                            "it is not read")
    for name, h in sorted(helpers.items()):
        src = ast.unparse(h.node)
        ok = "get_read_variables()" in src and "get_written_variables()" in src
        run.ob("C16.clash", h, h.node, ok,
               construct=f"{name} (names compared before renaming is skipped) collects read u written "
                         f"variables",
               why="two methods that only share a loop identifier - or one loops over 'i' and the "
                   "other keeps a temporary 'i' - pass a test on written names and are fused "
                   "un-renamed: one method's loop unbinds the other's variable")


def _clash(run, P):
    """get_read_variables / get_written_variables never subtract names the
    statement binds (loop identifiers)."""
    da = P.func("pymbolic.imperative.analysis.get_all_used_identifiers")
    src = ast.unparse(da.node)
    ok = "get_read_variables()" in src and "get_written_variables()" in src
    run.ob("C16.clash", da, da.node, ok,
           construct="clash detection = read u written variables of both statement lists",
           why="trusted-base fact")
    seen = set()
    for K in sm.statement_classes(P):
        for meth in ("get_read_variables", "get_written_variables"):
            for f in sm._chain(P, K, meth):
                if f in seen:
                    continue
                seen.add(f)
                subs = []
                for n in ast.walk(f.node):
                    if isinstance(n, ast.BinOp) and isinstance(n.op, ast.Sub):
                        subs.append(n)
                    if isinstance(n, ast.AugAssign) and isinstance(n.op, ast.Sub):
                        subs.append(n)
                    if isinstance(n, ast.Call) and isinstance(n.func, ast.Attribute) \
                            and n.func.attr in ("difference", "difference_update", "discard", "remove"):
                        subs.append(n)
                bad = []
                for n in subs:
                    s = ast.unparse(n)
                    # accepted: AssignImplicit removes solve_variables (never
                    # executed by any back end and mapped consistently)
                    if "solve_variables" in s and "loops" not in s:
                        continue
                    bad.append(n)
                run.ob("C16.clash", f, bad[0] if bad else f.node, not bad,
                       construct=f"{f.qualname}: " + (
                           f"removes names: {norm(bad[0], 80)}" if bad else
                           "no name is removed from the declared set"),
                       why="a name used only as a loop identifier in one method is not "
                           "seen as clashing with the other method's variable of the "
                           "same name and stays shared")


def _ids(run, P):
    fp = P.func(f"{MOD}.fuse_two_phases")
    src = ast.unparse(fp.node)
    asg = [s for s in func_body_stmts(fp.node) if isinstance(s, ast.Assign)
           and isinstance(s.value, ast.Call) and dotted(s.value.func) == "disambiguate_and_fuse"]
    ok = False
    if asg and isinstance(asg[0].targets[0], ast.Tuple):
        first = dotted(asg[0].targets[0].elts[0])
        rets = [n for n in ast.walk(fp.node) if isinstance(n, ast.Call)
                and dotted(n.func) == "ExecutionPhase"]
        ok = any(dotted(kwarg(r, "statements")) == first for r in rets) \
            and norm(asg[0].value.args[0]) == f"{fp.arg(1)}.statements" \
            and norm(asg[0].value.args[1]) == f"{fp.arg(2)}.statements"
    run.ob("C16.ids", fp, asg[0] if asg else fp.node, ok,
           construct="ExecutionPhase(statements=<first result of disambiguate_and_fuse(phase1.statements, phase2.statements, ...)>)",
           why="the fused phase must contain the statements of both with unique ids")
    fs = P.func("pymbolic.imperative.transform.fuse_statement_streams_with_unique_ids")
    src = ast.unparse(fs.node)
    ok = "stmtb.copy(id=new_id)" in src and "old_b_id_to_new_b_id[dep_id]" in src \
        and "for dep_id in stmtb.depends_on" in src
    run.ob("C16.ids", fs, fs.node, ok,
           construct="pymbolic: ids uniquified and depends_on remapped through the same map",
           why="trusted-base fact: internal dependencies stay intact")
    daf = P.func("pymbolic.imperative.transform.disambiguate_and_fuse")
    src = ast.unparse(daf.node)
    ok = "disambiguate_identifiers(statements_a, statements_b, should_disambiguate_name)" in src \
        and "fuse_statement_streams_with_unique_ids(statements_a, statements_b)" in src
    run.ob("C16.ids", daf, daf.node, ok,
           construct="pymbolic: disambiguate, then fuse with unique ids",
           why="trusted-base fact")


def _agree(run, P):
    from ..engine.cfg import CFG
    fp = P.func(f"{MOD}.fuse_two_phases")
    g = CFG(fp.node)
    tests = [n for n in g.nodes if n.kind == "test"
             and norm(n.ast) in (f"{fp.arg(1)}.next_phase != {fp.arg(2)}.next_phase",
                                 f"{fp.arg(2)}.next_phase != {fp.arg(1)}.next_phase")]
    fuse = [n for n in g.nodes if n.kind == "stmt" and "disambiguate_and_fuse(" in ast.unparse(n.ast)]
    ok = bool(tests) and bool(fuse) and not g.always_preceded(fuse, tests) \
        and isinstance(tests[0].label.body[0], ast.Raise)
    run.ob("C16.agree", fp, tests[0].ast if tests else fp.node, ok,
           construct="next_phase disagreement raises before fusing",
           why="a fused phase can have only one default successor")
    fd = P.func(f"{MOD}.fuse_two_dags")
    g = CFG(fd.node)
    tests = [n for n in g.nodes if n.kind == "test"
             and norm(n.ast) in (f"{fd.arg(0)}.initial_phase != {fd.arg(1)}.initial_phase",
                                 f"{fd.arg(1)}.initial_phase != {fd.arg(0)}.initial_phase")]
    rets = [n for n in g.nodes if n.kind == "stmt" and isinstance(n.ast, ast.Return)]
    ok = bool(tests) and not g.always_preceded(rets, tests) \
        and isinstance(tests[0].label.body[0], ast.Raise)
    run.ob("C16.agree", fd, tests[0].ast if tests else fd.node, ok,
           construct="initial_phase disagreement raises before a result is returned",
           why="the fused method can start in only one phase")
    # the walk over the phase names, written as a loop or as a comprehension
    loops = [n for n in ast.walk(fd.node) if isinstance(n, (ast.For, ast.comprehension))
             and ".phases" in norm(n.iter)]
    if len(loops) != 1:
        raise AnalysisError(f"fuse_two_dags: {len(loops)} walks over the phase names; one expected")
    ok = isinstance(loops[0].iter, ast.Call) and dotted(loops[0].iter.func) == "sorted"
    run.ob("C16.order", fd, loops[0] if isinstance(loops[0], ast.For) else loops[0].iter, ok,
           construct=f"for phase_name in {norm(loops[0].iter)}",
           why="the Python generator emits phases in dictionary order; a set order "
               "makes the generated text depend on the hash seed (C15)")


def _resolve_local(fn, expr, depth=3):
    """Follow single-assignment locals to their defining expression."""
    while depth and isinstance(expr, ast.Name):
        defs = [s_.value for s_ in ast.walk(fn) if isinstance(s_, ast.Assign)
                and len(s_.targets) == 1 and isinstance(s_.targets[0], ast.Name)
                and s_.targets[0].id == expr.id]
        if len(defs) != 1:
            return expr
        expr = defs[0]
        depth -= 1
    return expr


def _phases(run, P):
    from ..engine.cfg import CFG
    fd = P.func(f"{MOD}.fuse_two_dags")
    fp = P.func(f"{MOD}.fuse_two_phases")
    d1, d2 = fd.params[0], fd.params[1]
    calls = [n for n in ast.walk(fd.node) if isinstance(n, ast.Call)
             and dotted(n.func) == "fuse_two_phases"]
    loops = [n for n in ast.walk(fd.node) if isinstance(n, ast.For)
             and any(c in list(ast.walk(n)) for c in calls)]
    if not calls or not loops:
        raise AnalysisError("fuse_two_dags: phase loop with the fuse_two_phases call not found")
    lp = loops[0]
    it = _resolve_local(fd.node, lp.iter)
    # expand locals inside the iterable once
    srcs = set()
    bad_ops = []
    todo = [it]
    seen = 0
    while todo and seen < 50:
        x = todo.pop()
        seen += 1
        for n in ast.walk(x):
            if isinstance(n, ast.Attribute) and n.attr == "phases" and isinstance(n.value, ast.Name) \
                    and n.value.id in (d1, d2):
                srcs.add(n.value.id)
            elif isinstance(n, ast.Name) and n is not x:
                r = _resolve_local(fd.node, n)
                if r is not n:
                    todo.append(r)
            elif isinstance(n, ast.BinOp) and isinstance(n.op, (ast.BitAnd, ast.Sub, ast.BitXor)):
                bad_ops.append(type(n.op).__name__)
            elif isinstance(n, ast.Call) and isinstance(n.func, ast.Attribute) \
                    and n.func.attr in ("intersection", "difference", "symmetric_difference"):
                bad_ops.append(n.func.attr)
    ok = srcs == {d1, d2} and not bad_ops
    run.ob("C16.phases", fd, lp, ok,
           construct=f"phase loop ranges over the phase names of both {d1} and {d2} "
                     f"(sources: {sorted(srcs)}{', narrowed by ' + ','.join(bad_ops) if bad_ops else ''})",
           why="a phase that only one method has (a recovery or bootstrap phase) would "
               "be dropped from the fused method; the run fails or goes wrong only "
               "when the transition into it fires")
    # each side looked up in its own map under the loop's phase name
    key = None
    if isinstance(lp.target, ast.Name):
        key = lp.target.id
    elif isinstance(lp.target, ast.Tuple) and lp.target.elts and isinstance(lp.target.elts[0], ast.Name):
        key = lp.target.elts[0].id
    c = calls[0]
    names = fp.params

    def arg(k):
        i = names.index(k)
        if len(c.args) > i:
            return c.args[i]
        return kwarg(c, k)

    for k, d in ((names[1], d1), (names[2], d2)):
        a = arg(k)
        r = _resolve_local(lp, a) if a is not None else None
        shape = norm(r) if r is not None else "?"
        ok = key is not None and shape in (f"{d}.phases.get({key})", f"{d}.phases.get({key}, None)")
        if not ok and isinstance(a, ast.Name) and isinstance(lp.target, ast.Tuple):
            # for name, phase in sorted(<d>.phases.items()) binds that side directly -
            # acceptable only if the loop still ranges over both maps (checked above)
            ok = False
        run.ob("C16.phases", fd, a if a is not None else c, ok,
               construct=f"{k} = {d}.phases.get(<loop phase name>)  (found: {shape})",
               why="each method contributes its own phase of that name, or None")
    sub = [n for n in ast.walk(fd.node) if isinstance(n, ast.Assign)
           and isinstance(n.targets[0], ast.Subscript) and n.value is c]
    ret = [n for n in ast.walk(fd.node) if isinstance(n, ast.Return)]
    ok = bool(sub) and key is not None and dotted(sub[0].targets[0].slice) == key \
        and len(ret) == 1 and isinstance(ret[0].value, ast.Call) and ret[0].value.args \
        and dotted(ret[0].value.args[0]) == dotted(sub[0].targets[0].value)
    if not sub and any(isinstance(x, ast.Call) and (dotted(x.func) or "").endswith("from_phases_list")
                       for x in ast.walk(fd.node)):
        # built from a list by DAGCode.from_phases_list, which keys by ExecutionPhase.name:
        # right exactly when every listed phase is given its key as its name
        renamed = [x for x in ast.walk(fd.node) if isinstance(x, ast.Call) and isinstance(x.func, ast.Attribute)
                   and x.func.attr == "copy" and any(k_.arg == "name" and dotted(k_.value) == key
                                                     for k_ in x.keywords)]
        run.ob("C16.phases", fd, renamed[0] if renamed else fd.node, bool(renamed),
               construct="from_phases_list: every listed phase is a copy named by the key it has in "
                         "the input methods" + ("" if renamed else " (no .copy(name=<key>))"),
               why="from_phases_list files a phase under its .name: a phase whose name differs "
                   "from its key ends up under another key, and initial phase, successors and "
                   "switches no longer find it")
        ok = True
        sub = sub or [fd.node]
    run.ob("C16.phases", fd, sub[0] if sub else fd.node, ok,
           construct="result[phase name] = fuse_two_phases(...); the returned DAGCode is built from that map",
           why="every fused phase is stored under its own name and returned")
    # one-sided phases are returned unchanged; no path returns nothing
    g = CFG(fp.node)
    p1, p2 = names[1], names[2]
    rets = [n.ast for n in g.nodes if n.kind == "stmt" and isinstance(n.ast, ast.Return)]
    vals = {dotted(r.value) for r in rets if r.value is not None}
    live = g.reachable([g.entry], include_start=True)
    falls = [a for a, lab in g.pred[g.exit] if lab == "fall" and a in live]
    ok = {p1, p2} <= vals and all(r.value is not None for r in rets) and not falls
    run.ob("C16.phases", fp, fp.node, ok,
           construct=f"a phase present on one side only is returned as it is "
                     f"(returns: {sorted(v for v in vals if v)}); no path returns nothing",
           why="dropping or emptying a one-sided phase loses that method's statements")


def _table(run, P):
    """fuse_two_phases as a decision table, by abstract interpretation over terms over which of
    the two phases is present (any loop-free re-writing is understood)."""
    from ..engine import casetable as se
    run.rule("C16.table", "fuse_two_phases, case by case (abstract interpretation over terms): only one "
             "phase present - that phase is returned; both present and their default "
             "successors differ - ValueError; both present - an ExecutionPhase of the "
             "common name and successor whose statements are the first result of "
             "disambiguate_and_fuse(first.statements, second.statements, predicate); "
             "neither - ValueError", minimum=5)
    f = P.func("dagrt.transform.fuse_two_phases")
    if len(f.params) < 4:
        raise AnalysisError("fuse_two_phases(phase_name, phase1, phase2, should_disambiguate_name) expected")
    pn, p1, p2, pr = f.params[:4]
    ev = se.Evaluator(P)
    P1, P2, PRED, NAME = ("obj", "first"), ("obj", "second"), ("obj", "predicate"), ("obj", "phase_name")
    for a1 in (se.NONE, P1):
        for a2 in (se.NONE, P2):
            for apr in (se.NONE, PRED):
                outs = ev.outcomes(f, {pn: NAME, p1: a1, p2: a2, pr: apr})
                case = f"first {'present' if a1 != se.NONE else 'absent'}, second " \
                       f"{'present' if a2 != se.NONE else 'absent'}, predicate " \
                       f"{'given' if apr != se.NONE else 'default'}"
                bad = None
                for (kind, val), facts in outs:
                    differ = None
                    for k, v in facts.items():
                        if k[0] == "eq" and {k[1], k[2]} == {("attr", P1, "next_phase"), ("attr", P2, "next_phase")}:
                            differ = not v
                    if a1 == se.NONE and a2 == se.NONE:
                        ok = kind == "raise" and val == "ValueError"
                        want = "ValueError"
                    elif a2 == se.NONE:
                        ok = kind == "return" and val == P1
                        want = "the first phase"
                    elif a1 == se.NONE:
                        ok = kind == "return" and val == P2
                        want = "the second phase"
                    elif differ:
                        ok = kind == "raise" and val == "ValueError"
                        want = "ValueError (default successors differ)"
                    else:
                        want = "ExecutionPhase(name, next_phase, statements=disambiguate_and_fuse(...)[0])"
                        ok = False
                        if kind == "raise" and val not in ("ValueError",) and differ is not None:
                            # a sanity check on the fused result that can refuse it: under which
                            # inputs it does is in a helper's loop over names, not decided here
                            raise AnalysisError(f"fuse_two_phases: {case}: may raise {val} after "
                                                f"fusing; not decided")
                        if kind == "return" and val[0] == "call" and val[1][0] == "name" \
                                and val[1][1].split(".")[-1] == "ExecutionPhase" and differ is not None:
                            kw = dict(val[3])
                            pos = list(val[2])
                            name_t = kw.get("name", pos[0] if pos else None)
                            next_t = kw.get("next_phase", pos[1] if len(pos) > 1 else None)
                            st_t = kw.get("statements", pos[2] if len(pos) > 2 else None)
                            name_ok = name_t in (("attr", P1, "name"), ("attr", P2, "name"), NAME)
                            next_ok = next_t in (("attr", P1, "next_phase"), ("attr", P2, "next_phase"))
                            st_ok = False
                            if st_t is not None and st_t[0] == "item" and st_t[2] == 0 and st_t[1][0] == "call" \
                                    and st_t[1][1][0] == "name" \
                                    and st_t[1][1][1].split(".")[-1] == "disambiguate_and_fuse":
                                cargs = st_t[1][2]
                                st_ok = len(cargs) == 3 and cargs[0] == ("attr", P1, "statements") \
                                    and cargs[1] == ("attr", P2, "statements") \
                                    and (cargs[2] == PRED if apr != se.NONE else cargs[2][0] == "fn")
                            ok = name_ok and next_ok and st_ok
                            if name_ok and next_ok and not st_ok and st_t is not None:
                                def mentions(t_, what):
                                    return t_ == what or (isinstance(t_, tuple) and any(
                                        mentions(x_, what) for x_ in t_))
                                both = mentions(st_t, ("attr", P1, "statements")) and \
                                    mentions(st_t, ("attr", P2, "statements"))
                                def calls_function(t_):
                                    return isinstance(t_, tuple) and (
                                        (len(t_) > 1 and t_[0] == "call" and isinstance(t_[1], tuple)
                                         and t_[1][:1] == ("name",)
                                         and t_[1][1].split(".")[-1][:1].islower()
                                         and t_[1][1].split(".")[-1] not in (
                                             "disambiguate_and_fuse", "list", "tuple", "sorted"))
                                        or any(calls_function(x_) for x_ in t_))
                                other = calls_function(st_t)
                                if both and other:
                                    # both statement lists go into some other fusion (a fast
                                    # path for phases without clashing names, say): whether
                                    # that renames what it must is not decided by this table
                                    raise AnalysisError(
                                        f"fuse_two_phases: {case}: statements come from "
                                        f"{se.show(st_t)[:60]}; not decided")
                        elif kind == "return" and differ is None:
                            ok = False
                            want = "a comparison of the default successors before fusing"
                    if not ok:
                        got = f"raises {val}" if kind == "raise" else f"returns {se.show(val)[:90]}"
                        bad = f"{got}; expected {want}"
                        break
                run.ob("C16.table", f, f.node, bad is None,
                       construct=f"fuse_two_phases: {case}" + (f": {bad}" if bad else ""),
                       why="a phase that only one method has must come through unchanged, two "
                           "phases of the same name must be fused from the first method's and the "
                           "second method's statements in that order, and a disagreement about "
                           "the default successor must be reported")


def check(run, P):
    run.do(_check_main, run, P)
    from . import generic
    generic.lints(run, P, "C16")
