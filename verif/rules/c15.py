"""C15 - generated source text is a pure function of the method description."""

from __future__ import annotations

import ast

from ..engine.match import dotted, norm, func_body_stmts
from ..engine.srcmodel import AnalysisError, Class, Func, Program
from ..engine.taint import Taint

EXPLANATION = (
    "Set-typedness / order-taint inference x order-sensitive sinks over the "
    "whole dagrt package (interprocedural through return, parameter and "
    "attribute summaries). Decides, for every program and hash seed: no "
    "iteration over a set/frozenset (or anything derived from one without "
    "sorted(): dict filled in such a loop, list appended in such a loop, "
    "joined string, statements/depends_on fields, collector results) reaches "
    "emission of generated text, allocation of generated names or statement "
    "ids, the result order of the lowering, or the phase map handed to a "
    "generator; and no module-level / class-level / default-argument mutable "
    "object is written, or stored un-copied in mutated instance state, on "
    "code reachable from the generators. A positive control (a five-line "
    "module held in memory) must be reported on every run. Does not decide: "
    "the interpreter clause (C02 + C08), nor order dependence inside "
    "pymbolic/pytools.")

ASSUMPTIONS = [
    "iteration order of set/frozenset is unspecified; dict preserves insertion order",
    "emitters, name managers and id generators are recognised by the naming conventions of the repository (emit*, *_name_gen, name_*, make_unique_fortran_name, name_manager[...])",
    "pymbolic/pytools internals are trusted (only their return kinds are summarised)",
]

CONTROL_SRC = '''
class _ControlGen:
    def emit(self, line):
        pass

    def run(self, stmt):
        for v in stmt.get_read_variables() | stmt.get_written_variables():
            self.emit("use " + v)

    def clean(self, stmt):
        for v in sorted(stmt.get_read_variables()):
            self.emit("use " + v)
'''

# Non-instances reviewed by hand (rule, function, construct) -> reason.  These
# are NOT suppressions of findings: they are class-level writes that were read
# and found to be outside the generators' call graph.
REVIEWED_GLOBAL = {
    ("dagrt.codegen.fortran.ArrayType.__init__.get_index_var", "ArrayType.INDEX_VAR_COUNTER"):
        "class-level counter bumped when the *user* constructs an ArrayType "
        "without index_vars; the generators construct only PointerType / "
        "BuiltinType. It does make default index names depend on how many "
        "ArrayTypes were built earlier in the process (user-side input "
        "construction); reported as NOTE.",
}


def check(run, P):
    run.rule("C15.unordered",
             "no iteration over an order-tainted value reaches emission, name/id "
             "allocation, the lowering's result order or the phase map",
             minimum=20)
    run.rule("C15.control", "positive control: the in-memory control module is "
             "reported (tainted loop) and its sorted twin is not", minimum=2)
    run.rule("C15.global", "no module-/class-level or default-argument mutable is "
             "written, or aliased un-copied into mutated instance state, by "
             "package code", minimum=3)

    T = Taint(P)
    T.run()
    seen = set()
    for f, node, what, sink in T.examined:
        key = (f.fq, getattr(node, "lineno", 0), what)
        if key in seen:
            continue
        seen.add(key)
        run.ob("C15.unordered", f, node, not sink,
               construct=what,
               why=(f"iteration order of an unordered container reaches an "
                    f"order-sensitive sink ({sink}); generated text / names then "
                    f"vary with PYTHONHASHSEED or container order") if sink else
                   "unordered iteration feeds only order-insensitive uses")
    for fd in T.findings:
        if any(fd.node is n for _, n, _, _ in T.examined):
            continue
        run.ob("C15.unordered", fd.func, fd.node, False,
               construct=f"{fd.what} {fd.sink}",
               why="an order-tainted value is handed directly to an "
                   "order-sensitive sink")
    run.extra["tainted_returns"] = sorted(f.fq for f, v in T.ret_taint.items() if v)
    run.extra["tainted_attributes"] = sorted(f"{c}.{a}" for (c, a), v in T.attr_taint.items() if v)

    # positive control
    P2 = Program(repo_root=P.repo_root,
                 overlay={**P.overlay, "dagrt/_verif_control.py": CONTROL_SRC})
    T2 = Taint(P2, modules={"dagrt._verif_control"})
    T2.run()
    hit = [fd for fd in T2.findings if fd.func.name == "run"]
    clean = [fd for fd in T2.findings if fd.func.name == "clean"]
    m2 = P2.module("dagrt._verif_control")
    run.ob("C15.control", (m2.relpath, "_ControlGen.run", 6), None, bool(hit),
           construct="control: for v in reads | writes: self.emit(...)",
           why="the analysis must report the control on every run (non-vacuity)")
    run.ob("C15.control", (m2.relpath, "_ControlGen.clean", 10), None, not clean,
           construct="control twin: for v in sorted(reads): self.emit(...)",
           why="sorted() must clear the taint")
    if not hit or clean:
        raise AnalysisError("C15 positive control failed: taint engine is broken")

    _globals(run, P)


# {{{ global state

MUTATORS = {"append", "extend", "insert", "update", "add", "pop", "popitem", "clear",
            "setdefault", "remove", "discard", "sort", "reverse", "__setitem__"}


def _is_mutable_literal(v):
    if isinstance(v, (ast.Dict, ast.List, ast.Set, ast.ListComp, ast.DictComp, ast.SetComp)):
        return True
    if isinstance(v, ast.Call) and dotted(v.func) in (
            "dict", "list", "set", "defaultdict", "OrderedDict", "deque",
            "collections.defaultdict", "collections.OrderedDict"):
        return True
    return False


def _globals(run, P):
    n = 0
    for m in P.repo_modules():
        mutable_globals = {name for name, v in m.assigns.items() if _is_mutable_literal(v)}
        for f in m.functions.values():
            params = set(f.params)
            local_names = {t.id for s in ast.walk(f.node) if isinstance(s, ast.Assign)
                           for t in s.targets if isinstance(t, ast.Name)}
            declared_global = {g for s in ast.walk(f.node) if isinstance(s, ast.Global)
                               for g in s.names}
            nested_nodes = {id(x) for g in f.nested.values() for x in ast.walk(g.node)}
            for s in ast.walk(f.node):
                if id(s) in nested_nodes:
                    continue
                # (1) global X; X = ...
                if isinstance(s, (ast.Assign, ast.AugAssign)):
                    tg = s.targets if isinstance(s, ast.Assign) else [s.target]
                    for t in tg:
                        if isinstance(t, ast.Name) and t.id in declared_global:
                            n += 1
                            run.ob("C15.global", f, s, False,
                                   why="module-level state written by a function: "
                                       "results depend on earlier calls in the process")
                        # (2) ClassName.ATTR = ...
                        if isinstance(t, ast.Attribute) and isinstance(t.value, ast.Name):
                            tgt = P.resolve_name(f, t.value.id)
                            if isinstance(tgt, Class) and t.value.id not in params \
                                    and t.value.id not in local_names:
                                key = (f.fq, f"{t.value.id}.{t.attr}")
                                n += 1
                                if key in REVIEWED_GLOBAL:
                                    run.note(f"C15.global reviewed non-instance {key[1]} in "
                                             f"{f.fq}: {REVIEWED_GLOBAL[key]}")
                                    run.ob("C15.global", f, s, True,
                                           construct=f"{norm(s)} (reviewed: user-side "
                                                     f"constructor, not on a generator path)",
                                           why="reviewed non-instance")
                                else:
                                    run.ob("C15.global", f, s, False,
                                           why="class-level state written by a function: "
                                               "a later generator object inherits it")
                        # (3) G[k] = v on a module-level mutable
                        if isinstance(t, ast.Subscript) and isinstance(t.value, ast.Name) \
                                and t.value.id in mutable_globals \
                                and t.value.id not in local_names and t.value.id not in params:
                            n += 1
                            run.ob("C15.global", f, s, False,
                                   why="module-level container mutated by a function")
                if isinstance(s, ast.Call) and isinstance(s.func, ast.Attribute) \
                        and s.func.attr in MUTATORS and isinstance(s.func.value, ast.Name) \
                        and s.func.value.id in mutable_globals \
                        and s.func.value.id not in local_names and s.func.value.id not in params:
                    n += 1
                    run.ob("C15.global", f, s, False,
                           why="module-level container mutated by a function")

    # (4) aliasing: parameter stored un-copied in self.attr that the class mutates,
    # fed from a module-level mutable or a mutable default
    for m in P.repo_modules():
        for c in m.classes.values():
            mutated = _mutated_attrs(P, c)
            for meth in c.methods.values():
                for s in func_body_stmts(meth.node):
                    if isinstance(s, ast.Assign) and isinstance(s.value, ast.Name) \
                            and s.value.id in meth.params:
                        for t in s.targets:
                            d = dotted(t)
                            if d and d.startswith("self.") and d[5:] in mutated:
                                n += 1
                                # aliasing site: is the parameter ever re-bound to a
                                # fresh object first?
                                pname = s.value.id
                                rebound = any(
                                    isinstance(x, ast.Assign) and any(
                                        isinstance(tt, ast.Name) and tt.id == pname
                                        for tt in x.targets) and x.lineno < s.lineno
                                    and not isinstance(x.value, ast.Name)
                                    for x in func_body_stmts(meth.node))
                                feeds = _alias_feeds(P, c, meth, pname)
                                ok = not feeds
                                run.ob("C15.global", meth, s, ok,
                                       construct=f"{norm(s)} ({d} is mutated by {c.name}); "
                                                 f"callers pass {feeds or 'fresh objects only'}",
                                       why="a shared mutable object stored un-copied in "
                                           "instance state is mutated by every generator "
                                           "object and inherited by later ones")
    if n < 1:
        raise AnalysisError("C15.global: no candidate site examined")
    # always record the scan itself
    run.ob("C15.global", P.module("dagrt.codegen.utils"), None, True,
           construct=f"scanned {sum(len(m.functions) for m in P.repo_modules())} functions "
                     f"for writes to module/class-level state",
           why="scan summary")
    run.ob("C15.global", P.module("dagrt.codegen.python"), None, True,
           construct="scanned constructors for un-copied aliasing of shared mutables",
           why="scan summary")


def _mutated_attrs(P, c: Class):
    out = set()
    for k in [c] + P.subclasses(c):
        for meth in k.methods.values():
            for s in ast.walk(meth.node):
                if isinstance(s, (ast.Assign, ast.AugAssign, ast.Delete)):
                    tg = s.targets if isinstance(s, (ast.Assign, ast.Delete)) else [s.target]
                    for t in tg:
                        if isinstance(t, ast.Subscript):
                            d = dotted(t.value)
                            if d and d.startswith("self.") and d.count(".") == 1:
                                out.add(d[5:])
                if isinstance(s, ast.Call) and isinstance(s.func, ast.Attribute) \
                        and s.func.attr in MUTATORS:
                    d = dotted(s.func.value)
                    if d and d.startswith("self.") and d.count(".") == 1:
                        out.add(d[5:])
    return out


def _alias_feeds(P, c: Class, meth: Func, pname):
    """Shared mutables that reach parameter *pname* of c.meth: a mutable
    default value, or a module-level mutable passed at a call site."""
    feeds = []
    a = meth.node.args
    names = [x.arg for x in a.args]
    if pname in names:
        i = names.index(pname) - (len(names) - len(a.defaults))
        if i >= 0 and _is_mutable_literal(a.defaults[i]):
            feeds.append(f"mutable default {norm(a.defaults[i])}")
    idx = names.index(pname) - 1 if pname in names else None
    if meth.name != "__init__":
        return feeds
    for m in P.repo_modules():
        mutable_globals = {name for name, v in m.assigns.items() if _is_mutable_literal(v)}
        for f in m.functions.values():
            for call in ast.walk(f.node):
                if not isinstance(call, ast.Call):
                    continue
                tgt = P.resolve_expr(f, call.func)
                if tgt is not c:
                    continue
                arg = None
                for kw in call.keywords:
                    if kw.arg == pname:
                        arg = kw.value
                if arg is None and idx is not None and idx < len(call.args):
                    arg = call.args[idx]
                if isinstance(arg, ast.Name):
                    # module-level mutable (here or imported)
                    if arg.id in mutable_globals:
                        feeds.append(f"module-level {m.name}.{arg.id} at {f.qualname}")
                    else:
                        r = P.resolve_name(f, arg.id)
                        if isinstance(r, ast.AST) and _is_mutable_literal(r):
                            feeds.append(f"module-level {arg.id} at {f.qualname}")
    return feeds

# }}}
