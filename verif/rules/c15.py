"""C15 - generated source text is a pure function of the method description."""

from __future__ import annotations

import ast

from ..engine.match import dotted, norm, func_body_stmts
from ..engine.srcmodel import AnalysisError, Class, Func, Program
from ..engine.taint import Taint

EXPLANATION = (
    "Set-typedness / order-taint inference x order-sensitive sinks over the "
    "whole dagrt package (interprocedural through return, parameter and "
    "attribute summaries). Decides, for every program and hash seed: no "
    "iteration over a set/frozenset (or anything derived from one without "
    "sorted(): dict filled in such a loop, list appended in such a loop, "
    "joined string, statements/depends_on fields, collector results) reaches "
    "emission of generated text, allocation of generated names or statement "
    "ids, the result order of the lowering, or the phase map handed to a "
    "generator; and no module-level / class-level / default-argument mutable "
    "object is written, or stored un-copied in mutated instance state, on "
    "code reachable from the generators. A positive control (a five-line "
    "module held in memory) must be reported on every run. Does not decide: "
    "the interpreter clause (C02 + C08), nor order dependence inside "
    "pymbolic/pytools.")

ASSUMPTIONS = [
    "iteration order of set/frozenset is unspecified; dict preserves insertion order",
    "emitters, name managers and id generators are recognised by the naming conventions of the repository (emit*, *_name_gen, name_*, make_unique_fortran_name, name_manager[...])",
    "pymbolic/pytools internals are trusted (only their return kinds are summarised)",
]

CONTROL_SRC = '''
class _ControlGen:
    def emit(self, line):
        pass

    def run(self, stmt):
        for v in stmt.get_read_variables() | stmt.get_written_variables():
            self.emit("use " + v)

    def clean(self, stmt):
        for v in sorted(stmt.get_read_variables()):
            self.emit("use " + v)


def _control_mutates(statement):
    loops = statement.loops
    loops.reverse()
    return loops


def _control_copies(statement):
    loops = list(statement.loops)
    loops.reverse()
    return loops
'''

# Non-instances reviewed by hand (rule, function, construct) -> reason.  These
# are NOT suppressions of findings: they are class-level writes that were read
# and found to be outside the generators' call graph.
REVIEWED_GLOBAL = {
    ("dagrt.codegen.fortran.ArrayType.__init__.get_index_var", "ArrayType.INDEX_VAR_COUNTER"):
        "class-level counter bumped when the *user* constructs an ArrayType "
        "without index_vars; the generators construct only PointerType / "
        "BuiltinType. It does make default index names depend on how many "
        "ArrayTypes were built earlier in the process (user-side input "
        "construction); reported as NOTE.",
}


def _check_main(run, P):
    run.rule("C15.unordered",
             "no iteration over an order-tainted value reaches emission, name/id "
             "allocation, the lowering's result order or the phase map",
             minimum=20)
    run.rule("C15.control", "positive control: the in-memory control module is "
             "reported (tainted loop) and its sorted twin is not", minimum=2)
    run.rule("C15.global", "no module-/class-level or default-argument mutable is "
             "written, or aliased un-copied into mutated instance state, by "
             "package code", minimum=3)

    T = Taint(P)
    T.run()
    seen = set()
    for f, node, what, sink in T.examined:
        key = (f.fq, getattr(node, "lineno", 0), what)
        if key in seen:
            continue
        seen.add(key)
        run.ob("C15.unordered", f, node, not sink,
               construct=what,
               why=(f"iteration order of an unordered container reaches an "
                    f"order-sensitive sink ({sink}); generated text / names then "
                    f"vary with PYTHONHASHSEED or container order") if sink else
                   "unordered iteration feeds only order-insensitive uses")
    for fd in T.findings:
        if any(fd.node is n for _, n, _, _ in T.examined):
            continue
        run.ob("C15.unordered", fd.func, fd.node, False,
               construct=f"{fd.what} {fd.sink}",
               why="an order-tainted value is handed directly to an "
                   "order-sensitive sink")
    run.extra["tainted_returns"] = sorted(f.fq for f, v in T.ret_taint.items() if v)
    run.extra["tainted_attributes"] = sorted(f"{c}.{a}" for (c, a), v in T.attr_taint.items() if v)

    # positive control
    P2 = Program(repo_root=P.repo_root,
                 overlay={**P.overlay, "dagrt/_verif_control.py": CONTROL_SRC})
    T2 = Taint(P2, modules={"dagrt._verif_control"})
    T2.run()
    hit = [fd for fd in T2.findings if fd.func.name == "run"]
    clean = [fd for fd in T2.findings if fd.func.name == "clean"]
    m2 = P2.module("dagrt._verif_control")
    run.ob("C15.control", (m2.relpath, "_ControlGen.run", 6), None, bool(hit),
           construct="control: for v in reads | writes: self.emit(...)",
           why="the analysis must report the control on every run (non-vacuity)")
    run.ob("C15.control", (m2.relpath, "_ControlGen.clean", 10), None, not clean,
           construct="control twin: for v in sorted(reads): self.emit(...)",
           why="sorted() must clear the taint")
    if not hit or clean:
        raise AnalysisError("C15 positive control failed: taint engine is broken")

    run.do(_globals, run, P)
    run.do(_carried, run, P, T)
    run.do(_memoised, run, P)
    run.do(_inputs, run, P, P2)
    run.do(_plan, run, P)


# {{{ interpreter: the plan is built in a fixed order

def _plan(run, P):
    run.rule("C15.plan", "the interpreter's execution plan is built by sorted walks over "
             "the (unordered) roots and dependency sets", minimum=2)
    f = P.func("dagrt.language.ExecutionController.update_plan")
    loops = []
    for fn in [f] + list(f.nested.values()):
        for x in ast.walk(fn.node):
            if isinstance(x, ast.For) and any(
                    isinstance(y, ast.Call) and isinstance(y.func, ast.Name)
                    and y.func.id in f.nested for y in ast.walk(x)):
                if not any(x is z[1] for z in loops):
                    loops.append((fn, x))
    if len(loops) < 2:
        raise AnalysisError("update_plan: walks over roots / dependencies not found")
    for fn, lp in loops:
        it = lp.iter
        ok = isinstance(it, ast.Call) and dotted(it.func) in ("sorted", "natsorted")
        if not ok and isinstance(it, ast.Name):
            # a local: sorted if every value it is given is sorted(...), or comes out of a
            # table of the same function whose every stored value is sorted(...)
            srcs = [s_.value for s_ in ast.walk(fn.node) if isinstance(s_, ast.Assign)
                    and any(isinstance(t_, ast.Name) and t_.id == it.id for t_ in s_.targets)]

            def is_sorted(v):
                if isinstance(v, ast.Call) and dotted(v.func) in ("sorted", "natsorted"):
                    return True
                if isinstance(v, ast.Subscript) and dotted(v.value):
                    tbl = dotted(v.value)
                    stored = [s_.value for s_ in ast.walk(fn.node) if isinstance(s_, ast.Assign)
                              and any(isinstance(t_, ast.Subscript) and dotted(t_.value) == tbl
                                      for t_ in s_.targets)]
                    return bool(stored) and all(is_sorted(x_) for x_ in stored)
                return None
            verdicts = [is_sorted(v) for v in srcs]
            is_param = it.id in fn.params or (fn.parent is not None and it.id in fn.parent.params)
            if is_param:
                # what the caller hands in arrives as it is unless it is re-bound, sorted,
                # by a statement every path runs through
                owner = fn if it.id in fn.params else fn.parent
                uncond = [s_ for s_ in owner.node.body if isinstance(s_, ast.Assign)
                          and any(isinstance(t_, ast.Name) and t_.id == it.id for t_ in s_.targets)
                          and is_sorted(s_.value) is True]
                ok = bool(uncond)
            elif srcs and all(v is True for v in verdicts):
                ok = True
            elif not srcs or any(v is None for v in verdicts):
                raise AnalysisError(f"update_plan: where {it.id} of 'for {norm(lp.target)} in "
                                    f"{it.id}' comes from is not recognised")
        run.ob("C15.plan", fn, lp, ok,
               construct=f"for {norm(lp.target)} in {norm(it, 60)}",
               why="independent statements are executed, and their events produced, in "
                   "the order of this walk: over a set it changes with PYTHONHASHSEED")

# }}}


# {{{ the description is not changed in place

_IN_PLACE = {"reverse", "sort", "append", "extend", "insert", "pop", "remove", "clear", "update",
             "add", "discard", "setdefault", "popitem", "appendleft", "extendleft", "popleft"}


def _input_mutations(f):
    params = [p for p in f.params if p not in ("self", "cls")]
    aliases = {}
    for x in ast.walk(f.node):
        if isinstance(x, ast.Assign) and len(x.targets) == 1 and isinstance(x.targets[0], ast.Name):
            d = dotted(x.value)
            if d and "." in d and d.split(".")[0] in params:
                aliases[x.targets[0].id] = d
    # working state of a pass object (a list a mapper class makes for itself in __init__ and
    # fills while it runs) is not part of a description, whoever holds the object
    own_state = set()
    for c_ in getattr(f.module, "classes", {}).values():
        if not any(nm.startswith("map_") for nm in c_.methods):
            continue
        # ... or a list the class's own handlers append to
        for m_ in c_.methods.values():
            for a_ in ast.walk(m_.node):
                if isinstance(a_, ast.Call) and isinstance(a_.func, ast.Attribute) and a_.func.attr in _IN_PLACE \
                        and isinstance(a_.func.value, ast.Attribute) and dotted(a_.func.value.value) == "self":
                    own_state.add(a_.func.value.attr)
        init_ = c_.methods.get("__init__")
        if init_ is None:
            continue
        for a_ in ast.walk(init_.node):
            if isinstance(a_, ast.Assign) and isinstance(a_.value, (ast.List, ast.Dict, ast.Set)) \
                    and not getattr(a_.value, "elts", None) and not getattr(a_.value, "keys", None):
                own_state |= {t_.attr for t_ in a_.targets if isinstance(t_, ast.Attribute)
                              and dotted(t_.value) == "self"}
    out = []
    for x in ast.walk(f.node):
        d = None
        if isinstance(x, ast.Call) and isinstance(x.func, ast.Attribute) and x.func.attr in _IN_PLACE:
            d = dotted(x.func.value)
        elif isinstance(x, (ast.Assign, ast.Delete)):
            for t in x.targets:
                if isinstance(t, ast.Subscript):
                    d = dotted(t.value)
        if d is None:
            continue
        if (d.split(".")[0] in params and "." in d) or d in aliases:
            full = aliases.get(d, d)
            if full.count(".") == 1 and full.split(".")[1] in own_state:
                continue
            out.append((x, full))
    return out


def _inputs(run, P, P2):
    run.rule("C15.input", "the generators and passes never change a container that "
             "belongs to the description they were handed (a field of a parameter) "
             "in place", minimum=3)
    n_funcs = 0
    hits = []
    for m in P.repo_modules():
        if not (m.name.startswith("dagrt.codegen") or m.name in ("dagrt.transform", "dagrt.data")):
            continue
        for f in m.functions.values():
            n_funcs += 1
            for x, what in _input_mutations(f):
                hits.append((f, x, what))
    for f, x, what in hits:
        run.ob("C15.input", f, x, False,
               construct=f"{norm(x, 70)} changes {what} in place",
               why="the description outlives the generator object: the second generator "
                   "(or the interpreter) given the same description sees it changed - a "
                   "loop nest reversed in place comes out swapped every other time")
    run.ob("C15.input", P.module("dagrt.codegen.dag_ast"), None, True,
           construct=f"scanned {n_funcs} functions of the generators, passes and kind inference "
                     f"for in-place changes of parameter fields: {len(hits)} found",
           why="scan summary")
    # positive control
    m2 = P2.module("dagrt._verif_control")
    bad = _input_mutations(m2.functions["_control_mutates"])
    good = _input_mutations(m2.functions["_control_copies"])
    run.ob("C15.input", (m2.relpath, "_control_mutates", 14), None, bool(bad),
           construct="control: loops = statement.loops; loops.reverse()",
           why="the scan must report the control on every run (non-vacuity)")
    run.ob("C15.input", (m2.relpath, "_control_copies", 20), None, not good,
           construct="control twin: loops = list(statement.loops); loops.reverse()",
           why="a copy may be changed")
    if not bad or good:
        raise AnalysisError("C15.input positive control failed")

# }}}


# {{{ order-dependent decisions inside unordered loops


def _is_groupby(n, acc):
    """`if k not in acc: acc[k] = [x]  else: acc[k].append(x)` (either polarity,
    the else branch optional when the bucket is created empty): the grouping
    idiom, equivalent to acc.setdefault(k, []).append(x).  Which branch runs
    depends on the order, what ends up under each key does not."""
    if not isinstance(n, ast.If):
        return False
    t = n.test
    if not (isinstance(t, ast.Compare) and len(t.ops) == 1
            and isinstance(t.ops[0], (ast.In, ast.NotIn))):
        return False
    a = dotted(t.comparators[0])
    if a is None or a not in acc:
        return False
    k = norm(t.left)
    create, extend = (n.body, n.orelse) if isinstance(t.ops[0], ast.NotIn) else (n.orelse, n.body)

    from .util import core
    mentions = lambda s_: any(isinstance(x, ast.Name) and x.id == a.split(".")[0]
                              for x in ast.walk(s_))

    def creates(block):
        st = core(block, mentions)
        return len(st) == 1 and isinstance(st[0], ast.Assign) and len(st[0].targets) == 1 \
            and isinstance(st[0].targets[0], ast.Subscript) \
            and dotted(st[0].targets[0].value) == a and norm(st[0].targets[0].slice) == k \
            and isinstance(st[0].value, (ast.List, ast.Set, ast.Dict, ast.Call))

    def extends(block):
        st = core(block, mentions)
        if not st:
            return True
        return len(st) == 1 and isinstance(st[0], ast.Expr) and isinstance(st[0].value, ast.Call) \
            and isinstance(st[0].value.func, ast.Attribute) \
            and st[0].value.func.attr in ("append", "add", "update", "extend") \
            and norm(st[0].value.func.value) == f"{a}[{k}]"

    return creates(create) and extends(extend)


_ACC_MUTATORS = {"append", "extend", "insert", "update", "add", "pop", "popitem",
                 "clear", "setdefault", "remove", "discard", "appendleft"}


def _loop_accumulators(lp):
    acc = set()
    for s in lp.body:
        for n in ast.walk(s):
            if isinstance(n, ast.AugAssign):
                d = dotted(n.target) or (dotted(n.target.value)
                                         if isinstance(n.target, ast.Subscript) else None)
                if d:
                    acc.add(d)
            elif isinstance(n, ast.Assign):
                for t in n.targets:
                    if isinstance(t, ast.Subscript) and dotted(t.value):
                        acc.add(dotted(t.value))
            elif isinstance(n, ast.Call) and isinstance(n.func, ast.Attribute) \
                    and n.func.attr in _ACC_MUTATORS and dotted(n.func.value):
                acc.add(dotted(n.func.value))
    # what every turn of the loop starts afresh is not carried from turn to turn
    fresh = {t.id for s in lp.body if isinstance(s, ast.Assign) for t in s.targets
             if isinstance(t, ast.Name) and (
                 isinstance(s.value, (ast.List, ast.Dict, ast.Set, ast.ListComp, ast.DictComp, ast.SetComp))
                 or (isinstance(s.value, ast.Call) and dotted(s.value.func) in (
                     "set", "list", "dict", "deque", "collections.deque", "defaultdict")))}
    return acc - fresh


def _decisions_on(lp, acc):
    out = []
    for s in lp.body:
        for n in ast.walk(s):
            tests = []
            if isinstance(n, (ast.If, ast.While, ast.IfExp, ast.Assert)):
                if _is_groupby(n, acc):
                    continue
                tests.append(n.test)
            if isinstance(n, ast.comprehension):
                tests += n.ifs
            for t in tests:
                # `<element> in table` / `table[<element>]`: the entry of the element in hand,
                # which no other turn of the loop touches when the elements are distinct
                own = isinstance(lp.target, ast.Name) and isinstance(t, ast.Compare) \
                    and len(t.ops) == 1 and isinstance(t.ops[0], (ast.In, ast.NotIn)) \
                    and dotted(t.left) == lp.target.id and dotted(t.comparators[0]) in acc
                if own:
                    keyed_only = all(
                        not (isinstance(y, (ast.Name, ast.Attribute)) and dotted(y) == dotted(t.comparators[0]))
                        or any(isinstance(z, ast.Subscript) and z.value is y and dotted(z.slice) == lp.target.id
                               for z in ast.walk(lp))
                        or y is t.comparators[0]
                        or any(isinstance(z, ast.Call) and isinstance(z.func, ast.Attribute)
                               and z.func.value is y and z.func.attr in ("pop", "get", "setdefault")
                               and z.args and dotted(z.args[0]) == lp.target.id for z in ast.walk(lp))
                        for s2 in lp.body for y in ast.walk(s2))
                    if keyed_only:
                        continue
                for x in ast.walk(t):
                    d = dotted(x) if isinstance(x, (ast.Name, ast.Attribute)) else None
                    if d in acc:
                        out.append((d, t))
    return out


def _carried(run, P, T):
    run.rule("C15.carried",
             "a loop over an unordered container (or a statement container) takes no "
             "decision on state it accumulates itself: what it computes is then the "
             "same for every iteration order", minimum=5)
    for f, node, what, sink in T.examined:
        if not isinstance(node, (ast.For, ast.AsyncFor)):
            continue
        acc = _loop_accumulators(node)
        if not acc:
            continue
        dec = _decisions_on(node, acc)
        open_ = sorted({d for d, _ in dec})
        run.ob("C15.carried", f, node, not open_,
               construct=f"{what}: accumulates {sorted(acc)}"
                         + (f"; tests {open_} while filling it" if open_ else
                            "; no test reads them (grouping idiom aside)"),
               why="a test on what earlier iterations have accumulated makes the "
                   "outcome depend on the iteration order (a single pass that keeps "
                   "an id unless something seen *so far* needs it computes a different "
                   "set for every order of the container)")

# }}}


# {{{ memoised results shared between callers

_MEMO_DECORATORS = {"lru_cache", "cache", "cached_property", "memoize", "memoize_method",
                    "memoize_on_first_arg", "memoize_in"}
_INPLACE = (ast.BitOr, ast.BitAnd, ast.Sub, ast.BitXor, ast.Add)


def _memo_decorated(f):
    for d in getattr(f.node, "decorator_list", []):
        e = d.func if isinstance(d, ast.Call) else d
        name = (dotted(e) or "").rsplit(".", 1)[-1]
        if name in _MEMO_DECORATORS:
            return name
    return None


def _returns_container(f):
    """'set' / 'dict' / 'list' if the function returns a container it built."""
    kinds = set()
    for r in ast.walk(f.node):
        if not isinstance(r, ast.Return) or r.value is None:
            continue
        v = r.value
        if isinstance(v, ast.Name):
            defs = [s.value for s in ast.walk(f.node) if isinstance(s, ast.Assign)
                    and any(isinstance(t, ast.Name) and t.id == v.id for t in s.targets)]
            v = defs[0] if defs else v
        if isinstance(v, (ast.Set, ast.SetComp)) or (isinstance(v, ast.Call) and dotted(v.func) == "set"):
            kinds.add("set")
        elif isinstance(v, (ast.Dict, ast.DictComp)) or (isinstance(v, ast.Call) and dotted(v.func) in ("dict", "defaultdict", "OrderedDict")):
            kinds.add("dict")
        elif isinstance(v, (ast.List, ast.ListComp)) or (isinstance(v, ast.Call) and dotted(v.func) == "list"):
            kinds.add("list")
    return "/".join(sorted(kinds))


def _is_property(f):
    return any((dotted(d) or "") in ("property", "cached_property", "functools.cached_property")
               for d in getattr(f.node, "decorator_list", []))


def _mutations_of(fn_node, name):
    out = []
    for n in ast.walk(fn_node):
        if isinstance(n, ast.Call) and isinstance(n.func, ast.Attribute) \
                and n.func.attr in MUTATORS and dotted(n.func.value) == name:
            out.append(n)
        elif isinstance(n, ast.AugAssign) and dotted(n.target) == name and isinstance(n.op, _INPLACE):
            out.append(n)
        elif isinstance(n, (ast.Assign, ast.Delete)):
            for t in n.targets:
                if isinstance(t, ast.Subscript) and dotted(t.value) == name:
                    out.append(n)
    return out


def _memoised(run, P):
    run.rule("C15.memo",
             "a memoised function hands every caller the same object: when that object "
             "is a container, no user mutates it in place (directly, through a local "
             "alias, or after returning it un-copied)", minimum=2)
    memo = [(f, _memo_decorated(f)) for f in P.all_funcs() if _memo_decorated(f)]
    if not memo:
        raise AnalysisError("C15.memo: no memoised function found (anchor vanished)")
    for M, deco in sorted(memo, key=lambda x: x[0].fq):
        kind = _returns_container(M)
        if not kind:
            run.ob("C15.memo", M, M.node, True,
                   construct=f"@{deco} {M.qualname}: result is not a container built here",
                   why="nothing to mutate")
            continue
        # access predicates
        is_prop = _is_property(M)
        conduits = [M]
        seen = {M}
        offenders = []
        users = 0
        while conduits:
            src = conduits.pop()
            src_prop = src is M and is_prop

            def is_access(f, e):
                if src_prop:
                    return isinstance(e, ast.Attribute) and e.attr == src.name \
                        and not (isinstance(e.value, ast.Name) and e.value.id in ("stmt", "inst", "statement"))
                if not isinstance(e, ast.Call):
                    return False
                if src.cls is not None:
                    return isinstance(e.func, ast.Attribute) and e.func.attr == src.name
                if isinstance(e.func, ast.Name):
                    return P.resolve_name(f, e.func.id) is src
                return isinstance(e.func, ast.Attribute) and e.func.attr == src.name \
                    and P.resolve_expr(f, e.func) is src

            for f in P.all_funcs():
                if f is src:
                    continue
                for n in ast.walk(f.node):
                    # direct mutation of the access expression
                    if isinstance(n, ast.Call) and isinstance(n.func, ast.Attribute) \
                            and n.func.attr in MUTATORS and is_access(f, n.func.value):
                        offenders.append(f)
                    if isinstance(n, ast.Assign) and is_access(f, n.value) \
                            and len(n.targets) == 1 and isinstance(n.targets[0], ast.Name):
                        users += 1
                        v = n.targets[0].id
                        if _mutations_of(f.node, v):
                            offenders.append(f)
                        if any(isinstance(r, ast.Return) and dotted(r.value) == v
                               for r in ast.walk(f.node)) and f not in seen:
                            seen.add(f)
                            conduits.append(f)
                    elif isinstance(n, ast.Return) and n.value is not None and is_access(f, n.value) \
                            and f not in seen:
                        seen.add(f)
                        conduits.append(f)
        names = sorted({o.qualname for o in offenders})
        run.ob("C15.memo", M, M.node, not names,
               construct=f"@{deco} {M.qualname} returns a shared {kind}; "
                         + (f"mutated in place by {names}" if names else
                            f"none of its users mutates it"),
               why="the cache outlives the generator object: a name added to the shared "
                   "container by one generator (its state-update hooks, say) is seen by "
                   "every later generator given the same description")

# }}}


# {{{ global state

MUTATORS = {"append", "extend", "insert", "update", "add", "pop", "popitem", "clear",
            "setdefault", "remove", "discard", "sort", "reverse", "__setitem__"}


def _is_mutable_literal(v):
    if isinstance(v, (ast.Dict, ast.List, ast.Set, ast.ListComp, ast.DictComp, ast.SetComp)):
        return True
    if isinstance(v, ast.Call) and dotted(v.func) in (
            "dict", "list", "set", "defaultdict", "OrderedDict", "deque",
            "collections.defaultdict", "collections.OrderedDict"):
        return True
    return False


def _globals(run, P):
    n = 0
    for m in P.repo_modules():
        mutable_globals = {name for name, v in m.assigns.items() if _is_mutable_literal(v)}
        for f in m.functions.values():
            params = set(f.params)
            local_names = {t.id for s in ast.walk(f.node) if isinstance(s, ast.Assign)
                           for t in s.targets if isinstance(t, ast.Name)}
            declared_global = {g for s in ast.walk(f.node) if isinstance(s, ast.Global)
                               for g in s.names}
            nested_nodes = {id(x) for g in f.nested.values() for x in ast.walk(g.node)}
            for s in ast.walk(f.node):
                if id(s) in nested_nodes:
                    continue
                # (1) global X; X = ...
                if isinstance(s, (ast.Assign, ast.AugAssign)):
                    tg = s.targets if isinstance(s, ast.Assign) else [s.target]
                    for t in tg:
                        if isinstance(t, ast.Name) and t.id in declared_global:
                            n += 1
                            run.ob("C15.global", f, s, False,
                                   why="module-level state written by a function: "
                                       "results depend on earlier calls in the process")
                        # (2) ClassName.ATTR = ...
                        if isinstance(t, ast.Attribute) and isinstance(t.value, ast.Name):
                            tgt = P.resolve_name(f, t.value.id)
                            if isinstance(tgt, Class) and t.value.id not in params \
                                    and t.value.id not in local_names:
                                key = (f.fq, f"{t.value.id}.{t.attr}")
                                n += 1
                                if key in REVIEWED_GLOBAL:
                                    run.note(f"C15.global reviewed non-instance {key[1]} in "
                                             f"{f.fq}: {REVIEWED_GLOBAL[key]}")
                                    run.ob("C15.global", f, s, True,
                                           construct=f"{norm(s)} (reviewed: user-side "
                                                     f"constructor, not on a generator path)",
                                           why="reviewed non-instance")
                                else:
                                    run.ob("C15.global", f, s, False,
                                           why="class-level state written by a function: "
                                               "a later generator object inherits it")
                        # (3) G[k] = v on a module-level mutable
                        if isinstance(t, ast.Subscript) and isinstance(t.value, ast.Name) \
                                and t.value.id in mutable_globals \
                                and t.value.id not in local_names and t.value.id not in params:
                            n += 1
                            # a memo (consulted under the key it is filled under) is a
                            # function of its key if the memokey lint has nothing to say
                            ktxt = norm(t.slice)
                            tbl = t.value.id
                            consulted = any(
                                (isinstance(x, ast.Subscript) and x is not t and dotted(x.value) == tbl
                                 and isinstance(x.ctx, ast.Load) and norm(x.slice) == ktxt)
                                or (isinstance(x, ast.Compare) and len(x.ops) == 1
                                    and isinstance(x.ops[0], (ast.In, ast.NotIn))
                                    and dotted(x.comparators[0]) == tbl and norm(x.left) == ktxt)
                                or (isinstance(x, ast.Call) and isinstance(x.func, ast.Attribute)
                                    and x.func.attr == "get" and dotted(x.func.value) == tbl
                                    and x.args and norm(x.args[0]) == ktxt)
                                for x in ast.walk(f.node))
                            from .generic import _memokey
                            if consulted:
                                loose = [w for _n, w in _memokey(f) if f"'{tbl}[" in w]
                                run.ob("C15.global", f, s, not loose,
                                       construct=f"{norm(s)[:60]}: a memo"
                                                 + (f" ({loose[0][:80]})" if loose else
                                                    " whose value its key determines"),
                                       why="a remembered value that depends on more than its key makes "
                                           "results depend on earlier calls in the process")
                                continue
                            run.ob("C15.global", f, s, False,
                                   why="module-level container mutated by a function")
                if isinstance(s, ast.Call) and isinstance(s.func, ast.Attribute) \
                        and s.func.attr in MUTATORS and isinstance(s.func.value, ast.Name) \
                        and s.func.value.id in mutable_globals \
                        and s.func.value.id not in local_names and s.func.value.id not in params:
                    n += 1
                    run.ob("C15.global", f, s, False,
                           why="module-level container mutated by a function")

    # (4) aliasing: parameter stored un-copied in self.attr that the class mutates,
    # fed from a module-level mutable or a mutable default
    for m in P.repo_modules():
        for c in m.classes.values():
            mutated = _mutated_attrs(P, c)
            for meth in c.methods.values():
                for s in func_body_stmts(meth.node):
                    if isinstance(s, ast.Assign) and isinstance(s.value, ast.Name) \
                            and s.value.id in meth.params:
                        for t in s.targets:
                            d = dotted(t)
                            if d and d.startswith("self.") and d[5:] in mutated:
                                n += 1
                                # aliasing site: is the parameter ever re-bound to a
                                # fresh object first?
                                pname = s.value.id
                                rebound = any(
                                    isinstance(x, ast.Assign) and any(
                                        isinstance(tt, ast.Name) and tt.id == pname
                                        for tt in x.targets) and x.lineno < s.lineno
                                    and not isinstance(x.value, ast.Name)
                                    for x in func_body_stmts(meth.node))
                                feeds = _alias_feeds(P, c, meth, pname)
                                ok = not feeds
                                run.ob("C15.global", meth, s, ok,
                                       construct=f"{norm(s)} ({d} is mutated by {c.name}); "
                                                 f"callers pass {feeds or 'fresh objects only'}",
                                       why="a shared mutable object stored un-copied in "
                                           "instance state is mutated by every generator "
                                           "object and inherited by later ones")
    # (4b) ChainMap(<parameter>, ...) kept on the object: a ChainMap writes into its first
    # mapping, which is the caller's own
    for m in P.repo_modules():
        for c in m.classes.values():
            mutated = _mutated_attrs(P, c)
            for meth in c.methods.values():
                for s in func_body_stmts(meth.node):
                    if isinstance(s, ast.Assign) and isinstance(s.value, ast.Call) \
                            and (dotted(s.value.func) or "").split(".")[-1] == "ChainMap" and s.value.args:
                        a0 = s.value.args[0]
                        for t in s.targets:
                            d = dotted(t)
                            if d and d.startswith("self.") and d[5:] in mutated:
                                n += 1
                                run.ob("C15.global", meth, s, not (isinstance(a0, ast.Name) and a0.id in meth.params),
                                       construct=f"{norm(s, 70)}: the first mapping of a ChainMap that "
                                                 f"{c.name} writes to is not one the caller handed in",
                                       why="what one object registers lands in the caller's mapping and "
                                           "in every other object built from it: the second interpreter "
                                           "depends on what the first one did")
    # (5) objects created when a module is loaded live as long as the process: the methods
    # of their classes must not change them
    for m in P.repo_modules():
        singles = {}
        for name, v in m.assigns.items():
            if isinstance(v, ast.Call):
                try:
                    t_ = P.resolve_expr(m, v.func) if hasattr(P, "resolve_expr") else None
                except Exception:
                    t_ = None
                if t_ is None and isinstance(v.func, ast.Name) and v.func.id in m.classes:
                    t_ = m.classes[v.func.id]
                if isinstance(t_, Class) and not t_.module.trusted:
                    singles.setdefault(t_, []).append(name)
        for c, names in sorted(singles.items(), key=lambda kv: kv[0].fq):
            mutated = []
            for k in [c] + [b for b in P.mro(c)[1:] if not b.module.trusted]:
                for mname, meth in sorted(k.methods.items()):
                    if mname == "__init__":
                        continue
                    for x in ast.walk(meth.node):
                        if isinstance(x, (ast.Assign, ast.AugAssign, ast.Delete)):
                            tg = x.targets if isinstance(x, (ast.Assign, ast.Delete)) else [x.target]
                            for t in tg:
                                base = t.value if isinstance(t, ast.Subscript) else t
                                d = dotted(base)
                                if d and d.startswith("self.") and isinstance(t, (ast.Attribute, ast.Subscript)):
                                    mutated.append((meth, x))
                        if isinstance(x, ast.Call) and isinstance(x.func, ast.Attribute) \
                                and x.func.attr in MUTATORS:
                            d = dotted(x.func.value)
                            if d and d.startswith("self.") and d.count(".") == 1:
                                mutated.append((meth, x))
            for meth_, x_ in mutated:
                # a table of earlier results whose entries are checked before they are used: the
                # branch taken on a hit can fall through to the computation again.  Whether the
                # check makes a hit equivalent to computing afresh is not read.
                tg_ = x_.targets if isinstance(x_, ast.Assign) else []
                tbls = {dotted(t.value) for t in tg_ if isinstance(t, ast.Subscript) and dotted(t.value)}
                for tb_ in tbls:
                    for if_ in ast.walk(meth_.node):
                        if isinstance(if_, ast.If) and isinstance(if_.test, ast.Compare) \
                                and len(if_.test.ops) == 1 and isinstance(if_.test.ops[0], ast.In) \
                                and dotted(if_.test.comparators[0]) == tb_:
                            from ..engine.srcmodel import _always_leaves
                            if not _always_leaves(if_.body) and any(
                                    isinstance(b_, ast.Break) for b_ in ast.walk(if_)):
                                raise AnalysisError(
                                    f"{c.name}.{meth_.name}: entries of {tb_} are checked before use (a hit "
                                    f"can fall through to the computation); not decided")
            n += 1
            run.ob("C15.global", mutated[0][0] if mutated else c, mutated[0][1] if mutated else None,
                   not mutated,
                   construct=f"{c.name} (module-level instances {sorted(names)[:3]}"
                             f"{'...' if len(names) > 3 else ''}) is not changed by its methods"
                             + (f" (found {norm(mutated[0][1], 50)} in {mutated[0][0].name})"
                                if mutated else ""),
                   why="an object that lives in a module (the code templates of the built-ins in "
                       "the base registry) is shared by every generator object of the process: "
                       "what one generator leaves on it - a cache of rendered text that skips "
                       "the declarations rendering makes - changes what the next one emits")
    if n < 1:
        raise AnalysisError("C15.global: no candidate site examined")
    # always record the scan itself
    run.ob("C15.global", P.module("dagrt.codegen.utils"), None, True,
           construct=f"scanned {sum(len(m.functions) for m in P.repo_modules())} functions "
                     f"for writes to module/class-level state",
           why="scan summary")
    run.ob("C15.global", P.module("dagrt.codegen.python"), None, True,
           construct="scanned constructors for un-copied aliasing of shared mutables",
           why="scan summary")


def _mutated_attrs(P, c: Class):
    out = set()
    for k in [c] + P.subclasses(c):
        for meth in k.methods.values():
            for s in ast.walk(meth.node):
                if isinstance(s, (ast.Assign, ast.AugAssign, ast.Delete)):
                    tg = s.targets if isinstance(s, (ast.Assign, ast.Delete)) else [s.target]
                    for t in tg:
                        if isinstance(t, ast.Subscript):
                            d = dotted(t.value)
                            if d and d.startswith("self.") and d.count(".") == 1:
                                out.add(d[5:])
                if isinstance(s, ast.Call) and isinstance(s.func, ast.Attribute) \
                        and s.func.attr in MUTATORS:
                    d = dotted(s.func.value)
                    if d and d.startswith("self.") and d.count(".") == 1:
                        out.add(d[5:])
    return out


def _alias_feeds(P, c: Class, meth: Func, pname):
    """Shared mutables that reach parameter *pname* of c.meth: a mutable
    default value, or a module-level mutable passed at a call site."""
    feeds = []
    a = meth.node.args
    names = [x.arg for x in a.args]
    if pname in names:
        i = names.index(pname) - (len(names) - len(a.defaults))
        if i >= 0 and _is_mutable_literal(a.defaults[i]):
            feeds.append(f"mutable default {norm(a.defaults[i])}")
    idx = names.index(pname) - 1 if pname in names else None
    if meth.name != "__init__":
        return feeds
    for m in P.repo_modules():
        mutable_globals = {name for name, v in m.assigns.items() if _is_mutable_literal(v)}
        for f in m.functions.values():
            for call in ast.walk(f.node):
                if not isinstance(call, ast.Call):
                    continue
                tgt = P.resolve_expr(f, call.func)
                if tgt is not c:
                    continue
                arg = None
                for kw in call.keywords:
                    if kw.arg == pname:
                        arg = kw.value
                if arg is None and idx is not None and idx < len(call.args):
                    arg = call.args[idx]
                if isinstance(arg, ast.Attribute) and isinstance(arg.value, ast.Name) \
                        and arg.value.id in ("self", "cls") and f.cls is not None:
                    # class-level mutable of the caller's class
                    for k in P.mro(f.cls):
                        v = k.attrs.get(arg.attr)
                        if v is not None and _is_mutable_literal(v):
                            feeds.append(f"class-level {k.name}.{arg.attr} at {f.qualname}")
                            break
                elif isinstance(arg, ast.Attribute) and isinstance(arg.value, ast.Name):
                    k = P.resolve_name(f, arg.value.id)
                    if isinstance(k, Class):
                        v = k.attrs.get(arg.attr)
                        if v is not None and _is_mutable_literal(v):
                            feeds.append(f"class-level {k.name}.{arg.attr} at {f.qualname}")
                if isinstance(arg, ast.Name):
                    # module-level mutable (here or imported)
                    if arg.id in mutable_globals:
                        feeds.append(f"module-level {m.name}.{arg.id} at {f.qualname}")
                    else:
                        r = P.resolve_name(f, arg.id)
                        if isinstance(r, ast.AST) and _is_mutable_literal(r):
                            feeds.append(f"module-level {arg.id} at {f.qualname}")
    return feeds

# }}}


def check(run, P):
    run.do(_check_main, run, P)
    from . import generic
    # everything text or names pass through on their way into the generated source
    generic.lints(run, P, "C15", extra_files=(
        "dagrt/codegen/utils.py", "dagrt/codegen/expressions.py", "dagrt/codegen/codegen_base.py",
        "dagrt/utils.py", "dagrt/data.py", "dagrt/function_registry.py", "dagrt/transform.py"))
