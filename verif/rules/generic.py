"""Repository-specific lints that are not tied to one function: each encodes a
slip that an independent seeded change made somewhere in dagrt, stated so that
it is recognised anywhere in the files a property is anchored in.

Every lint is expected to find nothing on a tree where the property holds, so
each run also evaluates the lints on a small control module held in memory
(one violating and one clean function per lint) and stops with exit 2 if a
control is missed or a clean twin is reported.
"""

from __future__ import annotations

import ast
import json
import os

from ..engine.match import dotted, norm
from ..engine.srcmodel import AnalysisError, Program

CONTROL = '''
def stale_bad(items, others):
    for it in items:
        kind = lookup(it)
        use(kind)
    for ot in others:
        use(kind, ot)


def stale_good(items, others):
    for it in items:
        kind = lookup(it)
        use(kind)
    for ot in others:
        kind = lookup(ot)
        use(kind, ot)


def zip_bad(a, b):
    return list(zip(sorted(a), b.values()))


def zip_good(a, b):
    return list(zip(sorted(a), sorted(b)))


def split_bad(dim):
    return ":".split(dim)


def split_good(dim):
    return dim.split(":")


def setor_bad(stmt):
    return stmt.get_written_variables() or stmt.get_read_variables()


def setor_good(stmt):
    return stmt.get_written_variables() | stmt.get_read_variables()


def leak_bad(names, phases, queue):
    for name, phase in zip(names, phases):
        queue.append((name, phase))
    for phase_name, stmt in queue:
        use(name, stmt)


def leak_good(names, phases, queue):
    for name, phase in zip(names, phases):
        queue.append((name, phase))
    for phase_name, stmt in queue:
        use(phase_name, stmt)


def identity_bad(kind_a, kind_b):
    return kind_a.identifier is not kind_b.identifier


def identity_good(kind_a, kind_b):
    return kind_a.identifier != kind_b.identifier and kind_a is not None


class _Collab:
    def __init__(self, new_statements, stmt_id_gen, var_name_gen):
        pass


def argswap_bad(self, new_statements):
    return _Collab(new_statements, self.var_name_gen, self.stmt_id_gen)


def argswap_good(self, new_statements):
    return _Collab(new_statements, self.stmt_id_gen, self.var_name_gen)


def strip_bad(var_name):
    return var_name.lstrip("<state>")


def strip_good(var_name):
    return var_name[len("<state>"):] if var_name.startswith("<state>") else var_name.lstrip("_ ")


def shared_bad(names):
    return dict.fromkeys(names, {})


def shared2_bad(items):
    more_then = more_else = []
    for it in items:
        more_then.append(it)
    return more_then, more_else


def shared_good(names):
    return {name: {} for name in names}, dict.fromkeys(names, 0), [None] * len(names)


class _Node:
    def __init__(self, children):
        self.children = children

    def count(self):
        return len(self.children)


def narrow_bad(node):
    if isinstance(node, _Node):
        return node.child
    return None


def narrow_good(node):
    if isinstance(node, _Node):
        return node.children, node.count()
    return node.child


def oneshot_bad(stmt, idents, starts, ends):
    return stmt.copy(loops=zip(idents, starts, ends))


def oneshot_good(stmt, idents, starts, ends):
    return stmt.copy(loops=list(zip(idents, starts, ends))), sorted(zip(idents, starts))


def salted_bad(name, key):
    return "%s_%04x" % (name, hash(key) & 0xffff)


def salted_good(name, key, table):
    table[hash(key)] = name
    return "%s_%d" % (name, len(table))


def idkey_bad(names, phases):
    cache = {}
    for name, phase in zip(names, phases):
        for stmt in phase:
            if stmt.id not in cache:
                cache[stmt.id] = work(stmt)
            use(cache[stmt.id])


def idkey_good(names, phases):
    for name, phase in zip(names, phases):
        cache = {}
        for stmt in phase:
            cache[stmt.id] = work(stmt)
    table = {}
    for name, phase in zip(names, phases):
        for stmt in phase:
            table[name, stmt.id] = work(stmt)


def memokey_bad(lines, indentation):
    cache = {}
    out = []
    for line in lines:
        stmt = line.lstrip()
        level = len(line) - len(stmt)
        try:
            pieces = cache[stmt]
        except KeyError:
            pieces = cache[stmt] = wrap(stmt, level, indentation)
        out.extend(pieces)
    return out


def memokey2_bad(template, bound):
    if template not in _template_cache:
        free = variables(template) - set(bound)
        _template_cache[template] = (parse(template), free)
    return _template_cache[template]


def memokey_good(lines, indentation, template, bound):
    cache = {}
    out = []
    for line in lines:
        stmt = line.lstrip()
        level = len(line) - len(stmt)
        width = len(stmt)
        if (stmt, level) not in cache:
            cache[stmt, level] = wrap(stmt, level, indentation, width)
        out.extend(cache[stmt, level])
    key = (template, frozenset(bound))
    if key not in _template_cache:
        _template_cache[key] = variables(template) - set(bound)
    table = {}
    for line in lines:
        table[line] = out
    return out, _template_cache[key]


def mutdefault_bad(tree, assumptions={}):
    return Simplifier(assumptions).visit(tree)


def mutdefault2_bad(name, seen=[]):
    seen.append(name)
    return len(seen)


def mutdefault_good(tree, assumptions=None, names=(), table={}):
    known = {} if assumptions is None else dict(assumptions)
    for n in names:
        known[n] = table.get(n)
    return Simplifier(known).visit(tree)


def mutate_bad(statement):
    loops = statement.loops
    loops.reverse()
    return loops


def mutate_good(statement):
    loops = list(statement.loops)
    loops.reverse()
    return loops
'''


def _stale(f):
    from .c12 import stale_loop_values
    if not any(isinstance(x, (ast.For, ast.While)) for x in ast.walk(f.node)):
        return []
    stale, _ = stale_loop_values(f.node)
    return [(node, f"'{name}' is used in a loop but only ever computed inside another loop")
            for name, node in stale.items()]


def _zip(f):
    from .c14 import _seq_signature
    out = []
    for x in ast.walk(f.node):
        if isinstance(x, ast.Call) and dotted(x.func) == "zip" and len(x.args) >= 2 \
                and not any(isinstance(a, ast.Starred) for a in x.args):
            sigs = [_seq_signature(f.node, a) for a in x.args]
            if len({s[1] for s in sigs}) > 1:
                out.append((x, "zip() of sequences ordered differently: "
                            + ", ".join(s[0][:25] + ("/" + "/".join(s[1]) if s[1] else "") for s in sigs)))
    return out


def _split(f):
    out = []
    for x in ast.walk(f.node):
        if isinstance(x, ast.Call) and isinstance(x.func, ast.Attribute) \
                and x.func.attr in ("split", "rsplit", "partition", "rpartition") and x.args:
            recv, arg = x.func.value, x.args[0]
            if isinstance(recv, ast.Constant) and isinstance(recv.value, str) \
                    and len(recv.value) <= 2 and not isinstance(arg, ast.Constant):
                out.append((x, f"{norm(x, 40)}: separator and data are swapped"))
    return out


def _strip(f):
    """str.strip / lstrip / rstrip take a *set of characters*: a word as
    argument is a prefix / suffix removal that also eats into the rest."""
    out = []
    for x in ast.walk(f.node):
        if isinstance(x, ast.Call) and isinstance(x.func, ast.Attribute) \
                and x.func.attr in ("strip", "lstrip", "rstrip") and len(x.args) == 1 \
                and isinstance(x.args[0], ast.Constant) and isinstance(x.args[0].value, str):
            a = x.args[0].value
            if len(a) >= 2 and sum(c.isalnum() for c in a) >= 2:
                out.append((x, f"{norm(x, 50)}: strips every leading/trailing character in "
                               f"{sorted(set(a))}, not the word"))
    return out


def _mutable_value(e):
    return isinstance(e, (ast.List, ast.Dict, ast.Set, ast.ListComp, ast.DictComp, ast.SetComp)) or (
        isinstance(e, ast.Call) and dotted(e.func) in ("list", "dict", "set", "deque", "defaultdict",
                                                        "collections.deque", "collections.defaultdict",
                                                        "OrderedDict"))


def _shared(f):
    """One mutable object handed out as the value of many keys / slots."""
    out = []
    for x in ast.walk(f.node):
        if isinstance(x, ast.Call) and isinstance(x.func, ast.Attribute) and x.func.attr == "fromkeys" \
                and len(x.args) == 2 and _mutable_value(x.args[1]):
            out.append((x, f"{norm(x, 50)}: every key gets the same {type(x.args[1]).__name__.lower()} "
                           f"object"))
        if isinstance(x, ast.Assign) and len(x.targets) >= 2 and _mutable_value(x.value) \
                and all(isinstance(t, ast.Name) for t in x.targets):
            # (`local = self.attr = {}` is the usual way of keeping a handle on a new
            # attribute and is left alone: only several plain names are reported)
            out.append((x, f"{norm(x, 50)}: the names are bound to one and the same object"))
        if isinstance(x, ast.BinOp) and isinstance(x.op, ast.Mult):
            for side in (x.left, x.right):
                if isinstance(side, (ast.List, ast.Tuple)) and side.elts \
                        and any(_mutable_value(e) for e in side.elts):
                    out.append((x, f"{norm(x, 50)}: every slot holds the same object"))
    return out


def _class_attrs(P, c):
    """Attribute names instances of c have, or None if that cannot be known
    (a base outside the analysed sources, __getattr__, record-style fields)."""
    names = set()
    for k in P.mro(c):
        if k.node is None:
            return None
        for b in k.node.bases:
            d = dotted(b)
            if d is None:
                return None
        for st in k.node.body:
            if isinstance(st, (ast.Assign, ast.AnnAssign)):
                tg = st.targets if isinstance(st, ast.Assign) else [st.target]
                names |= {t.id for t in tg if isinstance(t, ast.Name)}
            if isinstance(st, (ast.FunctionDef, ast.AsyncFunctionDef)):
                names.add(st.name)
                if st.name in ("__getattr__", "__getattribute__"):
                    return None
                for x in ast.walk(st):
                    if isinstance(x, ast.Attribute) and isinstance(x.value, ast.Name) \
                            and x.value.id == "self" and isinstance(x.ctx, ast.Store):
                        names.add(x.attr)
                    if isinstance(x, ast.Call) and dotted(x.func) == "setattr":
                        return None
    # every base must have been resolved to a class of the analysed sources
    resolved = {k.name for k in P.mro(c)}
    for k in P.mro(c):
        for b in k.node.bases:
            bn = (dotted(b) or "").split(".")[-1]
            if bn in resolved | {"object"}:
                continue
            lib = None
            if bn in ("Expression", "ExpressionNode"):
                try:
                    lib = P.cls("pymbolic.primitives.ExpressionNode")
                except Exception:
                    lib = None
            if lib is None or lib is c:
                return None
            extra = _class_attrs(P, lib)
            if extra is None:
                # the library base is read as it is: take what it defines, nothing dynamic
                extra = set()
                for st in lib.node.body:
                    if isinstance(st, (ast.FunctionDef, ast.AsyncFunctionDef)):
                        if st.name in ("__getattr__", "__getattribute__"):
                            return None
                        extra.add(st.name)
                    if isinstance(st, (ast.Assign, ast.AnnAssign)):
                        tg = st.targets if isinstance(st, ast.Assign) else [st.target]
                        extra |= {t.id for t in tg if isinstance(t, ast.Name)}
            names |= extra
    return names | {"__class__", "__dict__", "__doc__", "__module__"}


def _narrow(f, P=None):
    """Attribute read on a value the enclosing test narrows to a class that has
    no such attribute (AttributeError as soon as the branch is taken)."""
    if P is None:
        return []
    from ..engine.srcmodel import Class
    out = []
    for t in ast.walk(f.node):
        if not isinstance(t, ast.If):
            continue
        test = t.test
        if not (isinstance(test, ast.Call) and dotted(test.func) == "isinstance" and len(test.args) == 2
                and isinstance(test.args[0], ast.Name) and isinstance(test.args[1], (ast.Name, ast.Attribute))):
            continue
        v = test.args[0].id
        try:
            c = P.resolve_expr(f, test.args[1])
        except Exception:
            c = None
        if not isinstance(c, Class) or c.module.trusted:
            continue
        attrs = _class_attrs(P, c)
        if attrs is None:
            continue
        for st in t.body:
            rebound = False
            for x in ast.walk(st):
                if isinstance(x, ast.Name) and x.id == v and isinstance(x.ctx, ast.Store):
                    rebound = True
            for x in ast.walk(st):
                if isinstance(x, ast.Attribute) and isinstance(x.value, ast.Name) and x.value.id == v \
                        and isinstance(x.ctx, ast.Load) and x.attr not in attrs \
                        and not x.attr.startswith("__"):
                    out.append((x, f"{norm(x)}: '{v}' is a {c.name} here, which has no attribute "
                                   f"'{x.attr}'"))
            if rebound:
                break
    return out


_ONESHOT = ("zip", "map", "filter", "iter", "reversed", "enumerate")


def _is_oneshot(e):
    return isinstance(e, ast.GeneratorExp) or (
        isinstance(e, ast.Call) and isinstance(e.func, ast.Name) and e.func.id in _ONESHOT)


def _oneshot(f):
    """An iterator that can be walked once, kept as a field of an object."""
    out = []
    for x in ast.walk(f.node):
        if isinstance(x, ast.Call):
            name = x.func.attr if isinstance(x.func, ast.Attribute) else (
                x.func.id if isinstance(x.func, ast.Name) else "")
            if name == "copy" or (name[:1].isupper() and name not in ("Block",)):
                for k in x.keywords:
                    if k.arg and _is_oneshot(k.value):
                        out.append((k.value, f"{norm(x, 50)}: field '{k.arg}' is an iterator that is "
                                             f"exhausted by its first traversal"))
        if isinstance(x, ast.Assign) and _is_oneshot(x.value):
            for t in x.targets:
                if isinstance(t, ast.Attribute) and isinstance(t.value, ast.Name) and t.value.id == "self":
                    out.append((x, f"{norm(x, 50)}: an iterator that is exhausted by its first "
                                   f"traversal is kept on the object"))
    return out


def _salted(f):
    """hash() of a str is salted per process, id() is an address: neither may end
    up in text."""
    out = []
    for x in ast.walk(f.node):
        textual = isinstance(x, ast.JoinedStr) or (
            isinstance(x, ast.BinOp) and isinstance(x.op, ast.Mod)
            and isinstance(x.left, ast.Constant) and isinstance(x.left.value, str)) or (
            isinstance(x, ast.Call) and isinstance(x.func, ast.Attribute) and x.func.attr == "format") or (
            isinstance(x, ast.Call) and isinstance(x.func, ast.Name) and x.func.id in ("str", "repr", "hex"))
        if not textual:
            continue
        for y in ast.walk(x):
            if isinstance(y, ast.Call) and isinstance(y.func, ast.Name) and y.func.id in ("hash", "id") \
                    and y is not x:
                out.append((y, f"{norm(x, 50)}: {y.func.id}() differs from process to process and is "
                               f"put into text"))
    return out


def _idkey(f):
    """Statement ids are unique within a phase only: a table that lives across the
    loop over the phases must not be keyed by the id alone."""
    if f.parent is not None:
        return []
    fn = f.node
    phase_loops = [lp for lp in ast.walk(fn) if isinstance(lp, (ast.For, ast.comprehension))
                   and "phases" in ast.unparse(lp.iter)]
    if not phase_loops:
        return []
    inside = set()
    for lp in phase_loops:
        if isinstance(lp, ast.For):
            for b in lp.body:
                inside |= {id(x) for x in ast.walk(b)}
    # tables created outside every loop over the phases
    tables = {}
    for x in ast.walk(fn):
        if isinstance(x, ast.Assign) and id(x) not in inside and len(x.targets) == 1 \
                and isinstance(x.targets[0], ast.Name) and (
                isinstance(x.value, (ast.Dict, ast.Set)) and not getattr(x.value, "keys", None)
                and not getattr(x.value, "elts", None)
                or isinstance(x.value, ast.Call) and dotted(x.value.func) in ("dict", "set", "defaultdict",
                                                                              "collections.defaultdict")):
            tables[x.targets[0].id] = x
    out = []
    seen = set()
    for x in ast.walk(fn):
        key = None
        name = None
        if isinstance(x, ast.Subscript) and isinstance(x.value, ast.Name) and x.value.id in tables:
            name, key = x.value.id, x.slice
        elif isinstance(x, ast.Call) and isinstance(x.func, ast.Attribute) \
                and isinstance(x.func.value, ast.Name) and x.func.value.id in tables \
                and x.func.attr in ("add", "get", "setdefault", "pop") and x.args:
            name, key = x.func.value.id, x.args[0]
        elif isinstance(x, ast.Compare) and len(x.ops) == 1 and isinstance(x.ops[0], (ast.In, ast.NotIn)) \
                and isinstance(x.comparators[0], ast.Name) and x.comparators[0].id in tables:
            name, key = x.comparators[0].id, x.left
        grouping = name is not None and any(
            isinstance(c_, ast.Call) and isinstance(c_.func, ast.Attribute) and c_.func.attr == "append"
            and ((isinstance(c_.func.value, ast.Subscript) and dotted(c_.func.value.value) == name)
                 or (isinstance(c_.func.value, ast.Call) and isinstance(c_.func.value.func, ast.Attribute)
                     and c_.func.value.func.attr == "setdefault" and dotted(c_.func.value.func.value) == name))
            for c_ in ast.walk(fn))
        if grouping:
            continue        # id -> list of the phases that have it: nothing is lost
        if key is not None and isinstance(key, ast.Attribute) and key.attr == "id" and name not in seen:
            seen.add(name)
            out.append((x, f"'{name}' is kept across the loop over the phases and keyed by "
                           f"{norm(key)} alone (ids repeat from phase to phase)"))
    return out


def _mutdefault(f):
    """One mutable default object serves every call: it must not be changed or handed on."""
    fn = f.node
    if isinstance(fn, ast.Lambda):
        return []
    a = fn.args
    pos = a.posonlyargs + a.args
    pairs = list(zip(reversed(pos), reversed(a.defaults))) + [
        (p_, d_) for p_, d_ in zip(a.kwonlyargs, a.kw_defaults) if d_ is not None]
    out = []
    for p_, d_ in pairs:
        mutable = isinstance(d_, (ast.Dict, ast.List, ast.Set)) or (
            isinstance(d_, ast.Call) and dotted(d_.func) in ("dict", "list", "set", "defaultdict",
                                                             "collections.defaultdict"))
        if not mutable:
            continue
        name = p_.arg
        how = None
        for x in ast.walk(fn):
            if isinstance(x, ast.Call) and isinstance(x.func, ast.Attribute) \
                    and dotted(x.func.value) == name and x.func.attr in (
                        "append", "extend", "add", "update", "setdefault", "pop", "clear",
                        "insert", "remove", "discard", "sort", "reverse", "popitem"):
                how = f"changed in place ({norm(x, 40)})"
            elif isinstance(x, (ast.Subscript,)) and dotted(x.value) == name \
                    and isinstance(x.ctx, (ast.Store, ast.Del)):
                how = f"changed in place ({norm(x, 40)})"
            elif isinstance(x, ast.AugAssign) and dotted(x.target) == name:
                how = f"changed in place ({norm(x, 40)})"
            elif isinstance(x, ast.Call) and not (isinstance(x.func, ast.Name) and x.func.id in (
                    "dict", "list", "set", "frozenset", "tuple", "sorted", "len", "iter",
                    "enumerate", "zip", "bool", "any", "all", "sum", "min", "max", "repr", "str")) \
                    and any(dotted(v) == name for v in list(x.args) + [k.value for k in x.keywords]):
                how = f"handed on ({norm(x, 40)})"
            elif isinstance(x, ast.Assign) and dotted(x.value) == name and any(
                    isinstance(t, ast.Attribute) for t in x.targets):
                how = f"kept ({norm(x, 40)})"
            elif isinstance(x, ast.Return) and x.value is not None and dotted(x.value) == name:
                how = "returned"
            if how:
                break
        if how:
            out.append((d_, f"the mutable default of '{name}' is shared by all calls and is {how}"))
    return out


# first come, first served by design: the identifier handed out for a key depends on the
# prefix of the first request and on what the generator has handed out before (C13.memo,
# C13.shared and C15 decide what that needs)
_MEMOKEY_EXEMPT = {"KeyToUniqueNameMap.get_or_make_name_for_key"}


def _memokey(f):
    """A value remembered under a key must be determined by the key: what the value
    is computed from, and the key does not fix, must not change while the table lives."""
    fn = f.node
    out = []
    params = {a.arg for a in fn.args.posonlyargs + fn.args.args + fn.args.kwonlyargs} - {"self", "cls"}
    # memo idiom: the table is consulted and filled under the same key expression
    stores = []
    for x in ast.walk(fn):
        if isinstance(x, ast.Assign):
            for t in x.targets:
                if isinstance(t, ast.Subscript) and dotted(t.value):
                    stores.append((x, t))
    for st, tgt in stores:
        table = dotted(tgt.value)
        key = tgt.slice
        ktxt = norm(key)
        consulted = False
        for x in ast.walk(fn):
            if isinstance(x, ast.Subscript) and x is not tgt and dotted(x.value) == table \
                    and isinstance(x.ctx, ast.Load) and norm(x.slice) == ktxt:
                consulted = True
            if isinstance(x, ast.Compare) and len(x.ops) == 1 and isinstance(x.ops[0], (ast.In, ast.NotIn)) \
                    and dotted(x.comparators[0]) == table and norm(x.left) == ktxt:
                consulted = True
            if isinstance(x, ast.Call) and isinstance(x.func, ast.Attribute) and x.func.attr == "get" \
                    and dotted(x.func.value) == table and x.args and norm(x.args[0]) == ktxt:
                consulted = True
        tests_first = any(
            isinstance(x, ast.Compare) and len(x.ops) == 1 and isinstance(x.ops[0], (ast.In, ast.NotIn))
            and dotted(x.comparators[0]) == table and norm(x.left) == ktxt for x in ast.walk(fn)) or any(
            isinstance(t_, ast.Try) and any(
                h.type is not None and "KeyError" in ast.unparse(h.type) for h in t_.handlers)
            and any(isinstance(y, ast.Subscript) and dotted(y.value) == table and norm(y.slice) == ktxt
                    for b in t_.body for y in ast.walk(b)) for t_ in ast.walk(fn)) or any(
            isinstance(x, ast.Call) and isinstance(x.func, ast.Attribute) and x.func.attr == "get"
            and dotted(x.func.value) == table for x in ast.walk(fn))
        if not consulted or not tests_first:
            continue
        # a memo fills the table where the look-up failed, and only there
        from .util import path_conditions as _pc
        pcs = _pc(fn, st)
        on_miss = any((norm(ast.parse(t_, mode="eval").body.left) == ktxt
                       if isinstance(ast.parse(t_, mode="eval").body, ast.Compare) else False)
                      and table in t_ and ((" not in " in t_ and pol) or (" in " in t_ and " not in " not in t_
                                                                           and not pol))
                      for t_, pol in pcs) or any(
            isinstance(h, ast.ExceptHandler) and h.type is not None and "KeyError" in ast.unparse(h.type)
            and any(y is st for b in h.body for y in ast.walk(b)) for h in ast.walk(fn)) or any(
            " is None" in t_ or " is not None" in t_ for t_, pol in pcs) or any(
            isinstance(t_, ast.Try) and any(
                h.type is not None and "KeyError" in ast.unparse(h.type)
                and not any(isinstance(y, (ast.Return, ast.Raise)) for b in h.body for y in ast.walk(b))
                for h in t_.handlers)
            and any(isinstance(y, ast.Return) for b in t_.body for y in ast.walk(b))
            for t_ in ast.walk(fn))
        if not on_miss:
            continue
        # not a memo: a registry refuses a key that is already there, a grouping table
        # extends the entry it finds
        refuses = any(
            isinstance(x, ast.If) and isinstance(x.test, ast.Compare) and len(x.test.ops) == 1
            and dotted(x.test.comparators[0]) == table and norm(x.test.left) == ktxt
            and any(isinstance(y, ast.Raise) for b in (
                x.body if isinstance(x.test.ops[0], ast.In) else x.orelse) for y in ast.walk(b))
            for x in ast.walk(fn))
        groups = any(
            isinstance(x, ast.Call) and isinstance(x.func, ast.Attribute)
            and x.func.attr in ("append", "add", "extend", "update")
            and isinstance(x.func.value, ast.Subscript) and dotted(x.func.value.value) == table
            for x in ast.walk(fn))
        if refuses or groups or f.qualname in _MEMOKEY_EXEMPT:
            continue
        # how long the table lives
        local_init = [x for x in ast.walk(fn) if isinstance(x, ast.Assign) and len(x.targets) == 1
                      and dotted(x.targets[0]) == table and "." not in table]
        loops = [lp for lp in ast.walk(fn) if isinstance(lp, (ast.For, ast.While))
                 and any(y is st for b in lp.body for y in ast.walk(b))]
        if local_init:
            live_loops = [lp for lp in loops if not any(y is local_init[0] for y in ast.walk(lp))]
            if not live_loops:
                continue
            varying = set()
            for lp in live_loops:
                for y in ast.walk(lp):
                    if isinstance(y, ast.Name) and isinstance(y.ctx, ast.Store):
                        varying.add(y.id)
        else:
            varying = set(params)
            for y in ast.walk(fn):
                if isinstance(y, ast.Name) and isinstance(y.ctx, ast.Store):
                    varying.add(y.id)
        assigns = {}
        for y in ast.walk(fn):
            if isinstance(y, ast.Assign):
                for t in y.targets:
                    for z in ast.walk(t):
                        if isinstance(z, ast.Name) and isinstance(z.ctx, ast.Store):
                            assigns.setdefault(z.id, []).append(y.value)
            elif isinstance(y, (ast.AugAssign, ast.AnnAssign)) and isinstance(y.target, ast.Name) \
                    and y.value is not None:
                assigns.setdefault(y.target.id, []).append(y.value)
            elif isinstance(y, (ast.For, ast.comprehension)):
                for z in ast.walk(y.target):
                    if isinstance(z, ast.Name):
                        assigns.setdefault(z.id, []).append(None)    # one value per turn

        fixed_attrs = set()

        def loads(e):
            skip = set()
            for c in ast.walk(e):
                if isinstance(c, ast.Call) and isinstance(c.func, ast.Name):
                    skip.add(id(c.func))
                if isinstance(c, (ast.ListComp, ast.SetComp, ast.GeneratorExp, ast.DictComp)):
                    for g_ in c.generators:
                        for z in ast.walk(g_.target):
                            skip.add(("bound", getattr(z, "id", None)))
            for a_ in ast.walk(e):
                if isinstance(a_, ast.Attribute) and dotted(a_) in fixed_attrs:
                    for z in ast.walk(a_):
                        skip.add(id(z))
            return {c.id for c in ast.walk(e) if isinstance(c, ast.Name) and isinstance(c.ctx, ast.Load)
                    and id(c) not in skip and ("bound", c.id) not in skip}

        # what the key determines: names it is built from by tuples and one-to-one wrappers
        fixed = set()

        def from_key(e, depth=0):
            if isinstance(e, ast.Name):
                src = [v for v in assigns.get(e.id, [None])
                       if not (isinstance(v, ast.Constant) and v.value is None)]
                if depth < 3 and len(src) == 1 and e.id not in params \
                        and isinstance(src[0], (ast.Tuple, ast.Call, ast.Name, ast.Attribute)):
                    from_key(src[0], depth + 1)
                fixed.add(e.id)
            elif isinstance(e, ast.Tuple):
                for x_ in e.elts:
                    from_key(x_, depth)
                # an id together with something else (the phase it belongs to) names its owner
                if len(e.elts) > 1:
                    for x_ in e.elts:
                        if isinstance(x_, ast.Attribute) and x_.attr == "id" and isinstance(x_.value, ast.Name):
                            fixed.add(x_.value.id)
            elif isinstance(e, ast.Call) and (dotted(e.func) or "") in (
                    "frozenset", "tuple", "sorted", "str", "repr", "set", "list", "id",
                    "pickle.dumps", "dumps") and len(e.args) >= 1:
                from_key(e.args[0], depth)
            elif isinstance(e, ast.Attribute) and dotted(e):
                fixed_attrs.add(dotted(e))
        from_key(key)
        changed = True
        while changed:
            changed = False
            for n_, vals in assigns.items():
                if n_ in fixed or n_ not in varying:
                    continue
                if all(v is not None and all(m in fixed or m not in varying for m in loads(v))
                       for v in vals):
                    fixed.add(n_)
                    changed = True

        def value_loads(e):
            covered = {id(z) for a_ in ast.walk(e) if isinstance(a_, ast.Attribute)
                       and dotted(a_) in fixed_attrs for z in ast.walk(a_)}
            return {c.id for c in ast.walk(e) if isinstance(c, ast.Name) and id(c) not in covered} \
                & loads(e)
        loose = sorted(n_ for n_ in value_loads(st.value) if n_ in varying and n_ not in fixed
                       and n_ != table)
        # name what the loose values come from
        roots, todo_ = set(), list(loose)
        seen_ = set()
        while todo_:
            n_ = todo_.pop()
            if n_ in seen_:
                continue
            seen_.add(n_)
            srcs = [v for v in assigns.get(n_, []) if v is not None]
            inner = {m for v in srcs for m in loads(v) if m in varying and m not in fixed}
            if not srcs or n_ in params or not inner:
                roots.add(n_)
            todo_.extend(inner)
        loose = sorted(roots) or loose
        if loose:
            out.append((st, f"'{table}[{ktxt}]' remembers a value computed from {loose}, which the "
                            f"key does not determine and which change while the table lives"))
    return out


_SET_GETTERS = ("get_written_variables", "get_read_variables")


def _setor(f):
    out = []
    for x in ast.walk(f.node):
        if isinstance(x, ast.BoolOp) and isinstance(x.op, ast.Or) and len(x.values) >= 2 \
                and all(isinstance(v, ast.Call) and isinstance(v.func, ast.Attribute)
                        and v.func.attr in _SET_GETTERS for v in x.values):
            out.append((x, f"{norm(x, 70)}: 'or' of two sets is the first non-empty one, not their union"))
    return out


def _mutate(f):
    from .c15 import _input_mutations
    return [(x, f"{norm(x, 50)} changes {what}, a field of a parameter, in place")
            for x, what in _input_mutations(f)]


# parameter pairs whose exchange is meaningful (negating a condition swaps the arms,
# mirroring a comparison swaps the sides): decided semantically elsewhere, not by name
MIRROR_PAIRS = [{"then", "else_"}, {"left", "right"}, {"if_true", "if_false"}]


def _argswap(f, P=None):
    """A positional argument that carries the name of a *different* parameter of
    the callee, while the parameter it is bound to is called something else."""
    if P is None:
        return []
    from ..engine.srcmodel import Class, Func
    out = []
    for x in ast.walk(f.node):
        if not isinstance(x, ast.Call) or not x.args:
            continue
        try:
            tgt = P.resolve_expr(f, x.func)
        except Exception:
            tgt = None
        if isinstance(tgt, Class):
            init = P.method(tgt, "__init__")
            params = [p for p in (init.params if init is not None else [])][1:]
        elif isinstance(tgt, Func):
            params = list(tgt.params)
            if tgt.cls is not None and params and params[0] in ("self", "cls"):
                params = params[1:]
        else:
            continue
        for i, a in enumerate(x.args):
            if isinstance(a, ast.Starred) or i >= len(params):
                break
            name = a.attr if isinstance(a, ast.Attribute) else (a.id if isinstance(a, ast.Name) else None)
            if name is None or name == params[i]:
                continue
            if name in params and params.index(name) != i:
                j = params.index(name)
                other = x.args[j] if j < len(x.args) else None
                oname = other.attr if isinstance(other, ast.Attribute) else (
                    other.id if isinstance(other, ast.Name) else None)
                if {name, params[i]} in MIRROR_PAIRS:
                    continue        # exchanging these is an operation in its own right
                if oname == params[i] or oname is None:
                    out.append((x, f"{norm(x, 70)}: argument '{name}' is passed for parameter "
                                   f"'{params[i]}' (parameters: {params})"))
                    break
    return out


def _leak(f):
    """A loop variable used inside a *different* loop after its own loop has
    ended (it still holds the last item of that loop)."""
    fn = f.node
    par = {}
    for n in ast.walk(fn):
        for c in ast.iter_child_nodes(n):
            par[c] = n

    def enclosing_loops(n):
        ls = []
        while n in par:
            p = par[n]
            if isinstance(p, (ast.For, ast.While)) and any(n is x for b in p.body for x in ast.walk(b)):
                ls.append(p)
            if isinstance(p, (ast.FunctionDef, ast.AsyncFunctionDef, ast.Lambda)) and p is not fn:
                return None
            if isinstance(p, (ast.ListComp, ast.GeneratorExp, ast.SetComp, ast.DictComp)):
                return None
            n = p
        return ls

    targets = {}
    for n in ast.walk(fn):
        if isinstance(n, ast.For):
            for t in ast.walk(n.target):
                if isinstance(t, ast.Name):
                    targets.setdefault(t.id, []).append(n)
    other = set()
    for n in ast.walk(fn):
        if isinstance(n, ast.Name) and isinstance(n.ctx, ast.Store):
            if not any(any(n is t for t in ast.walk(lp.target)) for lps in targets.values() for lp in lps):
                other.add(n.id)
        elif isinstance(n, ast.arg):
            other.add(n.arg)
        elif isinstance(n, ast.ExceptHandler) and n.name:
            other.add(n.name)
        elif isinstance(n, (ast.Import, ast.ImportFrom)):
            for a in n.names:
                other.add((a.asname or a.name).split(".")[0])
        elif isinstance(n, (ast.FunctionDef, ast.ClassDef)) and n is not fn:
            other.add(n.name)
    out = []
    seen = set()
    for n in ast.walk(fn):
        if isinstance(n, ast.Name) and isinstance(n.ctx, ast.Load) and n.id in targets \
                and n.id not in other and n.id not in seen:
            ul = enclosing_loops(n)
            if not ul:
                continue
            own = any(any(lp is u for u in ul) or any(n is x for x in ast.walk(lp.iter))
                      for lp in targets[n.id])
            if not own:
                seen.add(n.id)
                out.append((n, f"loop variable '{n.id}' is used inside another loop after its own loop "
                               f"has ended"))
    return out


def _identity(f):
    """`is` / `is not` between two values that are not singletons."""
    out = []
    asserted = {id(y) for a_ in ast.walk(f.node) if isinstance(a_, ast.Assert) for y in ast.walk(a_.test)}
    for x in ast.walk(f.node):
        if isinstance(x, ast.Compare) and any(isinstance(o, (ast.Is, ast.IsNot)) for o in x.ops):
            if id(x) in asserted:
                continue            # an assertion that two names are one object says just that
            ops = [x.left] + x.comparators
            if any(isinstance(o, ast.Constant) and (o.value is None or isinstance(o.value, bool))
                   for o in ops):
                continue
            if any(isinstance(o, ast.Name) for o in ops):
                continue            # a sentinel object held in a name
            if all(isinstance(o, ast.Call) and dotted(o.func) == "type" for o in ops):
                continue
            # a sentinel that is an attribute of a class (inspect.Parameter.empty, an enum
            # member) or a class itself is compared by identity on purpose
            def sentinel(o):
                d = dotted(o)
                if not d or "." not in d:
                    return False
                parts = d.split(".")
                return parts[-1][:1].isupper() or parts[-2][:1].isupper()
            if any(sentinel(o) for o in ops):
                continue
            out.append((x, f"{norm(x, 60)}: identity comparison of values (equal strings need not "
                           f"be the same object)"))
    return out


LINTS = [
    ("stale", _stale, True),
    ("leak", _leak, True),
    ("identity", _identity, True),
    ("argswap", _argswap, True),
    ("zip", _zip, True),
    ("split", _split, True),
    ("setor", _setor, True),
    ("strip", _strip, True),
    ("shared", _shared, True),
    ("narrow", _narrow, True),
    ("oneshot", _oneshot, True),
    ("salted", _salted, True),
    ("idkey", _idkey, True),
    ("memokey", _memokey, True),
    ("mutdefault", _mutdefault, True),
    ("mutate", _mutate, False),     # only for modules that are handed a description
]

_MUTATE_MODULES = ("dagrt.codegen", "dagrt.transform", "dagrt.data")


def anchor_files(prop):
    here = os.path.dirname(os.path.dirname(os.path.dirname(os.path.abspath(__file__))))
    with open(os.path.join(here, "properties.jsonl")) as fh:
        for line in fh:
            d = json.loads(line)
            if d["id"] == prop:
                return list(d["anchors"]["files"])
    raise AnalysisError(f"property {prop} not found in properties.jsonl")


def lints(run, P, prop, extra_files=()):
    rule = f"{prop}.lint"
    run.rule(rule, "repository-specific lints over the anchored files: no value used in "
             "a loop that is only computed in another loop; parallel sequences ordered "
             "alike; no loop variable used in a later loop; no identity comparison of values; data "
             "split by separator; union, not 'or', of variable sets; no word handed to "
             "strip(); no table across phases keyed by statement id alone; no hash() / id() in text; no remembered value that its key does not determine; no mutable default argument that is changed or handed on; no one-shot iterator kept as a field; no attribute that the class of a narrowed value lacks; no one mutable object as the value of many keys; no "
             "argument passed under another parameter's name; no in-place change of a "
             "description handed in", minimum=3)
    files = sorted(set(anchor_files(prop)) | set(extra_files))
    mods = [m for m in P.repo_modules() if m.relpath in files]
    if not mods:
        raise AnalysisError(f"{prop}: anchored files not found: {files}")
    n_funcs = 0
    hits = 0
    for m in mods:
        for f in m.functions.values():
            n_funcs += 1
            for name, fn, everywhere in LINTS:
                if not everywhere and not m.name.startswith(_MUTATE_MODULES):
                    continue
                res = fn(f, P) if name in ("argswap", "narrow") else fn(f)
                for node, what in res:
                    hits += 1
                    run.ob(rule, f, node, False, construct=f"[{name}] {what}",
                           why="a slip of this shape broke a property of dagrt in a seeded "
                               "change; see verif/rules/generic.py")
    run.ob(rule, mods[0], None, True,
           construct=f"{len(LINTS)} lints over {n_funcs} functions of {[m.relpath for m in mods]}: "
                     f"{hits} hit(s)",
           why="scan summary")
    # controls
    P2 = Program(repo_root=P.repo_root, overlay={**P.overlay, "dagrt/_verif_lint_control.py": CONTROL})
    m2 = P2.module("dagrt._verif_lint_control")
    missed, noisy = [], []
    for name, fn, _ in LINTS:
        if name in ("argswap", "narrow"):
            bad = fn(m2.functions[f"{name}_bad"], P2)
            good = fn(m2.functions[f"{name}_good"], P2)
        else:
            bad = fn(m2.functions[f"{name}_bad"])
            good = fn(m2.functions[f"{name}_good"])
            for extra in (f"{name}2_bad", f"{name}3_bad"):
                if extra in m2.functions and not fn(m2.functions[extra]):
                    bad = []
        if not bad:
            missed.append(name)
        if good:
            noisy.append(name)
    run.ob(rule, (m2.relpath, "<controls>", 1), None, not missed,
           construct=f"controls: every lint reports its violating control ({len(LINTS)} lints)",
           why="non-vacuity")
    run.ob(rule, (m2.relpath, "<controls>", 2), None, not noisy,
           construct="controls: no lint reports its clean twin",
           why="no false alarm on the corrected form")
    if missed or noisy:
        raise AnalysisError(f"lint controls failed: missed {missed}, noisy {noisy}")
