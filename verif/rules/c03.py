"""C03 - compiled Fortran stepper computes the same states as the interpreter."""

from __future__ import annotations

import ast

from ..engine.cfg import CFG, own_fragments, walk_fragment
from ..engine.match import dotted, norm, func_body_stmts, string_value, string_prefix
from ..engine.srcmodel import AnalysisError, Func

EXPLANATION = (
    "Emission-structure analysis of dagrt/codegen/fortran.py and "
    "codegen/expressions.py. Decides: no structured back end reads a "
    "statement's condition in its emit handlers, and statements produced by "
    "the rewriting passes have their condition expressed as an if node "
    "(guards are honoured; shared with C07.guard); every comparison operator "
    "of pymbolic that is not legal free-form Fortran is translated; every "
    "overridden printer handler of both expression mappers prints each "
    "operand with a precedence not below the node's own (strictly above for "
    "the base of a power), so that operands with weaker operators are "
    "parenthesized; Fortran constants test bool before numbers and "
    "parenthesize negatives; run() assigns the default successor before "
    "calling the phase function inside the same per-phase branch, phases in "
    "sorted order, and SwitchPhase stores its target before jumping to the "
    "one exit label (shared with C12.exit); the half-open loop bound is "
    "converted to Fortran's inclusive bound exactly once while Python and "
    "the interpreter pass it to range unchanged; every supported statement "
    "kind has a Fortran handler; kind inference is total and its fixed point "
    "is sound (shared with C09.total / C14.latch). Does not decide: that the "
    "module compiles and computes the same numbers.")

ASSUMPTIONS = [
    "free-form Fortran accepts == < <= > >= /= and treats '!' as a comment start",
    "precedence constants are those of pymbolic.mapper.stringifier (read from source)",
]

EXPR = "dagrt.codegen.expressions"
GEN = "dagrt.codegen.fortran.CodeGenerator"
FORTRAN_CMP = {"==", "<", "<=", ">", ">=", "/="}


def _check_main(run, P):
    run.rule("C03.guard", "no emit handler reads inst.condition; rewritten statements "
             "have their condition expressed structurally (shared with C07.guard)",
             minimum=3)
    run.rule("C03.cmp", "comparison operators that are not legal Fortran are translated",
             minimum=6)
    run.rule("C03.prec", "printer handlers print every operand with a precedence not "
             "below the node's own", minimum=10)
    run.rule("C03.const", "Fortran constants: complex, then bool, then numbers; "
             "negatives parenthesized", minimum=2)
    run.rule("C03.run", "run(): default successor assigned before the phase call in "
             "the same branch, phases sorted; SwitchPhase stores before jumping",
             minimum=4)
    run.rule("C03.loop", "half-open loop bound converted to inclusive exactly once "
             "for Fortran, unchanged for Python and the interpreter", minimum=3)
    run.rule("C03.handlers", "every supported statement kind has a Fortran handler",
             minimum=6)
    run.rule("C03.infer", "kind inference is total and its fixed point is sound "
             "(shared with C09.total / C14.latch / C14.fixpoint)", minimum=20)
    run.do(_guard, run, P)
    run.do(_cmp, run, P)
    run.do(_prec, run, P)
    run.do(_const, run, P)
    run.do(_run, run, P)
    run.do(_loop, run, P)
    run.do(_handlers, run, P)
    run.rule("C03.zip", "sequences that are walked in parallel are ordered the same way "
             "(no zip() of one reversed or sorted sequence with another that is not)",
             minimum=5)
    run.rule("C03.reduce", "reductions over the entries of a value accumulate: the "
             "per-entry statement of every result-computing type visitor reads the "
             "result it assigns", minimum=3)
    run.rule("C03.utypes", "user types are collected from the *kinds* of every table "
             "(global and per phase)", minimum=2)
    run.rule("C03.effects", "every Fortran statement handler has its effect on every "
             "path: slots assigned, successor set, exit taken, program stopped", minimum=8)
    run.rule("C03.pipeline", "every phase goes through the four preparation passes, in "
             "the order the passes assume, and what is lowered is their result", minimum=2)
    run.do(_effects, run, P)
    run.do(_pipeline, run, P)
    run.do(_zip, run, P)
    run.do(_splits, run, P)
    run.do(_reduce, run, P)
    run.do(_utypes, run, P)
    run.rule("C03.release", "release / allocation discipline that keeps the generated "
             "program from using freed storage (shared with C12.exit / C12.alloc / "
             "C12.lastuse / C12.move)", minimum=12)
    from . import c12
    from .c01 import _alias
    _alias(run, "C12.exit", "C03.release", lambda: c12._exit(run, P))
    _alias(run, "C12.move", "C03.release", lambda: c12._move(run, P))
    _alias(run, "C12.alloc", "C03.release", lambda: c12._alloc(run, P))
    _alias(run, "C12.lastuse", "C03.release", lambda: c12._lastuse(run, P))
    run.do(c12.reachable_visitors, run, P, "C03.release")
    from . import c09, c14
    _alias(run, "C09.total", "C03.infer", lambda: c09._total(run, P))
    _alias(run, "C09.operands", "C03.infer", lambda: c09._operands(run, P))
    _alias(run, "C09.const", "C03.infer", lambda: c09._const(run, P))
    # only loop counters are integers
    reg = P.module("dagrt.function_registry")
    ints = [(fn_, x) for fn_ in reg.functions.values() if fn_.name == "get_result_kinds"
            for x in ast.walk(fn_.node) if isinstance(x, ast.Call) and dotted(x.func) in ("Integer", "Boolean")
            and dotted(x.func) == "Integer"]
    run.ob("C03.infer", ints[0][0] if ints else reg, ints[0][1] if ints else None, not ints,
           construct="no built-in declares an Integer result (only loop counters are integers)"
                     + (f"; found in {ints[0][0].qualname}" if ints else ""),
           why="an Integer variable is a Fortran integer: 'i / n' with n = len(y) is integer "
               "division there (0, 0, 0, 1) and true division in the interpreter")
    run.rule_docs["C14.swallow"] = ""
    run.minimum["C14.swallow"] = 0
    _alias(run, "C14.latch", "C03.infer", lambda: c14._table_update(run, P))
    for o in run.obs:
        if o.rule == "C14.swallow":
            o.rule = "C03.infer"
    del run.rule_docs["C14.swallow"]
    del run.minimum["C14.swallow"]
    for r in ("C14.progress", "C14.fixpoint"):
        run.rule_docs[r] = ""
        run.minimum[r] = 0
    run.do(c14._worklist, run, P)
    for o in run.obs:
        if o.rule in ("C14.progress", "C14.fixpoint"):
            o.rule = "C03.infer"
    for r in ("C14.progress", "C14.fixpoint"):
        del run.rule_docs[r]
        del run.minimum[r]
    run.rule("C03.norm", "norm_2 is the root of the sum of squares of all entries in the "
             "interpreter's built-in as in the generated Fortran", minimum=2)
    run.do(_norm, run, P)
    run.do(_numbers, run, P)
    run.do(_specialisations, run, P)
    _alias(run, "C14.sweeps", "C03.infer", lambda: c14._sweeps(run, P))


def _guard(run, P):
    for gen in (GEN, "dagrt.codegen.python.CodeGenerator"):
        C = P.cls(gen)
        reads = []
        for name, m in C.methods.items():
            if name.startswith("emit_inst_") or name == "lower_inst":
                for x in ast.walk(m.node):
                    if isinstance(x, ast.Attribute) and x.attr == "condition" \
                            and isinstance(x.value, ast.Name) and x.value.id in m.params:
                        reads.append((m, x))
        run.ob("C03.guard", C, reads[0][1] if reads else None, not reads,
               construct=f"{C.module.name}: emit handlers never read inst.condition",
               why="premise of the guard invariant: a condition that is not expressed "
                   "as an if node is silently ignored by this back end")
    from . import c07
    from .c01 import _alias
    _alias(run, "C07.guard", "C03.guard", lambda: c07._wrap(run, P))
    c07.polarity(run, P, "C03.guard")
    run.do(c07.carry, run, P, "C03.guard")
    # the lowering the Fortran generator starts from (shared with C05)
    from . import c05
    run.do(c05.lowering_table, run, P, "C03.guard")
    c05.simplifier_clauses(run, P, "C03.guard")
    run.do(_templates, run, P)


def _numbers(run, P):
    """Numbers reach the Fortran text through map_constant only (which writes them as
    double precision literals), so that no INTEGER arithmetic is generated."""
    F = P.cls(f"{EXPR}.FortranExpressionMapper")
    import re as _re
    bad = []
    n = 0
    for c in P.mro(F):
        if c.module.trusted:
            continue
        for name, f in sorted(c.methods.items()):
            if not name.startswith("map_") or name in ("map_constant", "map_foreign"):
                continue
            n += 1
            for x in ast.walk(f.node):
                if isinstance(x, ast.Constant) and isinstance(x.value, str) \
                        and _re.search(r"%[-+ 0-9.]*[dif]|\{[^}]*:[^}]*[dfg]\}", x.value):
                    # printed only after a helper of the printer was asked about the other
                    # operand (can it be INTEGER?): whether the answer is right is not read
                    from .util import path_conditions
                    st_ = next((s_ for s_ in ast.walk(f.node) if isinstance(s_, ast.stmt)
                                and not isinstance(s_, (ast.If, ast.For, ast.While, ast.Try, ast.With,
                                                        ast.FunctionDef))
                                and any(y is x for y in ast.walk(s_))), None)
                    conds = path_conditions(f.node, st_) if st_ is not None else set()
                    asked = [t for t, pol in conds if _re.search(r"\bself\.\w+\(\s*\w+\.base\b", t)]
                    if asked:
                        raise AnalysisError(f"{f.qualname}: an integer literal is printed after asking "
                                            f"{asked[0][:60]}; not decided")
                    bad.append((f, x))
                if isinstance(x, ast.Call) and isinstance(x.func, ast.Name) and x.func.id in ("int", "float") \
                        and any(isinstance(y, ast.Attribute) and y.attr in ("exponent", "base", "index")
                                for y in ast.walk(x)):
                    pass
    run.ob("C03.prec", bad[0][0] if bad else F, bad[0][1] if bad else None, not bad,
           construct=f"no handler of the Fortran printer other than map_constant formats a number "
                     f"({n} handlers)" + (f" (found {bad[0][1].value!r} in {bad[0][0].name})" if bad else ""),
           why="map_constant writes every number as a double (2d0): an exponent or factor printed "
               "as an integer literal makes the operation INTEGER arithmetic when the other operand "
               "is a loop variable - i**(-2) is 0 for every i >= 2")


def _specialisations(run, P):
    """One generated subroutine per (function, argument kinds): the table is keyed by
    the kinds themselves."""
    f = P.func(f"{GEN}.emit_inst_AssignFunctionCall")
    kinds = None
    for s_ in ast.walk(f.node):
        if isinstance(s_, ast.Assign) and isinstance(s_.value, ast.Call) \
                and isinstance(s_.value.func, ast.Attribute) and s_.value.func.attr == "resolve_args" \
                and isinstance(s_.targets[0], ast.Name):
            kinds = s_.targets[0].id
    subs = [x for x in ast.walk(f.node) if isinstance(x, ast.Subscript)
            and (dotted(x.value) or "").endswith("function_and_arg_kinds_to_fortran_name")]
    if kinds is None or not subs:
        raise AnalysisError("emit_inst_AssignFunctionCall: kinds / specialisation table not found")
    ok = True
    shown = "?"
    for x in subs:
        key = x.slice
        if isinstance(key, ast.Name):
            defs = [s_.value for s_ in ast.walk(f.node) if isinstance(s_, ast.Assign)
                    and any(isinstance(t, ast.Name) and t.id == key.id for t in s_.targets)]
            key = defs[0] if len(defs) == 1 else key
        shown = norm(key, 50)
        elts = key.elts if isinstance(key, ast.Tuple) else [key]
        if not any(isinstance(e, ast.Name) and e.id == kinds for e in elts):
            ok = False
    run.ob("C03.utypes", f, subs[0], ok,
           construct=f"specialisations are looked up by ({shown}), which holds the resolved "
                     f"argument kinds '{kinds}' themselves",
           why="keyed by something coarser (the class names of the kinds) two user types, or a "
               "real and a complex scalar, share one generated subroutine - written for the "
               "dimensions of whichever came first")


def _template_texts(P):
    """(name, text, node) of every CallCode(...) template of the Fortran generator."""
    m = P.module("dagrt.codegen.fortran")
    consts = {}
    for name, v in m.assigns.items():
        s_ = string_value(v)
        if s_ is not None:
            consts[name] = s_
    out = []
    for name, v in m.assigns.items():
        if isinstance(v, ast.Call) and dotted(v.func) == "CallCode" and v.args:
            parts = []

            def flat(e):
                if isinstance(e, ast.BinOp) and isinstance(e.op, ast.Add):
                    flat(e.left)
                    flat(e.right)
                elif isinstance(e, ast.Name) and e.id in consts:
                    parts.append(consts[e.id])
                else:
                    s2 = string_value(e)
                    if s2 is None:
                        raise AnalysisError(f"template {name}: not a constant string")
                    parts.append(s2)
            flat(v.args[0])
            out.append((name, "".join(parts), v))
    return out


def _templates(run, P):
    """Allocation idiom of the built-in templates: storage for a result that
    may already be allocated is released and allocated afresh - unconditionally,
    because the size asked for this time need not be the size it has."""
    import re as _re
    run.rule("C03.templates", "built-in templates: a result that is tested with allocated() "
             "is released if allocated and then allocated unconditionally with the size "
             "asked for", minimum=3)
    n = 0
    for name, text, node in _template_texts(P):
        text = _re.sub(r"<%def.*?</%def>", "", text, flags=_re.S)
        text = _re.sub(r"<%.*?%>", "", text, flags=_re.S)
        stack = []
        tested = set(_re.findall(r"allocated\(\$\{(\w+)\}\)", text))
        seen_dealloc = set()
        for line in text.split("\n"):
            l = line.strip().lower()
            if not l or l.startswith("!") or l.startswith("%"):
                continue
            if _re.match(r"(else\s*)?if\s*\(.*\)\s*then$", l):
                if l.startswith("else"):
                    if stack:
                        stack.pop()
                stack.append(l)
                continue
            if _re.match(r"else$", l):
                if stack:
                    stack[-1] = "else of " + stack[-1]
                continue
            if _re.match(r"end\s*if$", l):
                if stack:
                    stack.pop()
                continue
            md = _re.match(r"deallocate\(\$\{(\w+)\}\)", l)
            if md and md.group(1) in tested:
                if any(f"allocated(${{{md.group(1)}}})" in c and ".not." not in c for c in stack):
                    seen_dealloc.add(md.group(1))
            ma = _re.match(r"allocate\(\$\{(\w+)\}", l)
            if ma and ma.group(1) in tested:
                v = ma.group(1)
                n += 1
                guards = [c for c in stack if f"allocated(${{{v}}})" in c]
                ok = not guards and v in seen_dealloc
                run.ob("C03.templates", P.module("dagrt.codegen.fortran"), node, ok,
                       construct=f"{name}: allocate(${{{v}}}...) is unconditional and follows "
                                 f"'if (allocated) deallocate'"
                                 + (f" (under: {guards[0][:50]})" if guards else ""),
                       why="storage kept from an earlier call has the size asked for then: an "
                           "array re-created with another length keeps the old one, and the "
                           "state differs from the interpreter's")
    if n < 3:
        raise AnalysisError(f"C03.templates: only {n} result allocations found in the templates")


def _cmp(run, P):
    C = P.cls("pymbolic.primitives.Comparison")
    ops = None
    for s in C.node.body:
        if isinstance(s, ast.AnnAssign) and isinstance(s.target, ast.Name) \
                and s.target.id == "operator_to_name" and isinstance(s.value, ast.Dict):
            ops = [string_value(k) for k in s.value.keys]
    if not ops:
        raise AnalysisError("pymbolic Comparison.operator_to_name not found")
    F = P.cls(f"{EXPR}.FortranExpressionMapper")
    f = P.method(F, "map_comparison")
    table = {}
    if f is not None and f.module.name == EXPR:
        for x in ast.walk(f.node):
            if isinstance(x, ast.Dict):
                for k, v in zip(x.keys, x.values):
                    table[string_value(k)] = string_value(v)
        uses = any(isinstance(x, ast.Call) and isinstance(x.func, ast.Attribute)
                   and x.func.attr == "get" and isinstance(x.func.value, ast.Dict)
                   for x in ast.walk(f.node))
    MEANS = {"==": {"==", ".eq."}, "!=": {"/=", ".ne."}, "<": {"<", ".lt."}, "<=": {"<=", ".le."},
             ">": {">", ".gt."}, ">=": {">=", ".ge."}}
    for op in ops:
        out = table.get(op, op)
        ok = out in FORTRAN_CMP and (op not in MEANS or out in MEANS[op])
        run.ob("C03.cmp", f if f is not None else F, f.node if f is not None else F.node, ok,
               construct=f"comparison operator {op!r} is printed as {out!r}",
               why="'!' starts a comment in free-form Fortran: the rest of the line is "
                   "dropped and the module does not compile")


def handler_precs(P, f: Func, consts):
    """For a printer handler: (own precedence, [(child description, prec, bracketed)])."""
    from .c01 import _eval_prec
    own = None
    body = None
    for n in ast.walk(f.node):
        if isinstance(n, ast.Call) and dotted(n.func) == "self.parenthesize_if_needed" \
                and len(n.args) == 3:
            own = _eval_prec(n.args[2], consts)
            body = n.args[0]
    if own is None:
        return None, []
    children = []

    def visit(node, bracketed):
        if isinstance(node, ast.BinOp) and isinstance(node.op, ast.Mod):
            s = string_value(node.left)
            b = bracketed or (s is not None and "(%s)" in s)
            visit(node.right, b)
            return
        if isinstance(node, ast.Call):
            d = dotted(node.func) or ""
            if d == "self.rec" and len(node.args) >= 2:
                children.append((norm(node.args[0]), _eval_prec(node.args[1], consts), bracketed))
                return
            if d == "self.join_rec" and len(node.args) >= 3:
                children.append((norm(node.args[1]), _eval_prec(node.args[2], consts), bracketed))
                return
        for c in ast.iter_child_nodes(node):
            visit(c, bracketed)

    visit(body, False)
    return own, children


def _prec(run, P):
    from .c01 import prec_constants, power_rule
    consts = prec_constants(P)
    n = 0
    for cname in ("FortranExpressionMapper", "PythonExpressionMapper", "_PowerPrintingMixin"):
        m = P.module(EXPR)
        if cname not in m.classes:
            continue
        for name, f in sorted(m.classes[cname].methods.items()):
            if not name.startswith("map_"):
                continue
            own, children = handler_precs(P, f, consts)
            if own is None:
                continue
            for desc, prec, bracketed in children:
                if bracketed:
                    continue
                n += 1
                ok = prec is not None and prec >= own
                run.ob("C03.prec", f, f.node, ok,
                       construct=f"{cname}.{name}: operand {desc} printed with precedence "
                                 f"{prec}, node has {own}",
                       why="an operand printed with a precedence below the node's own is "
                           "not parenthesized when it contains a weaker operator: "
                           "'(A or B) and C' comes out as 'A .or. B .and. C'")
    power_rule(run, P, "C03.prec", f"{EXPR}.FortranExpressionMapper")
    from .c01 import forced_parens_rule, comparison_rule
    run.do(comparison_rule, run, P, "C03.prec", f"{EXPR}.FortranExpressionMapper")
    if forced_parens_rule(run, P, "C03.prec", f"{EXPR}.FortranExpressionMapper") < 1:
        raise AnalysisError("FortranExpressionMapper: no handler replaces a pymbolic handler that "
                            "forces parentheses (map_product expected)")
    if n < 8:
        raise AnalysisError(f"only {n} printer operands examined")


def _const(run, P):
    f = P.func(f"{EXPR}.FortranExpressionMapper.map_constant")
    from ..engine.cfg import CFG, walk_fragment
    from ..engine.srcmodel import _always_leaves
    g = CFG(f.node)
    e = f.params[1]

    def type_tests(word):
        return [n for n in g.nodes if n.kind == "test" and isinstance(n.label, ast.If)
                and isinstance(n.ast, ast.Call) and dotted(n.ast.func) == "isinstance"
                and dotted(n.ast.args[0]) == e and word in ast.unparse(n.ast.args[1])
                and _always_leaves(n.label.body)]

    cplx, boo = type_tests("complex"), type_tests("bool")
    # (the formatting itself may sit in a helper of the printer)
    fmt_helpers = {f"self.{nm}" for nm, m_ in f.cls.methods.items() if m_ is not f and any(
        isinstance(x, ast.Call) and dotted(x.func) == "repr" for x in ast.walk(m_.node))}
    numeric = [n for n in g.nodes if n.kind == "stmt" and n.ast is not None and any(
        isinstance(x, ast.Call) and (dotted(x.func) == "repr" or dotted(x.func) in fmt_helpers)
        for x in walk_fragment(n.ast))]
    ok = bool(cplx) and bool(boo) and bool(numeric) \
        and not g.always_preceded(numeric, boo) and not g.always_preceded(numeric, cplx)
    run.ob("C03.const", f, f.node, ok,
           construct="complex and bool constants are dealt with (and left) before the numeric formatting",
           why="bool is an int: reaching the numeric branch, True prints as 'Trued0'")
    src = ast.unparse(f.node)
    ok = f"if {f.arg(0)} < 0:" in src and "'(%s)' % result" in src
    run.ob("C03.const", f, f.node, ok,
           construct="negative constants are parenthesized",
           why="'a * -2d0' and '-2d0**2d0' are not what the expression tree says")


def _run(run, P):
    f = P.func(f"{GEN}.emit_run_step")
    loops = [n for n in ast.walk(f.node) if isinstance(n, ast.For)
             and f"{f.arg(0)}.phases" in ast.unparse(n.iter)]
    if len(loops) != 1:
        raise AnalysisError("emit_run_step: loop over phases not found")
    lp = loops[0]
    ok = isinstance(lp.iter, ast.Call) and dotted(lp.iter.func) == "sorted"
    run.ob("C03.run", f, lp, ok, construct=f"for ... in {norm(lp.iter)}",
           why="phase order must not depend on container order (C15)")
    emits = []
    for s in lp.body:
        for x in ast.walk(s):
            if isinstance(x, ast.Call) and dotted(x.func) == "self.emit" and x.args \
                    and not isinstance(s, (ast.If,)):
                emits.append((x.lineno, string_prefix(x.args[0]) or "", x))
    emits.sort(key=lambda t: t[0])
    kinds = ["next" if e[1].startswith("dagrt_state%dagrt_next_phase = ") else
             "call" if e[1].startswith("call dagrt_phase_func_") else "other" for e in emits]
    ok = "next" in kinds and "call" in kinds and kinds.index("next") < kinds.index("call")
    src_ok = False
    for e in emits:
        if e[1].startswith("dagrt_state%dagrt_next_phase = "):
            src_ok = "next_phase" in ast.unparse(e[2]) and "phase_name_to_phase_sym" in ast.unparse(e[2])
    run.ob("C03.run", f, emits[0][2] if emits else lp, ok and src_ok,
           construct=f"per phase: {kinds}",
           why="the interpreter sets the default successor before the body runs, so it "
               "also applies after a failed step; assigned at the end of the body "
               "instead, a FailStep leaves the failed phase selected")
    # the tuple variable used for next_phase is the loop's phase
    sw = P.func(f"{GEN}.emit_inst_SwitchPhase")
    from .c12 import _emit_strings, exit_label
    label, _, _ = exit_label(P)
    strs = [s for _, _, s, _ in _emit_strings(sw)]
    ok = len(strs) >= 2 and strs[0].startswith("dagrt_state%dagrt_next_phase = ") \
        and strs[-1] == f"goto {label}" \
        and f"{sw.arg(0)}.next_phase" in ast.unparse(sw.node)
    run.ob("C03.run", sw, sw.node, ok,
           construct=f"SwitchPhase: {strs}",
           why="the target must be stored before leaving through the exit label")
    fs = P.func(f"{GEN}.emit_inst_FailStep")
    strs = [s for _, _, s, _ in _emit_strings(fs)]
    ok = bool(strs) and strs[-1] == f"goto {label}" \
        and not any(s.startswith("dagrt_state%dagrt_next_phase") for s in strs)
    run.ob("C03.run", fs, fs.node, ok,
           construct=f"FailStep: {strs}",
           why="a failed step keeps the default successor and leaves through the exit label")
    er = P.func(f"{GEN}.emit_return")
    strs = [s for _, _, s, _ in _emit_strings(er)]
    ok = strs == [f"goto {label}"]
    run.ob("C03.run", er, er.node, ok,
           construct=f"end of phase: {strs}",
           why="the end of the body must not touch next_phase (a SwitchPhase may have set it)")


def _loop(run, P):
    f = P.func(f"{GEN}.emit_for_begin")
    src = ast.unparse(f.node)
    conv = src.count("ubound - 1")
    ok = conv == 1 and "self.expr(lbound)" in src and "self.expr(ubound - 1)" in src
    run.ob("C03.loop", f, f.node, ok,
           construct="Fortran: do var = int(lbound), int(ubound - 1)",
           why="loops are half-open as in Python; Fortran's do is inclusive")
    g = P.func("dagrt.codegen.python.CodeGenerator.emit_for_begin")
    src = ast.unparse(g.node)
    ok = "range({self._expr(lbound)}, {self._expr(ubound)})" in src and "- 1" not in src \
        and "+ 1" not in src
    run.ob("C03.loop", g, g.node, ok,
           construct="Python: range(lbound, ubound)",
           why="same interval as the interpreter")
    h = P.func("dagrt.exec_numpy.NumpyInterpreter.exec_Assign")
    from .util import find
    ok = False
    for n_, b_ in find("V_i, V_a, V_b = V_loops[0]", h.node):
        ok = ok or bool(find(f"range(self.eval_mapper({b_['V_a']}), self.eval_mapper({b_['V_b']}))", h.node))
    run.ob("C03.loop", h, h.node, ok,
           construct="interpreter: range(start, stop)",
           why="reference semantics")
    lw = P.func("dagrt.codegen.codegen_base.StructuredCodeGenerator.lower_node")
    nd = lw.arg(0)
    ok = f"self.emit_for_begin({nd}.loop_var_name, {nd}.lbound, {nd}.ubound)" in ast.unparse(lw.node)
    run.ob("C03.loop", lw, lw.node, ok,
           construct="walker passes (loop_var_name, lbound, ubound)",
           why="argument order")


def _norm(run, P):
    """The Fortran generator adds up abs(entry)**2 over every entry of the value, whatever
    its rank; numpy's norm(x, 2) is that only for one-dimensional x."""
    f = P.func("dagrt.builtins_python.builtin_norm_2")
    x = f.arg(0)
    calls = [c for c in ast.walk(f.node) if isinstance(c, ast.Call)
             and (dotted(c.func) or "").endswith("linalg.norm")]
    if not calls:
        raise AnalysisError("builtin_norm_2: no linalg.norm call; how the norm is computed is "
                            "not recognised")
    for c in calls:
        a = c.args[0] if c.args else None
        flat = False
        if isinstance(a, ast.Call):
            d = dotted(a.func) or ""
            if d.split(".")[-1] in ("ravel", "flatten") and (
                    (a.args and dotted(a.args[0]) == x) or dotted(getattr(a.func, "value", None)) == x):
                flat = True
            if d == f"{x}.reshape" and len(a.args) == 1 and norm(a.args[0]) in ("-1", "(-1,)"):
                flat = True
        run.ob("C03.norm", f, c, flat,
               construct=f"builtin_norm_2: {norm(c)} is taken of the flattened value",
               why="for a user type of rank two numpy's norm(x, 2) is the spectral norm (and "
                   "an error for rank three and up), the generated Fortran computes the "
                   "root of the sum of squares of all entries")
    g = P.func("dagrt.codegen.fortran.Norm2Computer.visit_BuiltinType")
    strs = [n.value for n in ast.walk(g.node) if isinstance(n, ast.Constant) and isinstance(n.value, str)]
    run.ob("C03.norm", g, g.node, any("abs({expr})**2" in s_.replace(" ", "") for s_ in strs),
           construct="Norm2Computer adds abs(entry)**2 for every entry",
           why="the reference the interpreter's built-in has to agree with")


def _handlers(run, P):
    G = P.cls(GEN)
    for kind in ("Assign", "AssignFunctionCall", "YieldState", "Raise", "FailStep", "SwitchPhase"):
        m = P.method(G, "emit_inst_" + kind)
        run.ob("C03.handlers", G, m.node if m else None, m is not None,
               construct=f"emit_inst_{kind}",
               why="a supported statement kind without a handler makes generation fail")
    li = P.func("dagrt.codegen.codegen_base.StructuredCodeGenerator.lower_inst")
    ok = f"'emit_inst_' + type({li.arg(0)}).__name__" in ast.unparse(li.node)
    run.ob("C03.handlers", li, li.node, ok,
           construct="dispatch by 'emit_inst_' + type(inst).__name__",
           why="naming convention the handlers rely on")


def _zip(run, P):
    from .c14 import _seq_signature
    n = 0
    for modname in ("dagrt.codegen.fortran", "dagrt.codegen.codegen_base", "dagrt.codegen.dag_ast",
                    "dagrt.codegen.analysis", "dagrt.codegen.transform", "dagrt.data"):
        m = P.module(modname)
        for f in m.functions.values():
            for x in ast.walk(f.node):
                if isinstance(x, ast.Call) and dotted(x.func) == "zip" and len(x.args) >= 2 \
                        and not any(isinstance(a_, ast.Starred) for a_ in x.args):
                    sigs = [_seq_signature(f.node, a_) for a_ in x.args]
                    ops = {s_[1] for s_ in sigs}
                    n += 1
                    run.ob("C03.zip", f, x, len(ops) == 1,
                           construct=f"zip over {[s_[0][:30] + ('/' + '/'.join(s_[1]) if s_[1] else '') for s_ in sigs]}",
                           why="the sequences describe the same axes / arguments / phases by "
                               "position: reversing some of them and not the others pairs "
                               "every loop index with another axis's extent")
    if n == 0:
        raise AnalysisError("C03.zip: no zip() found")


def _splits(run, P):
    """<separator literal>.split(<data>) has receiver and argument swapped."""
    n = 0
    for modname in ("dagrt.codegen.fortran", "dagrt.codegen.utils", "dagrt.codegen.python"):
        m = P.module(modname)
        for f in m.functions.values():
            for x in ast.walk(f.node):
                if isinstance(x, ast.Call) and isinstance(x.func, ast.Attribute) \
                        and x.func.attr in ("split", "rsplit", "partition", "rpartition") and x.args:
                    n += 1
                    recv, arg = x.func.value, x.args[0]
                    swapped = isinstance(recv, ast.Constant) and isinstance(recv.value, str) \
                        and len(recv.value) <= 2 and not isinstance(arg, ast.Constant)
                    run.ob("C03.zip", f, x, not swapped,
                           construct=f"{norm(x, 50)}: the data is split by the separator",
                           why="'\\':\\'.split(dim)' always yields one part: an explicit lower "
                               "bound '0:2' is taken for an extent and the generated "
                               "declaration does not compile")
    if n == 0:
        raise AnalysisError("C03: no split() found in the generators")


def _reduce(run, P):
    m = P.module("dagrt.codegen.fortran")
    base = m.classes.get("TypeVisitorWithResult")
    if base is None:
        raise AnalysisError("fortran.TypeVisitorWithResult not found")
    n = 0
    for c in sorted(P.subclasses(base), key=lambda c: c.name):
        f = c.methods.get("visit_BuiltinType")
        if f is None:
            continue
        tmpls = []
        for x in ast.walk(f.node):
            if isinstance(x, ast.Call) and isinstance(x.func, ast.Attribute) and x.func.attr == "format":
                t = string_value(x.func.value)
                if t is not None:
                    tmpls.append((x, t))
        assigns = [(x, t) for x, t in tmpls if t.lstrip().startswith("{result} =")]
        if not assigns:
            continue
        n += 1
        x, t = assigns[0]
        rhs = t.split("=", 1)[1]
        run.ob("C03.reduce", f, x, "{result}" in rhs,
               construct=f"{c.name}: per-entry statement '{t.strip()[:60]}'",
               why="the statement is emitted once per entry of the value: without the "
                   "result on its right-hand side only the last entry visited decides "
                   "(a NaN in the first entry of a vector goes unnoticed)")
    if n < 3:
        raise AnalysisError(f"C03.reduce: {n} result-computing visitors found")


def _utypes(run, P):
    f = P.func("dagrt.data.collect_user_types")
    loops = [x for x in ast.walk(f.node) if isinstance(x, ast.For) and isinstance(x.target, ast.Name)
             and any(isinstance(y, ast.Call) and dotted(y.func) == "isinstance" and y.args
                     and dotted(y.args[0]) == x.target.id and "UserType" in ast.unparse(y.args[1])
                     for s_ in x.body if not isinstance(s_, ast.For) for y in ast.walk(s_))]
    if len(loops) < 2:
        raise AnalysisError("collect_user_types: loops testing for UserType not found")
    for lp in loops:
        it = lp.iter
        ok = isinstance(it, ast.Call) and isinstance(it.func, ast.Attribute) and it.func.attr == "values"
        run.ob("C03.utypes", f, lp, ok,
               construct=f"for {lp.target.id} in {norm(it, 50)}: if isinstance({lp.target.id}, UserType)",
               why="iterating the table itself yields names: no user type is found, and the "
                   "generator emits no allocation-check / release routine for a type that "
                   "only phase-local variables have (the module does not link)")
    srcs = " ".join(norm(lp.iter) for lp in loops) + " " + ast.unparse(f.node)
    run.ob("C03.utypes", f, f.node, "global_table" in srcs and "per_phase_table" in srcs,
           construct="both the global table and every per-phase table are scanned",
           why="a type used only by locals still needs its routines")


def _effects(run, P):
    from ..engine.cfg import CFG, walk_fragment
    G = P.cls(GEN)

    def must(f, pred, what, why):
        g = CFG(f.node)
        nodes = [n for n in g.nodes if n.kind == "stmt" and n.ast is not None
                 and pred([x for x in walk_fragment(n.ast)])]
        ok = bool(nodes) and g.exit not in g.reachable([g.entry], avoid=nodes, follow_exc=False,
                                                       include_start=True)
        run.ob("C03.effects", f, nodes[0].ast if nodes else f.node, ok,
               construct=f"{f.name}: {what} on every path", why=why)

    def emits(text):
        def pred(xs):
            for x in xs:
                if isinstance(x, ast.Call) and dotted(x.func) == "self.emit" and x.args:
                    t = string_prefix(x.args[0])
                    if t is not None and t.startswith(text):
                        return True
            return False
        return pred

    def assigns(slot):
        def pred(xs):
            for x in xs:
                if isinstance(x, ast.Call) and dotted(x.func) == "self.emit_assign_expr" and x.args:
                    t = string_prefix(x.args[0])
                    if t is not None and t.startswith(slot):
                        return True
            return False
        return pred

    y = P.method(G, "emit_inst_YieldState")
    for slot in ("<ret_time_id>", "<ret_time>", "<ret_state>"):
        must(y, assigns(slot), f"assigns the {slot} slot of the component",
             "the caller reads the returned state / time / time id from these slots")
    sp = P.method(G, "emit_inst_SwitchPhase")
    must(sp, emits("dagrt_state%dagrt_next_phase = "), "sets the next phase",
         "the interpreter continues in the phase that was switched to")
    must(sp, emits("goto 999"), "leaves through the exit label",
         "statements after a switch must not run; the release code is after the label")
    fs = P.method(G, "emit_inst_FailStep")
    must(fs, emits("goto 999"), "leaves through the exit label",
         "a failed step ends at once")
    rs = P.method(G, "emit_inst_Raise")
    if any(isinstance(t_, ast.If) and any(isinstance(x, ast.Attribute) and dotted(x.value) == "self"
                                           for x in ast.walk(t_.test)) for t_ in ast.walk(rs.node)):
        # what a Raise does depends on an option of the generator (report the error and
        # return instead of stopping, say): the two ways are not compared here
        raise AnalysisError("emit_inst_Raise emits differently under an option of the generator; "
                            "not decided")
    must(rs, emits("stop"), "stops the program",
         "the interpreter raises; continuing after a raise computes on")
    er = P.method(G, "emit_return")
    must(er, emits("goto 999"), "leaves through the exit label",
         "normal completion passes the release code after the label")


def _pipeline(run, P):
    f = P.func(f"{GEN}.__call__")
    fn = None
    for g_ in f.nested.values():
        if "eliminate_self_dependencies" in ast.unparse(g_.node):
            fn = g_
    if fn is None:
        raise AnalysisError("fortran CodeGenerator.__call__: pass pipeline not found")
    want = ["eliminate_self_dependencies", "isolate_function_arguments",
            "isolate_function_calls", "expand_IfThenElse"]
    seq = []
    cur = fn.params[0]
    chained = True
    for s_ in func_body_stmts(fn.node):
        if isinstance(s_, ast.Assign) and isinstance(s_.value, ast.Call) \
                and dotted(s_.value.func) in want:
            seq.append(dotted(s_.value.func))
            if not (s_.value.args and dotted(s_.value.args[0]) == cur
                    and isinstance(s_.targets[0], ast.Name)):
                chained = False
            else:
                cur = s_.targets[0].id
    rets = [r for r in ast.walk(fn.node) if isinstance(r, ast.Return)]
    ok = seq == want and chained and len(rets) == 1 and dotted(rets[0].value) == cur
    run.ob("C03.pipeline", fn, fn.node, ok,
           construct=f"passes applied: {seq}, each to the result of the one before; the last result is returned",
           why="the Fortran emitters assume no statement reads what it assigns, every "
               "call argument is a variable, every call stands alone and no conditional "
               "expression is left; a pass left out or applied to a stale tree breaks "
               "that (an assertion at generation time at best)")
    calls = [x for x in ast.walk(f.node) if isinstance(x, ast.Call) and dotted(x.func) == fn.name]
    loops = [lp for lp in ast.walk(f.node) if isinstance(lp, ast.For)
             and any(c in list(ast.walk(lp)) for c in calls)]
    ok = bool(calls) and bool(loops) and all(
        isinstance(c.args[0], ast.Name) for c in calls) and any(
        "create_ast_from_phase" in ast.unparse(lp) for lp in loops)
    run.ob("C03.pipeline", f, calls[0] if calls else f.node, ok,
           construct="every phase: create_ast_from_phase(...) then the pass pipeline, its result stored "
                     "for lowering",
           why="a phase lowered from the unprepared tree")


def check(run, P):
    run.do(_check_main, run, P)
    from . import generic
    generic.lints(run, P, "C03")
